"""Shared machinery of the /verif checks: regenerate -> build -> correspond -> decide -> evidence.

See DESIGN.md section 2.3.  Every check module in /verif/checks/Cxx.py exposes
`run(ctx)`; the CLI `/verif/check` builds a `Ctx`, calls it and then `ctx.finish()`.
"""
import contextlib
import fcntl
import hashlib
import json
import os
import random
import re
import shutil
import subprocess
import sys
import tempfile
import time

VERIF = os.path.dirname(os.path.dirname(os.path.abspath(__file__)))
REPO = os.environ.get("VERIF_REPO", "/repo")
COQ = os.path.join(VERIF, "coq")
PY = "/venv/bin/python"

sys.path.insert(0, VERIF)

BASE_TRUSTED = [
    "Coq 8.16.1 kernel (coqc, full .vo build); vm_compute used for Eval in correspondence files and for reflexive facts; native_compute not used",
    "translate/py2coq.py (tie T) and the Gallina models of Python stdlib functions in coq/Lib/PyStr.v (validated differentially)",
    "correspondence harness under /verif/vlib and /verif/checks (generators, canonicalisation, projections)",
]


def _clean_env():
    env = dict(os.environ)
    env["PYTHONPATH"] = REPO
    env["PYTHONHASHSEED"] = "0"
    env.setdefault("RADICALE_VERIF", "1")
    return env


def sh(cmd, timeout=600, cwd=None, env=None, input=None):
    """Run a command, return (rc, combined output) with the conda warning filtered."""
    try:
        p = subprocess.run(cmd, shell=isinstance(cmd, str), cwd=cwd, env=env or _clean_env(),
                           stdout=subprocess.PIPE, stderr=subprocess.STDOUT, timeout=timeout,
                           input=input, text=True, errors="replace")
        out, rc = p.stdout, p.returncode
    except subprocess.TimeoutExpired as e:
        out = (e.stdout or b"")
        if isinstance(out, bytes):
            out = out.decode(errors="replace")
        out += "\nTIMEOUT after %ss" % timeout
        rc = 124
    out = "\n".join(l for l in out.splitlines() if "conda" not in l.lower() or "WARNING" not in l)
    return rc, out


@contextlib.contextmanager
def coq_lock():
    os.makedirs(COQ, exist_ok=True)
    with open(os.path.join(COQ, ".build.lock"), "w") as f:
        fcntl.flock(f, fcntl.LOCK_EX)
        try:
            yield
        finally:
            fcntl.flock(f, fcntl.LOCK_UN)


def write_if_changed(path, text):
    old = None
    if os.path.exists(path):
        with open(path) as f:
            old = f.read()
    if old != text:
        with open(path, "w") as f:
            f.write(text)
        return True
    return False


def coq_project():
    """(Re)write _CoqProject and the Makefile when the file list changed."""
    files = []
    for d in ("Lib", "Gen", "Model", "Proofs", "Props"):
        dd = os.path.join(COQ, d)
        if os.path.isdir(dd):
            for root, _, names in os.walk(dd):
                for n in sorted(names):
                    if n.endswith(".v"):
                        files.append(os.path.relpath(os.path.join(root, n), COQ))
    text = "-Q . RV\n-arg -w -arg -all\n" + "\n".join(sorted(files)) + "\n"
    changed = write_if_changed(os.path.join(COQ, "_CoqProject"), text)
    if changed or not os.path.exists(os.path.join(COQ, "Makefile")):
        rc, out = sh("coq_makefile -f _CoqProject -o Makefile", cwd=COQ)
        if rc != 0:
            raise RuntimeError("coq_makefile failed: " + out)


def regenerate():
    """Tie T: regenerate coq/Gen from REPO.  Returns dict module -> error text."""
    from translate import py2coq
    errs = py2coq.generate(REPO, os.path.join(COQ, "Gen"))
    # further translators: translate/t_*.py, each exposing generate(repo, outdir) -> {module: error}
    import glob
    import importlib
    for f in sorted(glob.glob(os.path.join(VERIF, "translate", "t_*.py"))):
        name = os.path.basename(f)[:-3]
        try:
            mod = importlib.import_module("translate." + name)
            errs.update(mod.generate(REPO, os.path.join(COQ, "Gen")))
        except Exception as e:  # a crashing translator is a broken obligation, never a guess
            errs[name] = "translator crashed: %r" % (e,)
    return errs


def make(targets, timeout=1500, jobs=16):
    coq_project()
    cmd = "timeout %d make -j%d %s" % (timeout, jobs, " ".join(targets))
    return sh(cmd, cwd=COQ, timeout=timeout + 30)


FORBIDDEN = re.compile(r"\b(Admitted|admit|Axiom|Axioms|Parameter|Parameters|Conjecture|Conjectures|"
                       r"bypass_check|Admit Obligations)\b|Unset\s+Guard|Unset\s+Positivity|Unset\s+Universe|"
                       r"type-in-type|impredicative-set")


def forbidden_scan(files):
    """grep the given .v files (relative to COQ) for forbidden vernacular (comments stripped)."""
    hits = []
    for f in files:
        p = os.path.join(COQ, f)
        if not os.path.exists(p):
            continue
        with open(p) as fh:
            src = fh.read()
        src_nc = strip_coq_comments(src)
        for i, line in enumerate(src_nc.splitlines(), 1):
            if FORBIDDEN.search(line):
                hits.append("%s:%d: %s" % (f, i, line.strip()[:120]))
            if re.match(r"\s*(Variable|Variables|Hypothesis|Hypotheses|Context)\b", line):
                # allowed only inside a Section
                if not inside_section(src_nc, i):
                    hits.append("%s:%d: %s outside section" % (f, i, line.strip()[:80]))
    return hits


def strip_coq_comments(src):
    out, depth, i, in_str = [], 0, 0, False
    while i < len(src):
        if not in_str and src.startswith("(*", i):
            depth += 1
            i += 2
            continue
        if not in_str and depth and src.startswith("*)", i):
            depth -= 1
            i += 2
            continue
        c = src[i]
        if depth == 0:
            if c == '"':
                in_str = not in_str
            out.append(c)
        elif c == "\n":
            out.append(c)
        i += 1
    return "".join(out)


def inside_section(src, lineno):
    depth = 0
    for i, line in enumerate(src.splitlines(), 1):
        if i >= lineno:
            break
        if re.match(r"\s*Section\s+\w+", line):
            depth += 1
        elif re.match(r"\s*End\s+\w+", line) and depth:
            depth -= 1
    return depth > 0


def v_deps(vfile):
    """Transitive RV.* dependencies of a .v file (relative paths), by reading Require lines."""
    seen, todo = [], [vfile]
    while todo:
        f = todo.pop()
        if f in seen:
            continue
        seen.append(f)
        p = os.path.join(COQ, f)
        if not os.path.exists(p):
            continue
        with open(p) as fh:
            src = strip_coq_comments(fh.read())
        for m in re.finditer(r"RV\.(\w+)\.(\w+)", src):
            todo.append("%s/%s.v" % (m.group(1), m.group(2)))
        for m in re.finditer(r"From\s+RV\.(\w+)\s+Require\s+(?:Import|Export)?\s*([\w\s]+)\.", src):
            for n in m.group(2).split():
                todo.append("%s/%s.v" % (m.group(1), n))
    return seen


def theorems_in(vfile, kinds=("Theorem",)):
    p = os.path.join(COQ, vfile)
    if not os.path.exists(p):
        return []
    with open(p) as fh:
        src = strip_coq_comments(fh.read())
    return re.findall(r"^\s*(?:%s)\s+(\w+)" % "|".join(kinds), src, re.M)


class Ctx:
    def __init__(self, pid, tier="quick", seed=0):
        self.pid = pid
        self.tier = tier
        self.seed = seed
        self.rng = random.Random(seed)
        self.t0 = time.time()
        self.obligations = []        # dicts: name, ok, detail
        self.evaluations = 0
        self.nontrivial = set()
        self.samples = []
        self.distribution = {}
        self.violations = []
        self.known_hits = []
        self.assumptions = []
        self.trusted = list(BASE_TRUSTED)
        self.axioms = {}
        self.extra = {}
        self.rule = ""
        self.traces_validated = 0
        self.notes = []
        self._scratch = None
        self.build_ok = None
        self.level = "proof"
        with open(os.path.join(VERIF, "known_findings.json")) as f:
            self.known = json.load(f)

    # ------------------------------------------------------------ utilities
    @property
    def quick(self):
        return self.tier == "quick"

    def n(self, quick, thorough):
        return quick if self.quick else thorough

    def scratch(self):
        if self._scratch is None:
            self._scratch = tempfile.mkdtemp(prefix="rv-%s-" % self.pid)
        return self._scratch

    def cleanup(self):
        if self._scratch and os.path.isdir(self._scratch):
            shutil.rmtree(self._scratch, ignore_errors=True)
        self._scratch = None

    def log(self, *a):
        print("[%s %6.1fs]" % (self.pid, time.time() - self.t0), *a, flush=True)

    def count(self, key, n=1):
        self.distribution[key] = self.distribution.get(key, 0) + n

    def case(self, canonical, nontrivial=True, sample=None):
        """Record one evaluated case; `canonical` is any hashable/str describing it."""
        self.evaluations += 1
        if nontrivial:
            h = hashlib.sha1(repr(canonical).encode()).hexdigest()[:16]
            self.nontrivial.add(h)
        if sample is not None and len(self.samples) < 6:
            self.samples.append(sample)

    def obligation(self, name, ok, detail=""):
        self.obligations.append(dict(name=name, ok=bool(ok), detail=detail[-1500:] if detail else ""))

    # ------------------------------------------------------------ proof side
    def prove(self, extra_targets=()):
        """Regenerate (tie T), build Props/<pid>.vo and its dependencies, record obligations.
        Returns True when everything is discharged."""
        pid = self.pid
        props = "Props/%s.v" % pid
        with coq_lock():
            errs = regenerate()
            deps = v_deps(props)
            gen_used = [d for d in deps if d.startswith("Gen/")]
            for d in gen_used:
                mod = d[4:-2]
                self.obligation("translate:%s" % mod, mod not in errs, errs.get(mod, ""))
            hits = forbidden_scan(deps)
            self.obligation("no-forbidden-vernacular", not hits, "\n".join(hits))
            # build dependencies first (so Props file can be compiled with captured output)
            dep_targets = [d[:-2] + ".vo" for d in deps if d != props] + list(extra_targets)
            rc, out = make(dep_targets) if dep_targets else (0, "")
            if rc == 0:
                # executable models imported only by correspondence files (not by the Props file): keep them fresh;
                # a failure here surfaces later as `correspondence:*:model-evaluates`
                models = sorted(os.path.relpath(os.path.join(r, n), COQ)[:-2] + ".vo"
                                for r, _, ns in os.walk(os.path.join(COQ, "Model")) for n in ns if n.endswith(".v"))
                sh("timeout 900 make -k -j16 %s" % " ".join(models), cwd=COQ, timeout=930)
            geneq = []
            for d in deps:
                if d.startswith("Proofs/"):
                    geneq += [(d, n) for n in theorems_in(d, ("Lemma", "Theorem")) if n.startswith("Gen_")]
            failed_file, failed_lemma, errtxt = None, None, ""
            if rc != 0:
                failed_file, failed_lemma, errtxt = locate_failure(out)
                self.log("build failed in", failed_file, "at", failed_lemma)
            for d, n in geneq:
                bad = rc != 0 and (failed_file == d and (failed_lemma == n or failed_lemma is None)
                                   or failed_file is not None and failed_file.startswith("Gen/"))
                self.obligation("%s:%s" % (d, n), not bad, errtxt if bad else "")
            thms = theorems_in(props)
            pa = ""
            if rc == 0:
                rc2, pa = sh("timeout 600 coqc -w -all -Q . RV %s" % props, cwd=COQ, timeout=630)
            else:
                rc2 = 1
                pa = errtxt or out[-2000:]
            if rc2 != 0 and rc == 0:
                _, bad_thm, errtxt2 = locate_failure(pa, default_file=props)
            else:
                bad_thm, errtxt2 = None, pa
            for t in thms:
                ok = rc2 == 0
                self.obligation("%s:%s" % (props, t), ok, "" if ok else (errtxt2 if (bad_thm in (None, t)) else "not reached"))
            if rc != 0 and failed_file and not failed_file.startswith("Gen/") and not any(
                    o["name"].startswith(failed_file) and not o["ok"] for o in self.obligations):
                self.obligation("%s:%s" % (failed_file, failed_lemma or "?"), False, errtxt)
            if rc2 == 0:
                self.parse_assumptions(pa)
                if self.tier == "thorough" and not os.environ.get("VERIF_NO_COQCHK"):
                    # independent re-check of the compiled property file and everything it depends on
                    rc3, chk = sh("timeout 3000 coqchk -silent -o -Q . RV RV.Props.%s" % pid, cwd=COQ, timeout=3030)
                    summ = chk[chk.find("CONTEXT SUMMARY"):] if "CONTEXT SUMMARY" in chk else chk[-1500:]
                    m = re.search(r"\* Axioms:(.*?)\n\s*\n\* Constants/Inductives relying on type-in-type:(.*?)\n\s*\n"
                                  r"\* Constants/Inductives relying on unsafe \(co\)fixpoints:(.*?)\n\s*\n"
                                  r"\* Inductives whose positivity is assumed:(.*?)\n", summ, re.S)
                    fields = [" ".join(x.split()) for x in m.groups()] if m else None
                    self.extra["coqchk"] = dict(exit=rc3, axioms=fields[0] if fields else None,
                                                type_in_type=fields[1] if fields else None,
                                                unsafe_fixpoints=fields[2] if fields else None,
                                                assumed_positivity=fields[3] if fields else None)
                    clean = rc3 == 0 and fields is not None and all(f == "<none>" for f in fields[1:])
                    self.obligation("coqchk:Props/%s.vo" % pid, clean, "" if clean else summ[-1500:])
                    if fields and fields[0] != "<none>":
                        self.trusted.append("coqchk -o: axioms in the loaded libraries: " + fields[0])
                    else:
                        self.trusted.append("coqchk -o on Props/%s.vo: no axioms, no type-in-type, no unsafe fixpoints, no assumed positivity" % pid)
        self.build_ok = all(o["ok"] for o in self.obligations)
        self.checker_cmd = ("python translate/py2coq.py /repo coq/Gen && cd coq && coq_makefile -f _CoqProject -o Makefile "
                            "&& make %s && coqc -Q . RV %s  (Print Assumptions after each theorem)" % (
                                " ".join(dep_targets[-3:]), props))
        return self.build_ok

    def parse_assumptions(self, out):
        # "Closed under the global context" or "Axioms:\n name : type"
        blocks = re.split(r"(?=Closed under the global context|Axioms:)", out)
        closed = out.count("Closed under the global context")
        axioms = set()
        for b in blocks:
            if b.startswith("Axioms:"):
                for m in re.finditer(r"^([\w\.']+)\s*:", b[7:], re.M):
                    axioms.add(m.group(1))
        self.axioms = dict(closed_theorems=closed, axioms=sorted(axioms))
        if axioms:
            self.trusted.append("standard-library axioms reported by Print Assumptions: " + ", ".join(sorted(axioms)))
        else:
            self.trusted.append("Print Assumptions: every property theorem is closed under the global context (no axioms)")

    # ------------------------------------------------------------ running the model
    def coq_eval(self, name, body, timeout=600):
        """Compile a scratch .v file against the built development; returns (rc, stdout)."""
        d = self.scratch()
        p = os.path.join(d, name + ".v")
        with open(p, "w") as f:
            f.write(body)
        rc, out = sh("ulimit -s unlimited 2>/dev/null; timeout %d coqc -w -all -Q %s RV %s" % (timeout, COQ, p),
                     cwd=d, timeout=timeout + 30)
        return rc, out

    def coq_eval_many(self, files, timeout=900, jobs=16):
        """files: dict name -> body; compiled in parallel.  Returns dict name -> (rc, out)."""
        d = self.scratch()
        for name, body in files.items():
            with open(os.path.join(d, name + ".v"), "w") as f:
                f.write(body)
        script = os.path.join(d, "run_one.sh")
        with open(script, "w") as f:
            f.write("#!/bin/sh\nulimit -s unlimited 2>/dev/null\ntimeout %d coqc -w -all -Q %s RV $1.v > $1.out 2>&1\necho $? > $1.rc\n"
                    % (timeout, COQ))
        os.chmod(script, 0o755)
        sh("ls | grep '\\.v$' | sed 's/\\.v$//' | xargs -P%d -n1 ./run_one.sh" % jobs, cwd=d, timeout=timeout + 60)
        res = {}
        for name in files:
            try:
                rc = int(open(os.path.join(d, name + ".rc")).read().strip())
                out = open(os.path.join(d, name + ".out"), errors="replace").read()
            except OSError:
                rc, out = 1, "no output"
            res[name] = (rc, out)
            for ext in (".v", ".vo", ".glob", ".vok", ".vos", ".out", ".rc"):
                with contextlib.suppress(OSError):
                    os.remove(os.path.join(d, name + ext))
        return res

    def diff_cases(self, tag, header, fn, cases, in_enc, out_enc, eqb, shard=400):
        """Differential run of the Coq function `fn` (Gallina text, one argument) on `cases`
        = list of (input, expected_output) Python values; encoders give Gallina text.
        Returns list of indices where the model differs (or None + obligation when coqc fails)."""
        files = {}
        for k in range(0, len(cases), shard):
            chunk = cases[k:k + shard]
            rows = ";\n".join("(%s, %s)" % (in_enc(i), out_enc(o)) for i, o in chunk)
            body = (header + "\nDefinition cases_ := [\n%s\n].\n" % rows +
                    "Fixpoint bad_ {A B} (f : A -> B -> bool) (l : list (A * B)) (i : N) : list N :=\n"
                    "  match l with nil => nil | (a, b) :: r => if f a b then bad_ f r (N.succ i) else i :: bad_ f r (N.succ i) end.\n"
                    "Definition result_ := bad_ (fun i o => %s (%s i) o) cases_ 0%%N.\n"
                    "Eval vm_compute in result_.\n" % (eqb, fn))
            files["%s_%d" % (tag, k // shard)] = body
        res = self.coq_eval_many(files)
        bad = []
        for name, (rc, out) in sorted(res.items(), key=lambda kv: int(kv[0].rsplit("_", 1)[1])):
            k = int(name.rsplit("_", 1)[1]) * shard
            if rc != 0:
                self.obligation("correspondence:%s:model-evaluates" % tag, False, out[-1500:])
                return None
            m = re.search(r"=\s*(.*?)\s*:\s*list N", out, re.S)
            if not m:
                self.obligation("correspondence:%s:model-evaluates" % tag, False, out[-1500:])
                return None
            bad += [k + int(x) for x in re.findall(r"\d+", m.group(1))]
        return bad

    def coq_show(self, header, term):
        rc, out = self.coq_eval("show_%d" % random.randrange(10**9), header + "\nEval vm_compute in (%s).\n" % term, timeout=120)
        return out.strip()[-1500:]

    # ------------------------------------------------------------ decisions
    def violation(self, what, replay, signature=None, no_input=False):
        """Record a violation (or a known finding when `signature` matches known_findings.json)."""
        for k in self.known.get("findings", []):
            if k.get("property") == self.pid and k.get("status") == "known" and signature and k.get("signature") == signature:
                if signature not in [h["signature"] for h in self.known_hits]:
                    self.known_hits.append(dict(signature=signature, what=k.get("what", what)))
                return
        self.violations.append(dict(what=what, replay=replay, signature=signature, no_input=no_input))

    def finish(self):
        wall = time.time() - self.t0
        os.makedirs(os.path.join(VERIF, "evidence"), exist_ok=True)
        os.makedirs(os.path.join(VERIF, "replays"), exist_ok=True)
        broken = [o for o in self.obligations if not o["ok"]]
        if broken and not self.violations:
            # obligations broken and the searches found nothing: still a violation
            self.violations.append(dict(
                what="proof obligation / correspondence no longer checks: " + ", ".join(o["name"] for o in broken),
                replay=dict(broken_obligations=broken), signature=None, no_input=True))
        lines = []
        import glob
        for old_replay in glob.glob(os.path.join(VERIF, "replays", "%s-*.json" % self.pid)):
            with contextlib.suppress(OSError):
                os.remove(old_replay)
        for i, v in enumerate(self.violations):
            rp = os.path.join("replays", "%s-%d.json" % (self.pid, i))
            with open(os.path.join(VERIF, rp), "w") as f:
                json.dump(dict(property=self.pid, what=v["what"], signature=v["signature"], seed=self.seed,
                               tier=self.tier, replay=v["replay"],
                               broken_obligations=[o for o in broken]), f, indent=1, default=str)
            lines.append("VIOLATION property=%s replay=%s%s" % (self.pid, rp, " no-failing-input-found" if v["no_input"] else ""))
        for h in self.known_hits:
            print("KNOWN-FINDING: property=%s %s" % (self.pid, h["what"]))
        cov = dict(
            obligations=len(self.obligations),
            discharged=len([o for o in self.obligations if o["ok"]]),
            obligation_names=[o["name"] + ("" if o["ok"] else " [BROKEN]") for o in self.obligations],
            checker_cmd=getattr(self, "checker_cmd", "n/a"),
            trusted_base=self.trusted,
            print_assumptions=self.axioms,
            evaluations=self.evaluations,
            distinct_nontrivial=len(self.nontrivial),
            rule=self.rule,
            samples=self.samples[:6],
            distribution=self.distribution,
            traces_validated_against_impl=self.traces_validated,
            known_findings_hit=[h["signature"] for h in self.known_hits],
        )
        cov.update(self.extra)
        ev = dict(property_id=self.pid, tier=self.tier, seed=self.seed, level=self.level, coverage=cov,
                  assumptions=self.assumptions, wall_s=round(wall, 2), violations=len(self.violations),
                  notes=self.notes)
        # a run against a scratch tree (VERIF_REPO, seeded-change confirmation) must not overwrite the evidence
        # of the real tree: it goes to evidence-scratch/ (not committed)
        evdir = "evidence" if os.path.realpath(REPO) == "/repo" else "evidence-scratch"
        os.makedirs(os.path.join(VERIF, evdir), exist_ok=True)
        with open(os.path.join(VERIF, evdir, "%s.json" % self.pid), "w") as f:
            json.dump(ev, f, indent=1, default=str)
        for l in lines:
            print(l)
        self.cleanup()
        self.log("done: obligations %d/%d, evaluations %d, distinct non-trivial %d, violations %d, known %d, %.1fs" % (
            cov["discharged"], cov["obligations"], self.evaluations, len(self.nontrivial),
            len(self.violations), len(self.known_hits), wall))
        return 1 if self.violations else 0


def locate_failure(out, default_file=None):
    """From make/coqc output find (file, nearest preceding lemma name, error text)."""
    m = None
    for m in re.finditer(r'File "\./?([^"]+)", line (\d+), characters [\d-]+:\s*\n(Error:.*?)(?=\nmake|\nFile |\Z)', out, re.S):
        break
    if not m:
        m2 = re.search(r'File "([^"]+)", line (\d+).*?\n(Error.*)', out, re.S)
        if not m2:
            return default_file, None, out[-1500:]
        m = m2
    f, line, err = m.group(1), int(m.group(2)), m.group(3)
    if os.path.isabs(f):
        f = os.path.relpath(f, COQ)
    lemma = None
    p = os.path.join(COQ, f)
    if os.path.exists(p):
        with open(p) as fh:
            for i, l in enumerate(fh, 1):
                if i > line:
                    break
                mm = re.match(r"\s*(?:Lemma|Theorem|Corollary|Definition|Fixpoint|Example)\s+(\w+)", l)
                if mm:
                    lemma = mm.group(1)
    return f, lemma, ("%s line %d: %s" % (f, line, err))[:1500]


# ------------------------------------------------------------------ encoders for Gallina terms
def enc_str(s):
    """Python str -> pystr literal (list of code points)."""
    return "[" + ";".join(str(ord(c)) for c in s) + "]%N"


def enc_bytes(b):
    return "[" + ";".join(str(x) for x in b) + "]%N"


def enc_bool(b):
    return "true" if b else "false"


def enc_opt(enc):
    return lambda v: "None" if v is None else "(Some %s)" % enc(v)


def enc_list(enc):
    return lambda l: "[" + ";".join(enc(x) for x in l) + "]"


def enc_N(n):
    return "%d%%N" % n


def enc_Z(n):
    return "(%d)%%Z" % n
