"""C17 helpers: drive the real BaseAuth.login with a scripted back-end and a logical clock,
generate histories, encode them for the Coq model, and the property monitors.

A *case* is a dict
  cfg    : dict(lc, uc, strip: bool; cache_logins: bool; type: str; exp_s, exp_f: int seconds)
  t0     : int, the clock (ns) when the auth object is created (= salt of the failed cache)
  creds  : list of [login, password, user]   (initial credentials table of the scripted back-end;
           first row whose login matches decides; user is what `_login` returns)
  events : list of ["A", login, password] | ["T", dt_ns] | ["C", creds]
           | ["F", login, password]   (an attempt during which the back-end raises BackendDown instead of answering)
"""
import ast
import logging
import os
import sys

from vlib import core
from vlib.core import enc_bool, enc_Z, enc_N


class Interner:
    """Names every distinct string once (Definition s_<n> := ...) so that case terms stay small:
    Coq spends its time elaborating literals, not running the model."""

    def __init__(self):
        self.names = {}

    def __call__(self, s):
        if s == "":
            return "[]"
        if s not in self.names:
            self.names[s] = "s_%d" % len(self.names)
        return self.names[s]

    def definitions(self):
        out = []
        for s, n in self.names.items():
            if all(32 <= ord(c) < 127 and c != '"' for c in s):
                out.append('Definition %s : pystr := str "%s".' % (n, s))
            else:
                out.append("Definition %s : pystr := %s." % (n, core.enc_str(s)))
        return "\n".join(out) + "\n"


INTERN = Interner()


def enc_str(s):
    return INTERN(s)


def header():
    """To be called AFTER all cases have been encoded."""
    return HEADER + INTERN.definitions()


if core.REPO not in sys.path:
    sys.path.insert(0, core.REPO)

import radicale  # noqa: E402
from radicale import auth, config  # noqa: E402

assert os.path.abspath(radicale.__file__).startswith(os.path.abspath(core.REPO)), radicale.__file__
radicale.log.logger.setLevel(logging.CRITICAL)

S = 10 ** 9
T0 = 1_700_000_000 * S           # realistic epoch: every salt str(time_ns) has 19 digits


class BackendDown(RuntimeError):
    """What the scripted back-end raises when told to fail (connection error, file missing for a moment, ...)."""


class Clock:
    """Stands in for the `time` module as seen by radicale.auth (time_ns, sleep, time)."""

    def __init__(self, t):
        self.t = t
        self.reads = 0
        self.slept = 0.0

    def time_ns(self):
        self.reads += 1
        return self.t

    def time(self):
        return self.t / 1e9

    def sleep(self, x):
        self.slept += x


_conf_cache = {}


def configuration(cfg):
    key = tuple(sorted(cfg.items()))
    if key not in _conf_cache:
        c = config.load()
        c.update({"auth": {"type": cfg["type"], "cache_logins": str(cfg["cache_logins"]),
                           "cache_successful_logins_expiry": str(cfg["exp_s"]),
                           "cache_failed_logins_expiry": str(cfg["exp_f"]),
                           "lc_username": str(cfg["lc"]), "uc_username": str(cfg["uc"]),
                           "strip_domain": str(cfg["strip"]), "delay": "0"}}, "verif", privileged=True)
        _conf_cache[key] = c
    return _conf_cache[key]


def table_answer(creds, login, password):
    for l, p, u in creds:
        if l == login:
            return u if p == password else ""
    return ""


def make_auth(case):
    """The real BaseAuth (subclassed only for the scripted `_login`), created at clock t0."""
    clock = Clock(case["t0"])
    auth.time = clock

    class Scripted(auth.BaseAuth):
        def __init__(self, configuration):
            self.table = [tuple(r) for r in case["creds"]]
            self.calls = []                  # (clock, login, password, answer)
            super().__init__(configuration)

        fault = False

        def _login(self, login, password):
            if self.fault:
                self.calls.append((auth.time.time_ns(), login, password, None))   # no verdict
                raise BackendDown("scripted back-end failure")
            ans = table_answer(self.table, login, password)
            self.calls.append((auth.time.time_ns(), login, password, ans))     # stamped with the caller's clock
            return ans

    return Scripted(configuration(case["cfg"])), clock


def cache_enabled(cfg):
    """What BaseAuth.__init__ makes of cache_logins (glue, restated independently)."""
    return bool(cfg["cache_logins"]) and cfg["type"] in ("dovecot", "ldap", "htpasswd", "imap", "oauth2", "pam")


def map_login_spec(cfg, login):
    if cfg["lc"]:
        login = login.lower()
    if cfg["uc"]:
        login = login.upper()
    if cfg["strip"]:
        login = login.split("@")[0]
    return login


def age_spec(now, t):
    d = now - t
    return d // S if d >= 0 else -((-d) // S)


def run_real(case, snapshot=True):
    """Run the history on the real code.  Returns dict(obs=[...], succ=[...], failed=[...], calls=[...]).
    obs[i] = dict(now, login, pw, out=("ret", user, cached) | ("raise", excname), called, nsucc, nfailed, moments_index)"""
    a, clock = make_auth(case)
    try:
        obs = []
        moments = [(clock.t, list(a.table))]
        seen_times = {case["t0"]}
        for ev in case["events"]:
            if ev[0] in ("A", "F"):
                ncalls = len(a.calls)
                seen_times.add(clock.t)
                a.fault = ev[0] == "F"
                try:
                    user, info = a.login(ev[1], ev[2])
                    out = ("ret", user, info.endswith(" / cached"))
                    if not (info == a._type or info == a._type + " / cached"):
                        out = ("raise", "bad-info:%r" % (info,))
                except KeyError:
                    out = ("raise", "KeyError")
                except Exception as e:  # noqa: BLE001
                    out = ("raise", type(e).__name__)
                a.fault = False
                obs.append(dict(now=clock.t, login=ev[1], pw=ev[2], out=out, called=len(a.calls) > ncalls, fault=ev[0] == "F",
                                calls_before=ncalls, calls_after=len(a.calls),
                                nsucc=len(getattr(a, "_cache_successful", ())),
                                nfailed=len(getattr(a, "_cache_failed", ())), moment=len(moments) - 1))
            elif ev[0] == "T":
                clock.t += ev[1]
                moments.append((clock.t, list(a.table)))
            elif ev[0] == "C":
                a.table = [tuple(r) for r in ev[1]]
                moments.append((clock.t, list(a.table)))
        res = dict(obs=obs, calls=list(a.calls), moments=moments, slept=clock.slept)
        if snapshot:
            res["succ"], res["failed"] = snapshot_sym(a, case, seen_times)
        return res
    finally:
        import time as real_time
        auth.time = real_time


def snapshot_sym(a, case, seen_times):
    """Contents of both dictionaries with the real digests renamed to the symbolic values of the model.  When the private
    layout of the caches is not the one the model was written from (other attribute names, other entry shapes), nothing
    can be renamed: every entry is reported as unknown ("?", never equal to what the model stores), so the correspondence
    reports the difference and the monitors -- which only look at login()'s answers and the back-end calls -- still run
    and search for a concrete failing history."""
    if not hasattr(a, "_cache_successful"):
        return [], []
    try:
        succ, failed = _snapshot_sym(a, case, seen_times)
        if all(isinstance(t, int) and isinstance(l, str) for l, _, t in succ) and \
                all(isinstance(t, int) and isinstance(l, str) for _, t, l in failed):
            return succ, failed
    except Exception:  # noqa: BLE001
        pass
    return ([("", ("?",), T0) for _ in a._cache_successful], [(("?",), T0, "") for _ in getattr(a, "_cache_failed", ())])


def _snapshot_sym(a, case, seen_times):
    logins, pws = set(), set()
    for ev in case["events"]:
        if ev[0] in ("A", "F"):
            logins.add(map_login_spec(case["cfg"], ev[1]))
            pws.add(ev[2])
    table = {}
    for l in logins:
        for p in pws:
            for t in seen_times:
                table[a._cache_digest(l, p, str(t))] = (t, l, p)
    salt0 = a._cache_failed_logins_salt_ns
    succ = []
    for login, entry in a._cache_successful.items():
        digest, t = entry[0], entry[1]
        succ.append((login, ("H",) + table[digest] if digest in table else ("?",), t))
    failed = []
    ktable = {}
    for l in logins:
        for p in pws:
            ktable[l + ":" + a._cache_digest(l, p, str(salt0))] = ("K", l, salt0, l, p)
    for key, (t, login) in a._cache_failed.items():
        failed.append((ktable.get(key, ("?",)), t, login))
    return succ, failed


# ---------------------------------------------------------------------------------- encoders
HEADER = """From Coq Require Import List ZArith NArith Bool String.
Import ListNotations.
Require Import RV.Lib.PyStr RV.Model.LoginCache.
Open Scope string_scope.
Open Scope Z_scope.
Definition t_ (d : Z) : Z := 1700000000000000000 + d.
Definition A_ (l p : pystr) := CE (@Attempt creds l p).
Definition T_ (d : Z) := CE (@Tick creds d).
Definition C_ (b : creds) := CE (@Change creds b).
"""


def enc_T(v):
    """clock values: written relative to T0 (19-digit literals are what Coq spends its time on)"""
    if abs(v - T0) < 10 ** 15:
        return "(t_ (%d))" % (v - T0)
    return enc_Z(v)


def enc_creds(tbl):
    return "[" + ";".join("(%s, %s, %s)" % (enc_str(l), enc_str(p), enc_str(u)) for l, p, u in tbl) + "]"


def enc_cfg(case):
    c = case["cfg"]
    return "(mkConfig %s %s %s %s %s %s %s)" % (enc_bool(c["lc"]), enc_bool(c["uc"]), enc_bool(c["strip"]),
                                               enc_bool(cache_enabled(c)), enc_Z(c["exp_s"]), enc_Z(c["exp_f"]),
                                               enc_T(case["t0"]))


def enc_event(ev):
    if ev[0] == "A":
        return "(A_ %s %s)" % (enc_str(ev[1]), enc_str(ev[2]))
    if ev[0] == "F":
        return "(CFault %s %s)" % (enc_str(ev[1]), enc_str(ev[2]))
    if ev[0] == "T":
        return "(T_ %s)" % enc_Z(ev[1])
    return "(C_ %s)" % enc_creds(ev[1])


def enc_case(case):
    return "((%s, %s, %s, [%s]) : ccase)" % (enc_cfg(case), enc_T(case["t0"]), enc_creds(case["creds"]),
                                   ";".join(enc_event(e) for e in case["events"]))


def enc_outcome(out):
    if out[0] == "ret":
        return "(ORet %s %s)" % (enc_str(out[1]), enc_bool(out[2]))
    return "(ORaise %s)" % ({"KeyError": "KeyError", "BackendDown": "BackendError"}.get(out[1], "OtherError"))


def enc_dval(d):
    if d[0] == "H":
        return "(DHash %s %s)" % (enc_T(d[1]), enc_str(d[2] + d[3]))
    if d[0] == "K":
        return "(DKey %s %s %s)" % (enc_str(d[1]), enc_T(d[2]), enc_str(d[3] + d[4]))
    return "DEmpty"          # unknown digest: never equal to what the model stores


def enc_expect(res):
    obs = ";".join("(mkCobs %s %s %s %s)" % (enc_outcome(o["out"]), enc_bool(o["called"]), enc_N(o["nsucc"]), enc_N(o["nfailed"]))
                   for o in res["obs"])
    succ = ";".join("(%s, (%s, %s))" % (enc_str(l), enc_dval(d), enc_T(t)) for l, d, t in res["succ"])
    failed = ";".join("(%s, (%s, %s))" % (enc_dval(k), enc_T(t), enc_str(l)) for k, t, l in res["failed"])
    return "(([%s], [%s], [%s]) : cexpect)" % (obs, succ, failed)


def variant_term(f1, f2, f3):
    return "(mkVariant %s %s %s)" % (enc_bool(f1), enc_bool(f2), enc_bool(f3))


# ---------------------------------------------------------------------------------- monitors
def monitor(case, res):
    """The property stated directly on what the implementation did.  Returns None or
    (rule, attempt index, text).  Evidence for an outcome is an actual call of the scripted
    back-end with the same (mapped) login and password: the call this attempt made itself, or an
    earlier one whose age in whole seconds is within the configured lifetime."""
    cfg = case["cfg"]
    for i, o in enumerate(res["obs"]):
        m = map_login_spec(cfg, o["login"])
        now = o["now"]
        faulted = any(c[3] is None for c in res["calls"][o["calls_before"]:o["calls_after"]])
        if o["out"][0] == "raise":
            if faulted and o["out"][1] == "BackendDown":
                continue          # the back-end's own exception, passed on: no verdict, nothing to justify
            return ("never-raises", i, "login(%r, %r) raised %s" % (o["login"], o["pw"], o["out"][1]))
        if faulted:
            return ("backend-fault-is-no-verdict", i, "the back-end raised while checking (%r, %r); login(%r, %r) answered %r instead of "
                    "passing the failure on (a failure of the back-end is neither an acceptance nor a rejection)"
                    % (m, o["pw"], o["login"], o["pw"], o["out"][1]))
        user = o["out"][1]
        if not cache_enabled(cfg):
            want = table_answer(res["moments"][o["moment"]][1], m, o["pw"])
            if user != want or not o["called"] or o["out"][2]:
                return ("cache-disabled", i, "cache disabled but login(%r, %r) -> %r, back-end says %r" % (o["login"], o["pw"], user, want))
            continue
        earlier = [c for c in res["calls"][:o["calls_before"]] if c[1] == m and c[2] == o["pw"]]
        own = [c for c in res["calls"][o["calls_before"]:o["calls_after"]] if c[1] == m and c[2] == o["pw"]]
        life = cfg["exp_s"] if user != "" else cfg["exp_f"]
        ok = any(c[3] == user for c in own) or any(c[3] == user and age_spec(now, c[0]) <= life for c in earlier)
        if not ok and user != "":
            return ("success-sound", i, "login(%r, %r) -> %r at %d but the back-end never answered %r for (%r, %r) now or within %d s"
                    % (o["login"], o["pw"], user, now, user, m, o["pw"], cfg["exp_s"]))
        if not ok:
            return ("failure-sound", i, "login(%r, %r) rejected at %d but the back-end did not reject (%r, %r) now or within %d s"
                    % (o["login"], o["pw"], now, m, o["pw"], cfg["exp_f"]))
        # transparency: the back-end's answer for (m, pw) was the same at every moment within both lifetimes
        horizon = max(cfg["exp_s"], cfg["exp_f"])
        answers = {table_answer(tbl, m, o["pw"]) for (t, tbl) in res["moments"][:o["moment"] + 1] if age_spec(now, t) <= horizon}
        if len(answers) == 1 and user != next(iter(answers)):
            return ("transparent", i, "credentials unchanged, back-end answers %r for (%r, %r), login(%r, %r) -> %r"
                    % (next(iter(answers)), m, o["pw"], o["login"], o["pw"], user))
    return None


def monotone(case):
    return all(ev[1] >= 0 for ev in case["events"] if ev[0] == "T")


def project(case, m):
    """The history without the attempts made under other (mapped) logins."""
    evs = [ev for ev in case["events"] if ev[0] not in ("A", "F") or map_login_spec(case["cfg"], ev[1]) == m]
    return dict(case, events=evs)


def monitor_independent(case, res):
    """Outcome for one login must not depend on attempts under other logins (clock monotone)."""
    if not monotone(case):
        return None
    logins = []
    for o in res["obs"]:
        m = map_login_spec(case["cfg"], o["login"])
        if m not in logins:
            logins.append(m)
    if len(logins) < 2:
        return None
    for m in logins:
        sub = run_real(project(case, m), snapshot=False)
        mine = [(i, o) for i, o in enumerate(res["obs"]) if map_login_spec(case["cfg"], o["login"]) == m]
        for (i, o), o2 in zip(mine, sub["obs"]):
            if (o["out"], o["called"]) != (o2["out"], o2["called"]):
                return ("independent", i, "login(%r, %r) -> %r (back-end asked: %s) in the full history, %r (%s) when the attempts "
                        "under other logins are left out" % (o["login"], o["pw"], o["out"], o["called"], o2["out"], o2["called"]))
    return None


def check_case(case, res=None):
    res = res or run_real(case)
    return monitor(case, res) or monitor_independent(case, res)


def shrink(case, rule):
    """Greedy removal of events / simplification while the same rule still fails."""
    def fails(c):
        r = check_case(c)
        return r is not None and r[0] == rule
    cur = dict(case)
    changed = True
    while changed:
        changed = False
        for i in range(len(cur["events"])):
            cand = dict(cur, events=cur["events"][:i] + cur["events"][i + 1:])
            if cand["events"] and fails(cand):
                cur = cand
                changed = True
                break
    return cur


def describe(case, res):
    lines = []
    k = 0
    for ev in case["events"]:
        if ev[0] in ("A", "F"):
            o = res["obs"][k]
            k += 1
            lines.append("t=%+.9fs login(%r, %r) -> %s%s" % ((o["now"] - case["t0"]) / 1e9, ev[1], ev[2], o["out"],
                                                          " [back-end asked%s]" % (" and RAISED BackendDown" if ev[0] == "F" else "")
                                                          if o["called"] else ""))
        elif ev[0] == "T":
            lines.append("clock %+d ns" % ev[1])
        else:
            lines.append("credentials := %r" % (ev[1],))
    return lines


# ---------------------------------------------------------------------------------- the age expression of the source
def age_expressions():
    """The `int((time_ns - time_ns_cache) / 1000 / 1000 / 1000)` expressions of login(), compiled from the
    current source: list of (target name, function(time_ns, time_ns_cache))."""
    src = open(os.path.join(core.REPO, "radicale/auth/__init__.py")).read()
    tree = ast.parse(src)
    out = []
    for node in ast.walk(tree):
        if isinstance(node, ast.FunctionDef) and node.name == "login":
            for sub in ast.walk(node):
                if isinstance(sub, ast.Assign) and len(sub.targets) == 1 and isinstance(sub.targets[0], ast.Name) \
                        and sub.targets[0].id.startswith("age_"):
                    names = {n.id for n in ast.walk(sub.value) if isinstance(n, ast.Name)}
                    if names <= {"int", "time_ns", "time_ns_cache"}:
                        code = compile(ast.Expression(sub.value), "auth/__init__.py:%d" % sub.lineno, "eval")
                        out.append((sub.targets[0].id + "@%d" % sub.lineno,
                                    (lambda code: lambda now, t: eval(code, {"int": int, "time_ns": now, "time_ns_cache": t}))(code)))
    return out


def diff_encoded(ctx, tag, fn, enc, eqb, shard):
    """Like core.Ctx.diff_cases for pre-encoded (input, expected) texts, but every shard gets a header with only the
    interned strings it mentions (long secrets make the full table expensive to elaborate 20 times)."""
    import re
    names = {v: k for k, v in INTERN.names.items()}

    def definition(n):
        s_ = names[n]
        if all(32 <= ord(c) < 127 and c != '"' for c in s_):
            return 'Definition %s : pystr := str "%s".' % (n, s_)
        return "Definition %s : pystr := %s." % (n, core.enc_str(s_))
    files = {}
    for k in range(0, len(enc), shard):
        chunk = enc[k:k + shard]
        rows = ";\n".join("(%s, %s)" % (i, o) for i, o in chunk)
        used = sorted(set(re.findall(r"\bs_\d+\b", rows)), key=lambda x: int(x[2:]))
        body = (HEADER + "\n".join(definition(n) for n in used) + "\nDefinition cases_ := [\n%s\n].\n" % rows +
                "Fixpoint bad_ {A B} (f : A -> B -> bool) (l : list (A * B)) (i : N) : list N :=\n"
                "  match l with nil => nil | (a, b) :: r => if f a b then bad_ f r (N.succ i) else i :: bad_ f r (N.succ i) end.\n"
                "Definition result_ := bad_ (fun i o => %s (%s i) o) cases_ 0%%N.\n"
                "Eval vm_compute in result_.\n" % (eqb, fn))
        files["%s_%d" % (tag, k // shard)] = body
    res = ctx.coq_eval_many(files)
    bad = []
    for name, (rc, out) in sorted(res.items(), key=lambda kv: int(kv[0].rsplit("_", 1)[1])):
        k = int(name.rsplit("_", 1)[1]) * shard
        m = re.search(r"=\s*(.*?)\s*:\s*list N", out, re.S)
        if rc != 0 or not m:
            ctx.obligation("correspondence:%s:model-evaluates" % tag, False, out[-1500:])
            return None
        bad += [k + int(x) for x in re.findall(r"\d+", m.group(1))]
    return bad
