"""C07 helper: drive the real Radicale through sync histories under a logical clock.

* `World`      one in-process server (vlib.impl.Server) with two calendars /u/c0/ and /u/c1/, the clock the
               storage reads (`radicale.storage.multifilesystem.cache.time`) replaced by a logical clock, file
               mtimes of history / token files normalised to logical time after every request.
* `World.apply(op)`  executes one abstract operation, returns (accepted, result) where result is the
               canonical black-box observation of a sync (refused | token id + delta) or None.
* `World.dump()`     white-box view of every collection: items (Depth:1 PROPFIND), history files, token files.
* `Monitor`    the property stated directly on the observable behaviour (independent of the Coq model).
* `gen_history(rng, ...)` seeded generator of operation sequences.

Operations (JSON-able lists):
  ["put", c, h, uid, k]      PUT /u/c<c>/<HREFS[h]> with UID uid, variant k
  ["del", c, h]              DELETE item
  ["move", c, h, c2, h2]     MOVE with Overwrite: T
  ["replace", c, [[uid,k]..]]  PUT of a whole calendar on the collection path (create or replace)
  ["delcoll", c]  ["mkcoll", c]
  ["dropcache", c, inroot]   external deletion of <collection-root|collection-cache>/u/c/.Radicale.cache
  ["tick", dt]               logical clock += dt seconds
  ["sync", c, tok]           REPORT sync-collection; tok = None | int (index into tokens seen so far)
                             | ["ws", int] (token padded with white space) | ["mal", str] (literal string)
  ["ptok", c]                PROPFIND D:sync-token
  ["syncfail", c, tok, mode] REPORT during which the write of the token file fails once with ENOSPC
                             (mode "enospc": before a byte is written, "trunc": after half of the pickle)
Configuration key `prefix`: None | "script" (environ SCRIPT_NAME=/radicale) | "xscript" (X-Script-Name header).
"""
import os
import pickle
import re
import shutil
import urllib.parse

from vlib import impl

NS_TOKEN = "http://radicale.org/ns/sync/"
# names a client may legitimately use: a literal percent escape, space, '+', non-ASCII, '%25' -- the request line
# carries them percent-encoded (PATH_INFO is the decoded form), multistatus hrefs come back percent-encoded
HREFS = ["a.ics", "plan%41.ics", "c d+\u00e9%25.ics"]
UIDS = ["a", "plan%41", "c d+\u00e9%25"]
NCOLL = 2
T0 = 1_000_000          # logical start time (real mtimes are > 1e9, so "written during this request" is recognisable)
REAL = 1e9

_real_time_module = None
_real_time_fn = None


class Clock:
    def __init__(self):
        self.now = T0

    def time(self):
        return float(self.now)


def event_text(uid, k):
    return impl.event(uid, summary="variant%d" % k)


def calendar_text(items):
    """One VCALENDAR with several VEVENTs (whole-collection PUT)."""
    body = "BEGIN:VCALENDAR\r\nPRODID:-//verif//EN\r\nVERSION:2.0\r\n"
    for uid, k in items:
        body += ("BEGIN:VEVENT\r\nUID:%s\r\nSUMMARY:variant%d\r\nDTSTART:20130901T180000Z\r\n"
                 "DTEND:20130901T190000Z\r\nEND:VEVENT\r\n" % (uid, k))
    return body + "END:VCALENDAR\r\n"


ERRNOS = {"EACCES": 13, "ENOSPC": 28, "EROFS": 30, "EIO": 5}
FAULT_CALLS = ["mkdir", "open", "write", "replace"]


class TokenWriteFault:
    """While active, ONE system-level step of writing the token-state file fails.
    mode "enospc" / "trunc": the `pickle.dump` the sync module sees raises ENOSPC before a byte / after half of the
    pickle was written.  mode "<call>:<ERRNO>" with call in mkdir | open | write | replace and ERRNO in ERRNOS: the
    first such call on a path below a `sync-token` folder raises OSError(errno) (PermissionError for EACCES)."""

    def __init__(self, mode):
        self.mode = mode
        self.fired = False
        self.undo = []

    def _err(self, code):
        return OSError(code, os.strerror(code) + " (injected)")

    def __enter__(self):
        import errno
        import radicale.storage.multifilesystem.base as base_mod
        import radicale.storage.multifilesystem.sync as sync_mod
        outer = self
        if ":" not in self.mode:
            real = sync_mod.pickle

            class Proxy:
                def __getattr__(self, name):
                    return getattr(real, name)

                def dump(self, obj, f, *a, **kw):
                    if outer.fired:
                        return real.dump(obj, f, *a, **kw)
                    outer.fired = True
                    if outer.mode == "trunc":
                        data = real.dumps(obj)
                        f.write(data[:max(1, len(data) // 2)])
                        f.flush()
                    raise outer._err(errno.ENOSPC)
            sync_mod.pickle = Proxy()
            self.undo.append(lambda: setattr(sync_mod, "pickle", real))
            return self
        call, name = self.mode.split(":")
        code = ERRNOS[name]

        def hit(path):
            return (not outer.fired) and "sync-token" in str(path).split(os.sep)

        if call == "mkdir":
            real_mkdir = os.mkdir

            def mkdir(path, *a, **kw):
                if hit(path):
                    outer.fired = True
                    raise outer._err(code)
                return real_mkdir(path, *a, **kw)
            os.mkdir = mkdir
            self.undo.append(lambda: setattr(os, "mkdir", real_mkdir))
        elif call == "replace":
            real_replace = os.replace

            def replace(src, dst, *a, **kw):
                if hit(dst):
                    outer.fired = True
                    raise outer._err(code)
                return real_replace(src, dst, *a, **kw)
            os.replace = replace
            self.undo.append(lambda: setattr(os, "replace", real_replace))
        else:
            import builtins

            class FileProxy:
                def __init__(self, f):
                    self._f = f

                def __getattr__(self, name):
                    return getattr(self._f, name)

                def __enter__(self):
                    self._f.__enter__()
                    return self

                def __exit__(self, *a):
                    return self._f.__exit__(*a)

                def write(self, data):
                    if not outer.fired:
                        outer.fired = True
                        raise outer._err(code)
                    return self._f.write(data)

            def fake_open(path, mode="r", *a, **kw):
                if "w" in mode and hit(path):
                    if call == "open":
                        outer.fired = True
                        raise outer._err(code)
                    return FileProxy(builtins.open(path, mode, *a, **kw))
                return builtins.open(path, mode, *a, **kw)
            for mod in (base_mod, sync_mod):
                had = "open" in vars(mod)
                old = vars(mod).get("open")
                mod.open = fake_open
                self.undo.append((lambda m, h, o: (lambda: setattr(m, "open", o) if h else delattr(m, "open")))(mod, had, old))
        return self

    def __exit__(self, *a):
        for u in reversed(self.undo):
            u()
        self.undo = []


class World:
    def __init__(self, sub_item=False, sub_hist=False, sub_tok=False, max_age=1000, prefix=None):
        # prefix: None | "script" (environ SCRIPT_NAME=/radicale) | "xscript" (X-Script-Name: /radicale)
        self.prefix = prefix
        self.base = "/radicale" if prefix else ""
        self.env = {"script": {"SCRIPT_NAME": "/radicale"}, "xscript": {"HTTP_X_SCRIPT_NAME": "/radicale"}}.get(prefix, {})
        import radicale.storage.multifilesystem.cache as cache_mod
        import time as time_mod
        global _real_time_module, _real_time_fn
        if _real_time_module is None:
            _real_time_module = cache_mod.time if not isinstance(cache_mod.time, Clock) else time_mod
            _real_time_fn = time_mod.time
        self.cache_mod = cache_mod
        self.time_mod = time_mod
        self.clock = Clock()
        cache_mod.time = self.clock
        # every reader of the wall clock in this process sees the logical clock while the world exists (any storage
        # module may consult time.time(), e.g. history.py); file mtimes are re-stamped by normalise()
        time_mod.time = self.clock.time
        self.cfg = dict(sub_item=sub_item, sub_hist=sub_hist, sub_tok=sub_tok, max_age=max_age, prefix=prefix)
        self.srv = impl.Server({
            "auth": {"type": "none"}, "rights": {"type": "authenticated"},
            "storage": {"max_sync_token_age": str(max_age),
                        "use_cache_subfolder_for_item": str(bool(sub_item)),
                        "use_cache_subfolder_for_history": str(bool(sub_hist)),
                        "use_cache_subfolder_for_synctoken": str(bool(sub_tok))}})
        self.last_fault = None
        self.tokens = []          # token strings by first appearance
        self.etags = []           # etag strings by first appearance  (content ids)
        self.hetags = []          # history etag strings by first appearance
        assert self.req("MKCOL", "/u/")[0] in (201, 405)      # 405: the home of user u is created on first login

    # ------------------------------------------------------------------ plumbing
    def close(self):
        self.cache_mod.time = _real_time_module
        self.time_mod.time = _real_time_fn
        self.srv.close()

    def __enter__(self):
        return self

    def __exit__(self, *a):
        self.close()

    def req(self, method, path, data=None, **kw):
        r = self.srv.request(method, path, data=data, login="u:", environ=dict(self.env), **kw)
        self.normalise()
        return r

    def href_index(self, c, href):
        """index of the item an emitted href denotes in collection c: it must be exactly base prefix + path"""
        want = self.base + self.cpath(c)
        if href.startswith(want):
            name = urllib.parse.unquote(href[len(want):])
            # the emitted form must be the canonical encoding of the name (what PROPFIND and REPORT both use)
            if name in HREFS and href[len(want):] == urllib.parse.quote(name):
                return HREFS.index(name)
        return -99

    def cpath(self, c):
        return "/u/c%d/" % c

    def root_dir(self, c):
        return os.path.join(self.srv.folder, "collection-root", "u", "c%d" % c)

    def cache_dir(self, c, sub):
        base = "collection-cache" if sub else "collection-root"
        return os.path.join(self.srv.folder, base, "u", "c%d" % c, ".Radicale.cache")

    def hist_dir(self, c):
        return os.path.join(self.cache_dir(c, self.cfg["sub_hist"]), "history")

    def tok_dir(self, c):
        return os.path.join(self.cache_dir(c, self.cfg["sub_tok"]), "sync-token")

    def normalise(self):
        """Files written during the request carry a real mtime; give them the logical time."""
        now = self.clock.now
        for c in range(NCOLL):
            for d in (self.hist_dir(c), self.tok_dir(c)):
                try:
                    names = os.listdir(d)
                except OSError:
                    continue
                for n in names:
                    p = os.path.join(d, n)
                    try:
                        if os.stat(p).st_mtime > REAL:
                            os.utime(p, (now, now))
                    except OSError:
                        pass

    def cid(self, etag):
        if etag not in self.etags:
            self.etags.append(etag)
        return self.etags.index(etag)

    def tid(self, tok):
        if tok not in self.tokens:
            self.tokens.append(tok)
        return self.tokens.index(tok)

    def heid(self, he):
        if he not in self.hetags:
            self.hetags.append(he)
        return self.hetags.index(he)

    # ------------------------------------------------------------------ observation
    def view(self, c):
        """Ground truth: Depth:1 PROPFIND getetag, keyed by the hrefs exactly as the server emits them.
        None when the collection does not exist."""
        st, ms = self.srv.propfind(self.cpath(c), depth="1", props=("D:getetag",), login="u:", environ=dict(self.env))
        if st != 207:
            return None
        out = {}
        for href, props in ms.items():
            if href.rstrip("/") == (self.base + self.cpath(c)).rstrip("/"):
                continue
            if isinstance(props, dict) and "D:getetag" in props and props["D:getetag"][0] == 200:
                out[href] = props["D:getetag"][1].text
        return out

    def sync_report(self, c, token_text):
        # every third REPORT asks for a bounded answer (RFC 6578 3.7 D:limit) and names the sync level: the server ignores the
        # limit and answers in full, which is what the model (and a client that merely applies the delta) expects -- an
        # implementation that truncates must also hand out a token from which the rest is delivered
        self._nsync = getattr(self, "_nsync", 0) + 1
        extra = ""
        if self._nsync % 3 == 0:
            extra = "<D:sync-level>1</D:sync-level><D:limit><D:nresults>%d</D:nresults></D:limit>" % (1 + (self._nsync // 3) % 2)
        body = ('<?xml version="1.0"?><D:sync-collection xmlns:D="DAV:"><D:prop><D:getetag/></D:prop>'
                + ("<D:sync-token>%s</D:sync-token>" % token_text if token_text is not None else "")
                + extra + "</D:sync-collection>")
        st, hd, b = self.req("REPORT", self.cpath(c), data=body)
        if st >= 500:
            return ("failed", st)
        if st == 404:
            return ("nocoll",)
        if st == 403 and b"valid-sync-token" in b:
            return ("refused",)
        if st != 207:
            return ("error", st, b[:200].decode(errors="replace"))
        m = re.search(rb"<sync-token>([^<]*)</sync-token>", b)
        tok = m.group(1).decode() if m else None
        ms = impl.parse_multistatus(b)
        delta = {}
        for href, props in ms.items():
            if isinstance(props, int):
                delta[href] = None if props == 404 else ("status", props)
            else:
                st_e, el = props.get("D:getetag", (None, None))
                delta[href] = el.text if st_e == 200 else ("status", st_e)
        return ("delta", tok, delta)

    def propfind_token(self, c):
        st, ms = self.srv.propfind(self.cpath(c), depth="0", props=("D:sync-token",), login="u:", environ=dict(self.env))
        self.normalise()
        if st != 207:
            return ("nocoll",)
        for href, props in ms.items():
            s, el = props.get("D:sync-token", (None, None))
            if s == 200:
                return ("token", el.text)
        return ("error", st, "no sync-token")

    def dump(self):
        """White-box: per collection (exists, items, history files, token files), canonical ids."""
        self.normalise()
        out = []
        raw = []
        for c in range(NCOLL):
            exists = os.path.isdir(self.root_dir(c))
            v = self.view(c) if exists else None
            items = sorted((self.href_index(c, h), self.cid(e)) for h, e in (v or {}).items())
            hist = []
            try:
                names = sorted(os.listdir(self.hist_dir(c)))
            except OSError:
                names = []
            for n in names:
                if n.startswith("."):
                    continue
                p = os.path.join(self.hist_dir(c), n)
                with open(p, "rb") as f:
                    ce, he = pickle.load(f)
                hist.append((HREFS.index(n), ce, he, int(os.stat(p).st_mtime)))
            hist.sort()
            toks = []
            try:
                names = os.listdir(self.tok_dir(c))
            except OSError:
                names = []
            for n in names:
                if n.startswith("."):
                    continue
                p = os.path.join(self.tok_dir(c), n)
                try:
                    with open(p, "rb") as f:
                        state = pickle.load(f)
                except Exception:
                    state = None               # damaged token file
                toks.append((NS_TOKEN + n, int(os.stat(p).st_mtime), state))
            raw.append((exists, items, hist, toks))
        # canonical ids: tokens are known from responses; an unknown one gets a new id here (sorted by name)
        for exists, items, hist, toks in raw:
            hist_c = [(h, (-1 if ce == "" else self.cid(ce)), self.heid(he), mt) for h, ce, he, mt in hist]
            toks_k = []
            for t, mt, state in toks:
                known = t in self.tokens
                toks_k.append((self.tokens.index(t) if known else 10**6, t, mt, state))
            toks_k.sort(key=lambda x: (x[0], x[1]))
            toks_c = []
            for _, t, mt, state in toks_k:
                if state is None:
                    toks_c.append((self.tid(t), mt, None))
                    continue
                snap = sorted((HREFS.index(h), he) for h, he in state.items())
                toks_c.append((self.tid(t), mt, [(h, self.heid(he)) for h, he in snap]))
            out.append((exists, items, hist_c, toks_c))
        return out

    # ------------------------------------------------------------------ operations
    def token_text(self, tok):
        if tok is None:
            return None
        if isinstance(tok, int):
            return self.tokens[tok] if tok < len(self.tokens) else NS_TOKEN + "0" * 64
        if tok[0] == "ws":
            return " \n" + self.token_text(tok[1]) + "\t "
        if tok[0] == "mal":
            return tok[1]
        raise ValueError(tok)

    def apply(self, op):
        """Returns (accepted: bool, result).  result: None | ("nocoll",) | ("refused",) |
        ("delta", tokid, sorted [(h, cid|None)]) | ("token", tokid) | ("error", ...)"""
        k = op[0]
        if k == "put":
            _, c, h, uid, var = op
            st, hd, _ = self.req("PUT", self.cpath(c) + HREFS[h], data=event_text(uid, var),
                                 CONTENT_TYPE="text/calendar")
            if st in (201, 204):
                return True, ("cid", self.cid(hd.get("ETag")))
            return False, ("status", st)
        if k == "del":
            _, c, h = op
            st, _, _ = self.req("DELETE", self.cpath(c) + HREFS[h])
            return st == 200, ("status", st)
        if k == "move":
            _, c, h, c2, h2 = op
            st, _, _ = self.req("MOVE", self.cpath(c) + HREFS[h],
                                HTTP_DESTINATION="http://127.0.0.1" + self.base + self.cpath(c2) + urllib.parse.quote(HREFS[h2]),
                                HTTP_OVERWRITE="T")
            return st in (201, 204), ("status", st)
        if k == "replace":
            _, c, items = op
            st, _, _ = self.req("PUT", self.cpath(c), data=calendar_text(items), CONTENT_TYPE="text/calendar")
            if st in (201, 204):
                v = self.view(c) or {}
                return True, ("items", sorted((self.href_index(c, h), self.cid(e)) for h, e in v.items()))
            return False, ("status", st)
        if k == "delcoll":
            st, _, _ = self.req("DELETE", self.cpath(op[1]))
            return st == 200, ("status", st)
        if k == "mkcoll":
            st, _, _ = self.req("MKCALENDAR", self.cpath(op[1]))
            return st == 201, ("status", st)
        if k == "dropcache":
            _, c, inroot = op
            d = self.cache_dir(c, not inroot)
            if os.path.isdir(d):
                shutil.rmtree(d)
            return True, None
        if k == "tick":
            self.clock.now += int(op[1])
            return True, None
        if k in ("sync", "syncfail"):
            c, tok = op[1], op[2]
            if k == "syncfail":
                with TokenWriteFault(op[3]) as fault:
                    r = self.sync_report(c, self.token_text(tok))
                self.normalise()
                self.last_fault = dict(mode=op[3], fired=fault.fired, answered=r[0])
                if r[0] == "failed" and not fault.fired:
                    r = ("error", r[1], "5xx without an injected fault")
            else:
                r = self.sync_report(c, self.token_text(tok))
                if r[0] == "failed":
                    r = ("error", r[1], "5xx")
            if r[0] == "delta":
                raw = sorted(r[2].items())
                delta = sorted((self.href_index(c, h), (None if e is None else self.cid(e)) if not isinstance(e, tuple) else e)
                               for h, e in raw)
                fired = bool(k == "syncfail" and self.last_fault and self.last_fault["fired"])
                return True, ("delta", self.tid(r[1]), delta, raw, fired)
            return True, r
        if k == "ptok":
            r = self.propfind_token(op[1])
            if r[0] == "token":
                return True, ("token", self.tid(r[1]))
            return True, r
        raise ValueError(op)


# ---------------------------------------------------------------------------------- the property, on the implementation
class Monitor:
    """A simulated client per token: what it held when the token was issued; applies multistatus deltas;
    compares with a Depth:1 PROPFIND.  Independent of the Coq model."""

    def __init__(self, world):
        self.w = world
        self.held = {}        # (c, token id) -> view (href -> etag string) the client held when it got the token
        self.touched = {}     # (c, token id) -> logical time the server last wrote/touched the token's file
        self.reset = {}       # (c, token id) -> True when collection / cache folder was replaced or deleted since
        self.current = {}     # c -> token id most recently returned, valid while the collection is unchanged
        self.tolerated = 0    # answers 207 after an injected PermissionError during the token write
        self.errors = []

    def err(self, what):
        self.errors.append(what)

    def after(self, op, accepted, result):
        w = self.w
        k = op[0]
        if k in ("put", "del", "replace", "delcoll", "mkcoll", "dropcache", "move") and accepted:
            cs = {op[1]} | ({op[3]} if k == "move" else set())
            for c in cs:
                self.current.pop(c, None)
                if k in ("replace", "delcoll", "mkcoll", "dropcache"):
                    for key in self.reset:
                        if key[0] == c:
                            self.reset[key] = True
            return
        if k == "ptok" and result and result[0] == "token":
            c, t = op[1], result[1]
            if c in self.current and self.current[c] != t:
                self.err("PROPFIND sync-token %d differs from the token %d the last REPORT/PROPFIND returned although "
                         "the collection did not change" % (t, self.current[c]))
            self._issued(c, t, presented=None)
            return
        if k not in ("sync", "syncfail") or not result:
            return
        c, tok = op[1], op[2]
        if result[0] == "failed":
            return                # the injected write fault made the request fail: nothing was handed out
        if result[0] == "error":
            self.err("sync answered %r" % (result,))
            return
        presented = None
        wellformed = False
        if isinstance(tok, int) and tok < len(w.tokens):
            presented, wellformed = tok, True
        elif isinstance(tok, list) and tok[0] == "ws" and tok[1] < len(w.tokens):
            presented, wellformed = tok[1], True
        if result[0] == "refused":
            if tok is None or (isinstance(tok, list) and tok[0] == "mal" and tok[1].strip() == ""):
                self.err("initial sync (no token) refused")
            key = (c, presented)
            if wellformed and key in self.touched and not self.reset.get(key):
                age = w.clock.now - self.touched[key]
                if age < w.cfg["max_age"]:
                    self.err("token %d refused at age %d < max_sync_token_age %d although neither the collection nor its "
                             "cache folder was replaced or deleted" % (presented, age, w.cfg["max_age"]))
            return
        if result[0] != "delta":
            return
        _, t_new, delta, raw = result[:4]
        truth = w.view(c)
        if truth is None:
            self.err("sync accepted on a collection PROPFIND does not find")
            return
        for h, e in delta:
            if isinstance(e, tuple):
                self.err("delta entry with status %r" % (e,))
        key = (c, presented)
        if presented is not None and key in self.held:
            # the client keys what it holds by the hrefs exactly as the server emitted them
            v = dict(self.held[key])
            for href, e in raw:
                if e is None:
                    v.pop(href, None)
                elif not isinstance(e, tuple):
                    v[href] = e
            if v != truth:
                self.err("client holding token %d applied the delta %r and has %r, server has %r" % (
                    presented, _short(dict(raw)), _short(v), _short(truth)))
            if self.current.get(c) == presented:
                if delta or t_new != presented:
                    self.err("up-to-date token %d: expected empty list and the same token, got delta %r and token %d" % (
                        presented, delta, t_new))
        if presented is None and tok is None:
            v = {href: e for href, e in raw if e is not None and not isinstance(e, tuple)}
            if v != truth:
                self.err("initial sync lists %r, server has %r" % (_short(v), _short(truth)))
        if c in self.current and self.current[c] != t_new:
            self.err("REPORT returned token %d, the previous REPORT/PROPFIND returned %d and the collection did not change"
                     % (t_new, self.current[c]))
        self._issued(c, t_new, presented)
        self.held[(c, t_new)] = truth
        if k == "syncfail" and len(result) > 4 and result[4]:
            # The request answered 207 although a step of the token write failed.  sync.py deliberately tolerates
            # PermissionError there ("Race: Other processes might have created and locked the file"): such a token
            # may be unknown afterwards -- counted, not judged.  For every other errno the token must keep working.
            if op[3].endswith(":EACCES"):
                self.reset[(c, t_new)] = True
                self.tolerated += 1

    def _issued(self, c, t, presented):
        w = self.w
        key = (c, t)
        if key not in self.held:
            tr = w.view(c)
            if tr is not None:
                self.held[key] = tr
        if presented != t:
            # the server wrote or touched the token file (sync.py: not the early return)
            self.touched[key] = w.clock.now
            self.reset[key] = False
        self.current[c] = t
        if not re.fullmatch(re.escape(NS_TOKEN) + "[0-9a-f]{64}", w.tokens[t]):
            self.err("malformed token handed out: %r" % w.tokens[t])


def _short(v):
    return {h: (e[1:9] if isinstance(e, str) else e) for h, e in sorted(v.items())}


# ---------------------------------------------------------------------------------- generator
MALFORMED = ["garbage", NS_TOKEN + "0" * 63, NS_TOKEN + "A" * 64, NS_TOKEN + "0" * 65, "http://example.org/" + "0" * 64,
             NS_TOKEN + "g" * 64, NS_TOKEN, "   "]


def gen_history(rng, n_ops, max_age, max_tokens=5):
    """Seeded, mostly valid histories.  The generator keeps a rough shadow (which hrefs probably exist, with which
    UID) only to bias towards operations the server accepts; the server decides.  Token references are resolved
    at run time: ["own", j] = j-th distinct token this collection handed out (mod count), ["any", j] = j-th token
    overall, ["last"] = the token this collection returned last, ["unknown"] = well-formed, never issued."""
    ops = [["mkcoll", 0]]
    exists = {0: True, 1: False}
    if rng.random() < 0.7:
        ops.append(["mkcoll", 1])
        exists[1] = True
    present = {0: {}, 1: {}}      # c -> h -> (uid, k)
    held = {0: [], 1: []}         # per collection: the (at most max_tokens) outstanding token slots clients keep
    issued = {0: 0, 1: 0}
    boundary = [max_age, max_age - 1, max_age + 1, 1, max(1, max_age // 2), 0, 2 * max_age]

    def pick_coll():
        live = [c for c in (0, 1) if exists[c]]
        if live and rng.random() < 0.92:
            return rng.choice(live) if rng.random() < 0.4 else live[0]
        return rng.randrange(NCOLL)

    def uids_in(c):
        return {u for u, _ in present[c].values()}

    for _ in range(n_ops):
        r = rng.random()
        c = pick_coll()
        if r < 0.22:
            h = rng.randrange(len(HREFS))
            cur = present[c].get(h)
            if cur:
                uid = cur[0] if rng.random() < 0.95 else rng.choice(UIDS)
                k = rng.choice([0, 1, 2]) if rng.random() < 0.85 else cur[1]      # modify, undo, or same content
            else:
                free = [u for u in UIDS if u not in uids_in(c)]
                uid = UIDS[h] if UIDS[h] in free and rng.random() < 0.7 else (rng.choice(free) if free and rng.random() < 0.9 else rng.choice(UIDS))
                k = rng.choice([0, 1])
            ops.append(["put", c, h, uid, k])
            if exists[c] and (cur is None or cur[0] == uid) and (cur is not None or uid not in uids_in(c)):
                present[c][h] = (uid, k)
        elif r < 0.33:
            if present[c] and rng.random() < 0.93:
                h = rng.choice(list(present[c]))
            else:
                h = rng.randrange(len(HREFS))
            ops.append(["del", c, h])
            present[c].pop(h, None)
        elif r < 0.44:
            if not present[c]:
                ops.append(["put", c, 0, "a", rng.choice([0, 1])])
                if exists[c]:
                    present[c][0] = ("a", ops[-1][4])
                continue
            h = rng.choice(list(present[c]))
            uid = present[c][h][0]
            q = rng.random()
            c2 = 1 - c if (q < 0.5 and exists[1 - c]) else c
            # targets the application accepts: a free href, or an item with the same UID (other collection)
            same_uid = [h2 for h2, (u, _) in present[c2].items() if u == uid and (c2, h2) != (c, h)]
            free = [h2 for h2 in range(len(HREFS)) if h2 not in present[c2]]
            if same_uid and rng.random() < 0.6:
                h2 = rng.choice(same_uid)
            elif free and rng.random() < 0.8 and (c2 == c or uid not in uids_in(c2)):
                h2 = rng.choice(free)
            elif rng.random() < 0.3:
                h2 = h                         # onto itself / same name in the other collection
            else:
                h2 = rng.randrange(len(HREFS))
            ops.append(["move", c, h, c2, h2])
            ok = exists[c2] and ((h2 not in present[c2] and (c2 == c or uid not in uids_in(c2))) or
                                 (h2 in present[c2] and present[c2][h2][0] == uid))
            if ok and (c, h) != (c2, h2):
                present[c2][h2] = present[c].pop(h)
        elif r < 0.49:
            n = rng.randrange(0, 4)
            uids = rng.sample(UIDS, n)
            items = [[u, rng.choice([0, 1])] for u in uids]
            # often keep existing content so that history entries stay valid across the replacement
            for it in items:
                h = UIDS.index(it[0])
                if h in present[c] and present[c][h][0] == it[0] and rng.random() < 0.5:
                    it[1] = present[c][h][1]
            ops.append(["replace", c, items])
            exists[c] = True
            present[c] = {UIDS.index(u): (u, k) for u, k in items}
        elif r < 0.52:
            if exists[c] and rng.random() < 0.7:
                ops.append(["delcoll", c])
                exists[c] = False
                present[c] = {}
            else:
                c = c if not exists[c] else 1 - c
                ops.append(["mkcoll", c])
                exists[c] = True
        elif r < 0.555:
            ops.append(["dropcache", c, rng.random() < 0.5])
        elif r < 0.66:
            if rng.random() < 0.6:
                dt = rng.choice(boundary)
            else:
                dt = rng.randrange(0, 2 * max_age + 2)
            ops.append(["tick", dt])
        elif r < 0.95:
            q = rng.random()
            if issued[c] == 0 or q < 0.12:
                tok = None
            elif q < 0.62 and held[c]:
                tok = ["own", rng.choice(held[c])]              # one of the outstanding tokens of this collection
            elif q < 0.74:
                tok = ["last"]
            elif q < 0.80:
                tok = ["any", rng.randrange(50)]
            elif q < 0.86:
                tok = ["ws", ["own", rng.randrange(50)]]
            elif q < 0.94:
                tok = ["mal", rng.choice(MALFORMED)]
            else:
                tok = ["unknown"]
            if rng.random() < 0.07:
                # the token write of this REPORT fails; afterwards the same state is synced again and changed
                mode = rng.choice(["enospc", "trunc"]) if rng.random() < 0.3 else "%s:%s" % (
                    rng.choice(FAULT_CALLS), rng.choice(["ENOSPC", "EROFS", "EIO"]))
                ops.append(["syncfail", c, tok, mode])
                if rng.random() < 0.8:
                    ops.append(["sync", c, None])
                    h = rng.randrange(len(HREFS))
                    if h in present[c]:
                        ops.append(["del", c, h])
                        present[c].pop(h, None)
                    else:
                        ops.append(["put", c, h, UIDS[h], rng.choice([0, 1])])
                        if exists[c] and UIDS[h] not in uids_in(c):
                            present[c][h] = (UIDS[h], ops[-1][4])
                    ops.append(["sync", c, ["last"]])
                continue
            ops.append(["sync", c, tok])
            if exists[c]:
                issued[c] += 1
                # a client keeps the token it just got (up to max_tokens outstanding per collection)
                if rng.random() < 0.6:
                    slot = issued[c] - 1
                    if len(held[c]) < max_tokens:
                        held[c].append(slot)
                    elif rng.random() < 0.3:
                        held[c][rng.randrange(max_tokens)] = slot
            if rng.random() < 0.3:
                ops.append(["sync", c, ["last"]])
        else:
            ops.append(["ptok", c])
            if exists[c]:
                issued[c] += 1
            if rng.random() < 0.5:
                ops.append(["sync", c, ["last"]])
    return ops


def resolve_token(w, tok, c, last, owned):
    """Run-time resolution of token references to None | int (global token id) | ["ws", int] | ["mal", str]."""
    if tok is None:
        return None
    if isinstance(tok, int):
        if tok < len(w.tokens) or tok >= len(w.tokens) + 3:
            return tok
        return len(w.tokens) - 1 if w.tokens else None
    k = tok[0]
    if k == "mal":
        return tok
    if k == "last":
        return last.get(c)
    if k == "own":
        lst = owned.get(c) or []
        return lst[tok[1] % len(lst)] if lst else None
    if k == "any":
        return tok[1] % len(w.tokens) if w.tokens else None
    if k == "unknown":
        return len(w.tokens) + 5
    if k == "ws":
        inner = resolve_token(w, tok[1], c, last, owned)
        return ["ws", inner] if isinstance(inner, int) and inner < len(w.tokens) else None
    raise ValueError(tok)


def run_history(cfg, ops, monitor=True, dumps=True):
    """Execute a history.  Returns dict(trace=[(op_resolved, accepted, result, dump)], errors=[...])."""
    trace = []
    errors = []
    with World(**cfg) as w:
        mon = Monitor(w) if monitor else None
        last = {}
        owned = {}
        for i, op in enumerate(ops):
            op = list(op)
            if op[0] in ("sync", "syncfail"):
                op[2] = resolve_token(w, op[2], op[1], last, owned)
            accepted, result = w.apply(op)
            if op[0] in ("sync", "syncfail", "ptok") and result and result[0] in ("delta", "token"):
                last[op[1]] = result[1]
                owned.setdefault(op[1], []).append(result[1])      # one entry per hand-out (a client per hand-out)
            if mon:
                n0 = len(mon.errors)
                mon.after(op, accepted, result)
                for e in mon.errors[n0:]:
                    errors.append(dict(step=i, op=op, error=e))
            d = w.dump() if dumps else None
            trace.append((op, accepted, result, d))
        ntok = len(w.tokens)
    return dict(trace=trace, errors=errors, ntok=ntok, tolerated=mon.tolerated if mon else 0)


# ---------------------------------------------------------------------------------- encoding for the Coq model
def ser_result(op, result):
    k = op[0]
    if k in ("sync", "syncfail", "ptok"):
        if result[0] == "failed":
            return [5]
        if result[0] == "nocoll":
            return [1]
        if result[0] == "refused":
            return [2]
        if result[0] == "delta":
            out = [3, result[1], len(result[2])]
            for h, e in result[2]:
                out += [h, -1 if e is None else (e if isinstance(e, int) else -99)]
            return out
        if result[0] == "token":
            return [4, result[1]]
        return [99]
    return [0]


def ser_dump(dump):
    out = []
    for exists, items, hist, toks in dump:
        out += [1 if exists else 0, len(items)]
        for h, c in items:
            out += [h, c]
        out.append(len(hist))
        for h, ce, he, mt in hist:
            out += [h, ce, he, mt - T0]
        out.append(len(toks))
        for t, mt, snap in toks:
            if snap is None:
                out += [t, mt - T0, -1]         # damaged token file: never equal to a model observation
                continue
            out += [t, mt - T0, len(snap)]
            for h, he in snap:
                out += [h, he]
    return out


def iop_text(op, result):
    """Gallina text of the model operation for an ACCEPTED harness operation."""
    k = op[0]
    N = lambda n: "%d%%N" % n
    if k == "put":
        return "IPut %s %s %s" % (N(op[1]), N(op[2]), N(result[1]))
    if k == "del":
        return "IDel %s %s" % (N(op[1]), N(op[2]))
    if k == "move":
        return "IMove %s %s %s %s" % (N(op[1]), N(op[2]), N(op[3]), N(op[4]))
    if k == "replace":
        return "IReplace %s [%s]" % (N(op[1]), ";".join("(%s,%s)" % (N(h), N(c)) for h, c in result[1]))
    if k == "mkcoll":
        return "IReplace %s []" % N(op[1])
    if k == "delcoll":
        return "IDelColl %s" % N(op[1])
    if k == "dropcache":
        return "IDropCache %s %s" % (N(op[1]), "true" if op[2] else "false")
    if k == "tick":
        return "ITick %s" % N(op[1])
    if k == "ptok":
        return "IPTok %s" % N(op[1])
    if k in ("sync", "syncfail"):
        tok = op[2]
        if tok is None:
            a = "TNone"
        elif isinstance(tok, int):
            a = "(TIx %s)" % N(tok)
        elif tok[0] == "ws":
            a = "(TIx %s)" % N(tok[1])
        elif tok[0] == "mal":
            a = "TNone" if tok[1].strip() == "" else "TMal"
        else:
            raise ValueError(tok)
        return "%s %s %s" % ("ISync" if k == "sync" else "ISyncFail", N(op[1]), a)
    raise ValueError(op)


def cfg_text(cfg, fixed=True):
    return "(mkConfig %s %s (%d)%%Z %s)" % ("true" if cfg["sub_hist"] else "false", "true" if cfg["sub_tok"] else "false",
                                          cfg["max_age"], "false" if fixed else "true")


def model_case(cfg, trace, fixed=True):
    """(input text, expected observations) for ctx.diff_cases: only operations the server accepted reach the model."""
    iops, obs = [], []
    for op, accepted, result, dump in trace:
        if not accepted:
            continue
        if (op[0] == "syncfail" and op[3].endswith(":EACCES") and result and result[0] == "delta" and len(result) > 4
                and result[4]):
            break              # tolerated PermissionError: token handed out without a file; outside the model
        iops.append(iop_text(op, result))
        obs.append(ser_result(op, result) + ser_dump(dump))
    return "(%s, [%s])" % (cfg_text(cfg, fixed), "; ".join(iops)), obs


def enc_obs(obs):
    return "[" + ";".join("[" + ";".join("(%d)" % z for z in o) + "]" for o in obs) + "]%Z"
