"""Correspondence harness for Model/Handlers.v (shared by the C01, C03, C08, C15 checks).

Abstract requests (Python tuples mirroring the Coq `request` type) are generated from a seeded rng,
turned into concrete HTTP requests against the real Application (custom rights plugin = policy table),
the responses are canonicalised to the Coq `cresp` type and compared inside Coq with
`run_world` (Model/HandlersCanon.v)."""
import hashlib
import os
import re
import shutil
import tempfile

from vlib import impl

# ------------------------------------------------------------------------------- universe
USERS = [None, "u0", "u1"]                     # index 0 = anonymous
USER_NAME = {"u0": 10, "u1": 11}
COLL = {10: "u0", 11: "u1", 20: "c0", 21: "c1", 22: "c2"}
COMPS = ["CEvent", "CTodo", "CJournal", "CCard"]
KEYS = {1: "D:displayname", 2: "C:calendar-description", 3: "ICAL:calendar-color"}
KEY_XML = {1: ("D:displayname", "DAV:"), 2: ("C:calendar-description", "urn:ietf:params:xml:ns:caldav"),
           3: ("ICAL:calendar-color", "http://apple.com/ns/ical/")}


def name_str(n):
    if n in COLL:
        return COLL[n]
    if 100 <= n < 200:
        return "n%d.ics" % (n - 100)
    if 200 <= n < 300:
        return "n%d.vcf" % (n - 200)
    raise ValueError(n)


STR_NAME = {name_str(n): n for n in list(COLL) + list(range(100, 110)) + list(range(200, 210))}


def path_str(p, coll=True):
    if not p:
        return "/"
    s = "/" + "/".join(name_str(n) for n in p)
    last = p[-1]
    return s + "/" if (last in COLL and coll) else s


def str_path(s):
    comps = [c for c in s.strip("/").split("/") if c]
    return tuple(STR_NAME.get(c, 999) for c in comps)


# objects: (uid, comp, cid)
def obj_text_component(o):
    uid, comp, cid = o
    if comp == "CEvent":
        return ("BEGIN:VEVENT\r\nUID:n%d\r\nDTSTAMP:20130101T000000Z\r\nSUMMARY:cid%d\r\nDTSTART:20130901T180000Z\r\nDTEND:20130901T190000Z\r\nEND:VEVENT\r\n" % (uid, cid))
    if comp == "CTodo":
        return "BEGIN:VTODO\r\nUID:n%d\r\nDTSTAMP:20130101T000000Z\r\nSUMMARY:cid%d\r\nEND:VTODO\r\n" % (uid, cid)
    if comp == "CJournal":
        return "BEGIN:VJOURNAL\r\nUID:n%d\r\nDTSTAMP:20130101T000000Z\r\nSUMMARY:cid%d\r\nDTSTART:20130901T180000Z\r\nEND:VJOURNAL\r\n" % (uid, cid)
    return "BEGIN:VCARD\r\nVERSION:3.0\r\nUID:n%d\r\nFN:cid%d\r\nN:cid%d;;;;\r\nEND:VCARD\r\n" % (uid, cid, cid)


def body_text(b):
    kind = b[0]
    if kind == "BBad":
        return "BEGIN:VCALENDAR\r\nBEGIN:VEVENT\r\nthis is not a content line\r\n"
    if kind == "BEmpty":
        return ""
    if kind == "BCal":
        return ("BEGIN:VCALENDAR\r\nPRODID:-//verif//EN\r\nVERSION:2.0\r\n" + "".join(obj_text_component(o) for o in b[1])
                + "END:VCALENDAR\r\n")
    return "".join(obj_text_component(o) for o in b[1])


def parse_objs(text, variant=True):
    """All components of a served body -> list of (uid, comp, cid)."""
    out = []
    for m in re.finditer(r"BEGIN:(VEVENT|VTODO|VJOURNAL|VCARD)\r?\n(.*?)END:\1", text, re.S):
        kind, inner = m.group(1), m.group(2)
        uid = re.search(r"^UID:n(\d+)\s*$", inner, re.M)
        cid = re.search(r"^(?:SUMMARY|FN):cid(\d+)\s*$", inner, re.M)
        comp = {"VEVENT": "CEvent", "VTODO": "CTodo", "VJOURNAL": "CJournal", "VCARD": "CCard"}[kind]
        out.append((int(uid.group(1)) if uid else -1, comp, int(cid.group(1)) if cid else -1))
    if len(out) == 1 and variant and "PRODID:-//Radicale//" in text and out[0][1] != "CCard":
        out = [(out[0][0], out[0][1], out[0][2] + 10)]
    return out


class EtagTable:
    """etag string -> obj, built by storing every object of the universe once on a scratch server."""

    def __init__(self, uids=range(4), cids=range(3)):
        self.by_etag = {}
        self.etag_of = {}
        with impl.Server(conf={"auth": {"type": "none"}, "rights": {"type": "authenticated"}}) as srv:
            srv.mkcol("/t/")
            srv.mkcalendar("/t/cal/")
            srv.mkaddressbook("/t/adr/")
            for comp in COMPS:
                for u in uids:
                    for c in cids:
                        o = (u, comp, c)
                        card = comp == "CCard"
                        p = "/t/%s/x%s" % ("adr" if card else "cal", ".vcf" if card else ".ics")
                        srv.request("DELETE", p)
                        st, h, _ = srv.put(p, body_text(("BCards" if card else "BCal", [o])))
                        assert st == 201, (st, o)
                        self.by_etag[h["ETag"]] = o
                        self.etag_of[o] = h["ETag"]
                        if not card:
                            # the variant stored by a whole-collection upload (own VCALENDAR, Radicale PRODID)
                            st, h, _ = srv.put("/t/whole/", body_text(("BCal", [o])))
                            assert st == 201, (st, o)
                            st, ms = srv.propfind("/t/whole/", depth="1", props=("D:getetag",))
                            for href, props in ms.items():
                                if href.endswith(".ics"):
                                    ov = (o[0], o[1], o[2] + 10)
                                    self.by_etag[props["D:getetag"][1].text] = ov
                                    self.etag_of[ov] = props["D:getetag"][1].text


# ------------------------------------------------------------------------------- rights plugin
POLICY = {}      # (user string, stripped path) -> permission string; set by the harness before each history


# ------------------------------------------------------------------------------- generation
LETTER_SETS = ["", "r", "w", "rw", "R", "W", "RW", "RrWw", "RWrw", "i", "ri", "rwd", "rwD", "RWd", "RWD", "rwo", "rwO",
               "RWrwO", "Rr", "Ww", "wi", "RWrwdo", "RWrwDO"]


def gen_world(rng, hostile=False):
    """Policy tables for users 0..2 and a config."""
    paths = [(), (10,), (11,), (10, 20), (10, 21), (11, 20), (11, 22), (10, 20, 101), (10, 22)]
    pols = []
    for ui, u in enumerate(USERS):
        t = {}
        style = rng.choice(["owner", "owner", "owner", "random", "open", "open"]) if u else rng.choice(["none", "none", "random"])
        for p in paths:
            if style == "owner":
                if p == ():
                    t[p] = "R"
                elif p[0] == USER_NAME[u]:
                    t[p] = "RW" if len(p) == 1 else ("rw" if len(p) == 2 else "")
                else:
                    t[p] = rng.choice(["", "", "r", "R"]) if len(p) <= 2 else ""
                if rng.random() < 0.15:
                    t[p] = t[p] + rng.choice(["d", "D", "o", "O", "i"])
            elif style == "open":
                t[p] = "RrWw" if len(p) <= 2 else ""
            elif style == "random":
                t[p] = rng.choice(LETTER_SETS)
            else:
                t[p] = ""
        pols.append((USER_NAME.get(u), t))
    cfg = (rng.random() < 0.8, rng.random() < 0.8)       # permit_delete, permit_overwrite
    return cfg, pols


def gen_obj(rng, card=None):
    comp = "CCard" if card else rng.choice(["CEvent", "CEvent", "CTodo", "CJournal"]) if card is False else rng.choice(COMPS)
    return (rng.randrange(4), comp, rng.randrange(3))


def gen_history(rng, n, etags):
    """A list of (user index, abstract request)."""
    colls = [(10, 20), (10, 21), (11, 20), (10, 22)]
    hist = []
    issued = []      # objs PUT so far (for stale etags)
    existing = []
    uploaded = []
    if rng.random() < 0.75:
        # a mostly valid prefix: homes are created by the gate; make some calendars / address books
        existing = []
        for c0 in rng.sample(colls, rng.randrange(1, 4)):
            existing.append(c0)
            ui0 = 1 if c0[0] == 10 else 2
            if rng.random() < 0.6:
                hist.append((ui0, ("RMkcalendar", c0, ("XNone",))))
            elif rng.random() < 0.7:
                hist.append((ui0, ("RMkcol", c0, ("XProps", ("TRSet", "TAdr"), []))))
            else:
                hist.append((ui0, ("RMkcol", c0, ("XNone",))))
    for _ in range(n):
        c = rng.choice(existing) if existing and rng.random() < 0.8 else rng.choice(colls)
        ui = (1 if c[0] == 10 else 2) if rng.random() < 0.75 else rng.choice([1, 2, 0])
        k = rng.random()
        item = c + (rng.choice([100, 101, 102, 200, 201]),)
        if uploaded and rng.random() < 0.6:
            item = rng.choice(uploaded)
            if rng.random() < 0.8:
                c = item[:2]
        if k < 0.10:
            x = rng.choice([("XNone",), ("XNone",), ("XProps", ("TRSet", "TCal"), [(1, 1)]), ("XProps", ("TRSet", "TAdr"), []),
                            ("XProps", ("TRSet", "TNone"), [(1, 2)]), ("XBad",)])
            p = rng.choice([c, c[:1], c, c + (22,), (rng.choice([20, 21]),)])
            r = ("RMkcol", p, x)
        elif k < 0.17:
            x = rng.choice([("XNone",), ("XNone",), ("XProps", ("TRNone",), [(1, 0), (3, 1)]), ("XBad",),
                            # a body that names another resource type: MKCALENDAR still makes a calendar
                            ("XProps", ("TRSet", "TAdr"), []), ("XProps", ("TRSet", "TNone"), [(1, 1)]), ("XProps", ("TRSet", "TCal"), [])])
            r = ("RMkcalendar", rng.choice([c, c, c + (21,)]), x)
        elif k < 0.42:
            card = rng.random() < 0.25
            o = gen_obj(rng, card)
            if rng.random() < 0.5:
                # use the "natural" name for the uid
                item = c + ((200 if o[1] == "CCard" else 100) + o[0],)
            b = rng.choice([("BCards" if o[1] == "CCard" else "BCal", [o])] * 6 + [("BBad",), ("BEmpty",),
                           ("BCal", [gen_obj(rng, False), (5, "CEvent", 0)]), ("BCards", [gen_obj(rng, True), (5, "CCard", 1)])])
            im = ("CNone",)
            rr = rng.random()
            if rr < 0.12 and issued:
                im = ("CTag", ("EtItem", rng.choice(issued)))
            elif rr < 0.18:
                im = ("CTag", ("EtBogus",))
            elif rr < 0.22:
                im = ("CStar",)
            elif rr < 0.27:
                im = ("CTag", ("EtTrunc", rng.choice(["quote", "prefix", "inner", "noquotes", "empty-quotes", "suffix"])))
            inm = rng.random() < 0.12
            ct = rng.choice(["CTNone", "CTNone", "CTCal", "CTCard"])
            if b[0] == "BEmpty" and ct == "CTCal":
                ct = "CTCard"
            r = ("RPut", item, ct, b, im, inm)
            if b[0] in ("BCal", "BCards") and len(b[1]) == 1:
                issued.append(b[1][0])
                uploaded.append(item)
        elif k < 0.50:
            # whole collection
            card = rng.random() < 0.3
            m = rng.randrange(0, 4)
            uids = rng.sample(range(4), m)
            objs = [(u, "CCard" if card else rng.choice(["CEvent", "CTodo", "CJournal"]), rng.randrange(3)) for u in uids]
            if card and objs and rng.random() < 0.25:
                objs.append((objs[0][0], "CCard", (objs[0][2] + 1) % 3))      # duplicate UID in a whole address book
            b = ("BCards", objs) if card else ("BCal", objs)
            if not objs:
                # a VCALENDAR without components is outside the abstract grammar (as an item it is accepted with an
                # empty UID): never generated
                b = ("BEmpty",)
            ct = rng.choice(["CTNone", "CTCal", "CTCard"])
            if b[0] == "BEmpty" and ct == "CTCal":
                ct = "CTNone"      # text/calendar + empty body predicts VSUBSCRIBED (MIMETYPE_TAGS inversion): outside the model
            im = rng.choice([("CNone",)] * 5 + [("CTag", ("EtBogus",)), ("CTag", ("EtColl",))])
            r = ("RPut", rng.choice([c, c, c, c, c[:1], ()]), ct, b, im, rng.random() < 0.1)
        elif k < 0.60:
            tgt = rng.choice([item, item, item, item, c, c, c[:1], ()])
            rr = rng.random()
            im = ("CNone",)
            if rr < 0.15 and issued:
                im = ("CTag", ("EtItem", rng.choice(issued)))
            elif rr < 0.22:
                im = ("CTag", ("EtBogus",))
            elif rr < 0.3:
                im = ("CStar",)
            elif rr < 0.36 and len(tgt) <= 2:
                im = ("CTag", ("EtColl",))
            elif rr < 0.44:
                im = ("CTag", ("EtTrunc", rng.choice(["quote", "prefix", "inner", "noquotes", "empty-quotes", "suffix"])))
            r = ("RDelete", tgt, im)
        elif k < 0.70:
            to_c = rng.choice([c, c, rng.choice(colls)])
            to = rng.choice([to_c + (rng.choice([100, 101, 103, 200]),), to_c])
            if uploaded and rng.random() < 0.45:
                to = rng.choice(uploaded)              # onto an existing item, possibly of another collection / type
            r = ("RMove", rng.choice([item, item, item, c]), rng.random() < 0.93, to, rng.random() < 0.6)
        elif k < 0.77:
            x = rng.choice([("XProps", ("TRNone",), [(1, rng.randrange(3))]), ("XProps", ("TRNone",), [(1, None), (3, 2)]),
                            ("XProps", ("TRNone",), [(2, 1), (2, None), (3, 0)]), ("XBad",), ("XNone",),
                            ("XProps", ("TRSet", "TAdr"), []), ("XProps", ("TRRemove",), [(1, 1)])])
            r = ("RProppatch", rng.choice([c, c, c, item, c[:1]]), x)
        elif k < 0.85:
            r = ("RGet", rng.choice([item, item, c, c[:1], c + (103,)]))
        elif k < 0.92:
            r = ("RPropfind", rng.choice([c, c, c[:1], (), item]), rng.random() < 0.7)
        elif k >= 0.95:
            r = gen_query(rng, rng.choice([c, c, c, item, item, c[:1], c + (103,)]))
        else:
            hs = [rng.choice([c + (rng.choice([100, 101, 102, 200]),), c, (11, 20, 100), (10, 21, 101), c[:1]])
                  for _ in range(rng.randrange(1, 4))]
            r = ("RMultiget", rng.choice([c, c, item]), rng.random() < 0.8, hs)
        hist.append((ui, r))
    return hist


QUERY_FILTERS = {
    # filters by report kind: None = the request has no filter element (free-busy: no time-range)
    "QCal": [None, None, ("comp", "CEvent"), ("comp", "CTodo"), ("comp", "CJournal"), ("uid", 0), ("uid", 1), ("cid", 0), ("cid", 1)],
    "QAdr": [None, None, ("uid", 0), ("uid", 1), ("cid", 0), ("cid", 2)],
    "QSync": [None, None, None, ("comp", "CEvent"), ("uid", 1)],
    "QFreeBusy": [("range", True), ("range", True), ("range", False), None],
}


def gen_query(rng, target):
    """REPORT calendar-query / addressbook-query / sync-collection (no token) / free-busy-query on `target`."""
    kind = rng.choice(["QCal", "QCal", "QAdr", "QSync", "QFreeBusy"])
    return ("RQuery", target, kind, rng.choice(QUERY_FILTERS[kind]))


def query_xml(kind, flt):
    cal_ns, card_ns = "urn:ietf:params:xml:ns:caldav", "urn:ietf:params:xml:ns:carddav"
    if kind == "QFreeBusy":
        tr = ""
        if flt is not None:
            tr = ('<C:time-range start="20130101T000000Z" end="20140101T000000Z"/>' if flt[1]
                  else '<C:time-range start="20150101T000000Z" end="20160101T000000Z"/>')
        return '<?xml version="1.0"?><C:free-busy-query xmlns:C="%s">%s</C:free-busy-query>' % (cal_ns, tr)
    if kind == "QAdr":
        f = ""
        if flt is not None:
            name, text = ("UID", "n%d" % flt[1]) if flt[0] == "uid" else ("FN", "cid%d" % flt[1])
            f = ('<CR:filter><CR:prop-filter name="%s"><CR:text-match collation="i;unicode-casemap" match-type="equals">%s'
                 '</CR:text-match></CR:prop-filter></CR:filter>' % (name, text))
        return ('<?xml version="1.0"?><CR:addressbook-query xmlns:D="DAV:" xmlns:CR="%s"><D:prop><D:getetag/><CR:address-data/></D:prop>%s'
                '</CR:addressbook-query>' % (card_ns, f))
    f = ""
    if flt is not None:
        if flt[0] == "comp":
            inner = '<C:comp-filter name="%s"/>' % {"CEvent": "VEVENT", "CTodo": "VTODO", "CJournal": "VJOURNAL"}[flt[1]]
        else:
            name, text = ("UID", "n%d" % flt[1]) if flt[0] == "uid" else ("SUMMARY", "cid%d" % flt[1])
            inner = ('<C:comp-filter name="VEVENT"><C:prop-filter name="%s"><C:text-match>%s</C:text-match></C:prop-filter>'
                     '</C:comp-filter>' % (name, text))
        f = '<C:filter><C:comp-filter name="VCALENDAR">%s</C:comp-filter></C:filter>' % inner
    if kind == "QSync":
        return ('<?xml version="1.0"?><D:sync-collection xmlns:D="DAV:" xmlns:C="%s"><D:sync-token/><D:sync-level>1</D:sync-level>'
                '<D:prop><D:getetag/></D:prop>%s</D:sync-collection>' % (cal_ns, f))
    return ('<?xml version="1.0"?><C:calendar-query xmlns:D="DAV:" xmlns:C="%s"><D:prop><D:getetag/><C:calendar-data/></D:prop>%s'
            '</C:calendar-query>' % (cal_ns, f))


def enc_filter(kind, flt):
    """The filter as a Coq predicate on stored objects (what the concrete XML filter of query_xml means for the
    objects of the universe: obj_text_component)."""
    if flt is None:
        return "None"
    if flt[0] == "range":
        return "(Some (fun _ : obj => %s))" % enc_bool(flt[1])
    if flt[0] == "comp":
        return "(Some (fun o : obj => match o_comp o with %s => true | _ => false end))" % flt[1]
    field = "o_uid o" if flt[0] == "uid" else "N.modulo (o_cid o) 10"
    ev = "" if kind == "QAdr" else "is_event o && "
    return "(Some (fun o : obj => %sN.eqb (%s) %d))" % (ev, field, flt[1])


def open_world(permit_delete=True, permit_overwrite=True):
    """Every user may do everything below the paths of the universe (the rights layer never interferes)."""
    paths = [(), (10,), (11,), (10, 20), (10, 21), (11, 20), (11, 22), (10, 22)]
    pols = [(USER_NAME.get(u), {p_: ("RrWw" if u else "") for p_ in paths}) for u in USERS]
    return (permit_delete, permit_overwrite), pols


EMPTY_VALUE = 7     # property value id standing for the empty string (<prop/> inside D:set)


def directed_cases():
    """Decision tables of the handlers as short histories: every combination of the conditions a handler tests is
    produced once, deterministically (the random generator reaches some of them only rarely).  Each history ends
    with observers so that the effect shows in the responses as well as in the final store."""
    import itertools
    out = []
    cal, cal2, adr = (10, 20), (10, 22), (10, 21)
    ev = lambda uid, cid=0: (uid, "CEvent", cid)            # noqa: E731
    cd = lambda uid, cid=0: (uid, "CCard", cid)             # noqa: E731
    mk = {cal: ("RMkcalendar", cal, ("XNone",)), cal2: ("RMkcalendar", cal2, ("XNone",)),
          adr: ("RMkcol", adr, ("XProps", ("TRSet", "TAdr"), []))}

    def put(path, o, im=("CNone",), inm=False, ct="CTNone"):
        return ("RPut", path, ct, ("BCards" if o[1] == "CCard" else "BCal", [o]), im, inm)

    def observe(*colls):
        return [("RPropfind", c, True) for c in colls]

    def hist(reqs):
        return [(1, r) for r in reqs]

    # --- MOVE: destination collection x destination state x Overwrite
    for dst_c, dst_state, ow in itertools.product((cal, cal2, adr), ("absent", "same-uid", "other-uid", "uid-elsewhere", "collection"), (True, False)):
        src = cal + (100,)
        reqs = [mk[cal]] + ([mk[dst_c]] if dst_c != cal else []) + [put(src, ev(0))]
        to = dst_c + (101,)
        mkobj = cd if dst_c == adr else ev
        if dst_state == "same-uid":
            if dst_c == cal:
                continue                                   # two names with one UID cannot be set up in one collection
            reqs.append(put(to, mkobj(0, 1)))
        elif dst_state == "other-uid":
            reqs.append(put(to, mkobj(1, 1)))
        elif dst_state == "uid-elsewhere":
            if dst_c == cal:
                continue
            reqs.append(put(dst_c + (103,), mkobj(0, 2)))
        elif dst_state == "collection":
            to = dst_c
        reqs.append(("RMove", src, True, to, ow))
        reqs += observe(cal, dst_c) + [("RGet", src), ("RGet", to)]
        out.append((open_world(), hist(reqs)))
    # --- PUT of an item: target state x body kind x conditions
    for coll, state, body, cond in itertools.product((cal, adr), ("absent", "exists", "uid-elsewhere"),
                                                     ("right", "wrong-type", "other-uid"),
                                                     ("none", "if-match-right", "if-match-stale", "if-match-star", "if-none-match", "if-match-prefix")):
        right, wrong = (cd, ev) if coll == adr else (ev, cd)
        tgt = coll + (100,)
        reqs = [mk[coll]]
        old = right(0)
        if state == "exists":
            reqs.append(put(tgt, old))
        elif state == "uid-elsewhere":
            reqs.append(put(coll + (103,), old))
        new = {"right": right(0, 1), "wrong-type": wrong(0, 1), "other-uid": right(2, 1)}[body]
        im, inm = ("CNone",), False
        if cond == "if-match-right":
            im = ("CTag", ("EtItem", old))
        elif cond == "if-match-stale":
            im = ("CTag", ("EtItem", right(3, 2)))
        elif cond == "if-match-star":
            im = ("CStar",)
        elif cond == "if-none-match":
            inm = True
        elif cond == "if-match-prefix":
            im = ("CTag", ("EtTrunc", "prefix"))
        reqs.append(put(tgt, new, im, inm))
        reqs += observe(coll) + [("RGet", tgt)]
        out.append((open_world(), hist(reqs)))
    # --- DELETE: item / collection x If-Match x permit_delete_collection
    for what, cond, permit in itertools.product(("item", "collection", "missing"), ("none", "right", "stale", "star", "quote", "prefix", "noquotes"), (True, False)):
        reqs = [mk[cal], put(cal + (100,), ev(0)), put(cal + (101,), ev(1))]
        tgt = {"item": cal + (100,), "collection": cal, "missing": cal + (102,)}[what]
        im = {"none": ("CNone",), "right": ("CTag", ("EtItem", ev(0))) if what != "collection" else ("CTag", ("EtColl",)),
              "stale": ("CTag", ("EtItem", ev(3, 2))), "star": ("CStar",)}.get(cond) or ("CTag", ("EtTrunc", cond))
        reqs.append(("RDelete", tgt, im))
        reqs += observe((10,), cal) + [("RGet", cal + (100,))]
        out.append((open_world(permit_delete=permit), hist(reqs)))
    # --- PROPPATCH: set / remove / set-to-empty on a property that exists or not, then read it back
    for first, second in itertools.product(([], [(1, 1)], [(1, EMPTY_VALUE)], [(1, 1), (2, 2)]),
                                           ([(1, 2)], [(1, None)], [(1, EMPTY_VALUE)], [(2, EMPTY_VALUE), (3, 1)], [(1, EMPTY_VALUE), (1, 2)],
                                            [(3, None), (3, EMPTY_VALUE)])):
        reqs = [mk[cal]]
        if first:
            reqs.append(("RProppatch", cal, ("XProps", ("TRNone",), first)))
        reqs.append(("RProppatch", cal, ("XProps", ("TRNone",), second)))
        reqs += [("RPropfind", cal, False)] + observe((10,))
        out.append((open_world(), hist(reqs)))
    # --- MKCOL / MKCALENDAR: target state x parent kind
    for meth, where in itertools.product(("RMkcol", "RMkcalendar"), ("fresh", "exists", "below-calendar", "below-item", "no-parent", "on-item")):
        reqs = [mk[cal], put(cal + (100,), ev(0))]
        tgt = {"fresh": cal2, "exists": cal, "below-calendar": cal + (21,), "below-item": cal + (100, 21), "no-parent": (10, 22, 21),
               "on-item": cal + (100,)}[where]
        reqs.append((meth, tgt, ("XNone",)))
        reqs += observe((10,), cal)
        out.append((open_world(), hist(reqs)))
    # --- MKCOL / MKCALENDAR with a resource type in the body, then an upload of each kind into the result
    for meth, treq in itertools.product(("RMkcol", "RMkcalendar"), (("TRSet", "TAdr"), ("TRSet", "TNone"), ("TRSet", "TCal"), ("TRRemove",), ("TRNone",))):
        reqs = [(meth, cal2, ("XProps", treq, [(1, 1)])), put(cal2 + (100,), ev(0)), put(cal2 + (200,), cd(1))]
        reqs += observe((10,), cal2)
        out.append((open_world(), hist(reqs)))
    # --- PUT of a whole collection: target state x permit_overwrite x body
    for state, permit, body in itertools.product(("absent", "calendar-with-items", "address-book", "plain"), (True, False), ("cal2", "cards2", "empty", "bad")):
        reqs = []
        if state == "calendar-with-items":
            reqs += [mk[cal], put(cal + (100,), ev(0)), put(cal + (101,), ev(1))]
        elif state == "address-book":
            reqs += [("RMkcol", cal, ("XProps", ("TRSet", "TAdr"), [])), put(cal + (200,), cd(0))]
        elif state == "plain":
            reqs += [("RMkcol", cal, ("XNone",))]
        b = {"cal2": ("BCal", [ev(2, 1), (3, "CTodo", 0)]), "cards2": ("BCards", [cd(2, 1), cd(3)]), "empty": ("BEmpty",), "bad": ("BBad",)}[body]
        reqs.append(("RPut", cal, "CTCard" if body == "empty" else "CTNone", b, ("CNone",), False))
        reqs += observe((10,), cal)
        out.append((open_world(permit_overwrite=permit), hist(reqs)))

    # --- REPORT calendar-query / addressbook-query / sync-collection / free-busy: target x kind x filter
    plain = (10, 22)
    base = [mk[cal], mk[adr], ("RMkcol", plain, ("XNone",)), ("RMkcalendar", (11, 20), ("XNone",)),
            put(cal + (100,), ev(0)), put(cal + (101,), (1, "CTodo", 1)), put(cal + (102,), ev(2, 1)), put(cal + (103,), (3, "CJournal", 2)),
            put(adr + (200,), cd(0)), put(adr + (201,), cd(1, 2)),
            ("RPut", (11, 20), "CTNone", ("BCal", [ev(0, 1), ev(1, 0)]), ("CNone",), False)]
    for kind in ("QCal", "QAdr", "QSync", "QFreeBusy"):
        reqs = list(base)
        for tgt in (cal, adr, plain, (10,), cal + (100,), cal + (101,), adr + (200,), cal + (105,), (10, 21, 100), (11, 20), (11, 20, 100), (11, 22)):
            for flt in dict.fromkeys(QUERY_FILTERS[kind]):
                reqs.append(("RQuery", tgt, kind, flt))
        out.append((open_world(), [(2, ("RPropfind", (11,), False))] + hist(reqs)))
    # the same table under a policy that grants the user r on one calendar only, and R (not r) elsewhere
    t = {(): "R", (10,): "RW", cal: "r", adr: "w", plain: "R", (11,): "RW", (11, 20): "R"}
    for kind in ("QCal", "QAdr", "QSync", "QFreeBusy"):
        reqs = []
        for tgt in (cal, adr, plain, (10,), cal + (100,), adr + (200,), (11, 20), (11, 20, 100)):
            for flt in (None, QUERY_FILTERS[kind][-2] if kind != "QFreeBusy" else ("range", True)):
                reqs.append((2, ("RQuery", tgt, kind, flt)))
        w = ((True, True), [(None, {}), (10, dict(open_world()[1][1][1])), (11, t)])
        out.append((w, [(2, ("RPropfind", (11,), False))] + hist(base) + reqs))
    return out


# ------------------------------------------------------------------------------- concrete requests
def xml_props(x, root):
    if x[0] == "XBad":
        return "<notxml"
    if x[0] == "XNone":
        return None
    _, treq, props = x
    sets, removes = [], []
    seq = []
    if treq[0] == "TRSet":
        inner = {"TCal": "<C:calendar/>", "TAdr": "<CR:addressbook/>", "TNone": ""}[treq[1]]
        seq.append(("set", "<D:resourcetype><D:collection/>%s</D:resourcetype>" % inner))
    elif treq[0] == "TRRemove":
        seq.append(("remove", "<D:resourcetype/>"))
    for k, v in props:
        tag = KEYS[k]
        if v is None:
            seq.append(("remove", "<%s/>" % tag))
        elif v == EMPTY_VALUE:
            seq.append(("set", "<%s/>" % tag))
        else:
            seq.append(("set", "<%s>v%d</%s>" % (tag, v, tag)))
    body = "".join("<D:%s><D:prop>%s</D:prop></D:%s>" % (kind, el, kind) for kind, el in seq)
    return ('<?xml version="1.0"?><D:%s xmlns:D="DAV:" xmlns:C="urn:ietf:params:xml:ns:caldav" '
            'xmlns:CR="urn:ietf:params:xml:ns:carddav" xmlns:ICAL="http://apple.com/ns/ical/">%s</D:%s>' % (root, body, root))


PROPFIND_PROPS = ("D:resourcetype", "D:getetag", "RADICALE:displayname", "C:calendar-description", "ICAL:calendar-color",
                  "D:current-user-privilege-set")


class Runner:
    probe = None      # optional callable(srv, ui, request, cresp) -> anything, run after every request

    def __init__(self, etags, storage_type="multifilesystem", layout=None):
        self.etags = etags
        self.sent = {}
        self.storage_type = storage_type
        self.layout = layout or {}

    @staticmethod
    def install_policy(pols):
        POLICY.clear()
        for (uname, table), ustr in zip(pols, USERS):
            for p, perm in table.items():
                POLICY[(ustr or "", "/".join(name_str(n) for n in p))] = perm

    def run(self, world, hist, want_store=False, setup=None):
        """Returns the list of canonical responses as nested Python tuples (mirroring cresp).
        setup = (pols, history): executed first on the same server under its own policy tables (not reported)."""
        cfg, pols = world
        self.install_policy(pols if setup is None else setup[0])
        conf = {"auth": {"type": "none"}, "rights": {"type": "vlib.x_rights", "permit_delete_collection": str(cfg[0]),
                                                      "permit_overwrite_collection": str(cfg[1])},
                "storage": dict(type=self.storage_type, **self.layout)}
        out = []
        with impl.Server(conf=conf) as srv:
            self.srv = srv
            if setup is not None:
                self.setup_out = [self.one(srv, ui, r) for ui, r in setup[1]]
                self.install_policy(pols)
            if getattr(self, "plant", None):
                self.plant(srv)       # stored content no request can create (placed in the folder by other means)
            self.dumps = []
            self.pre = []
            self.probes = []
            for ui, r in hist:
                self.pre.append(current_etag(srv, r[1]) if r[0] in ("RPut", "RDelete") else None)
                out.append(self.one(srv, ui, r))
                self.probes.append(self.probe(srv, ui, r, out[-1]) if self.probe else None)
                if want_store:
                    self.dumps.append(dump_store(srv.folder, self.etags))
            self.final = self.dumps[-1] if (want_store and self.dumps) else (dump_store(srv.folder, self.etags) if want_store else None)
            # optional read-only raw requests on the final store (C03: every observer the handler model does not cover)
            self.after_out = self.after(srv) if getattr(self, "after", None) else None
            self.verify_ok = None
            if want_store:
                try:
                    self.verify_ok = bool(srv.application._storage.verify())
                except Exception as e:  # noqa
                    self.verify_ok = "raised %r" % (e,)
        return out

    def etag_value(self, srv, e, target):
        if e[0] == "EtBogus":
            return '"bogus"'
        if e[0] == "EtItem":
            return self.etags.etag_of[e[1]]
        if e[0] == "EtTrunc":
            # a malformed value that is PART of the current ETag of the target (the model: never matches)
            if self.cur_login:
                srv.request("OPTIONS", "/", login=self.cur_login)
            cur = current_etag(srv, target) or '"0123456789abcdef0123456789abcdef"'       # nothing there: any non-empty value
            return {"quote": '"', "prefix": cur[:12], "inner": cur[5:20], "noquotes": cur.strip('"'), "empty-quotes": '""',
                    "suffix": cur[-9:]}[e[1]]
        # current collection etag; the gate may create the user's home during the request itself, so let it
        # happen first (the model's ensure_home is idempotent)
        if self.cur_login:
            srv.request("OPTIONS", "/", login=self.cur_login)
        col = collection_etag(srv, target)
        return col or '"nocoll"'

    def one(self, srv, ui, r):
        user = USERS[ui]
        login = (user + ":") if user else None
        self.cur_login = login
        kind = r[0]
        hdr = {}
        data = None
        if kind == "RPut":
            _, p, ct, b, im, inm = r
            method, path = "PUT", path_str(p, coll=(b[0] != "BCal" and b[0] != "BCards") or len(p) <= 2)
            path = path_str(p)
            data = body_text(b)
            if ct != "CTNone":
                hdr["CONTENT_TYPE"] = "text/calendar" if ct == "CTCal" else "text/vcard"
            if im[0] == "CStar":
                hdr["HTTP_IF_MATCH"] = "*"
            elif im[0] == "CTag":
                hdr["HTTP_IF_MATCH"] = self.etag_value(srv, im[1], p)
            if inm:
                hdr["HTTP_IF_NONE_MATCH"] = "*"
        elif kind == "RDelete":
            _, p, im = r
            method, path = "DELETE", path_str(p)
            if im[0] == "CStar":
                hdr["HTTP_IF_MATCH"] = "*"
            elif im[0] == "CTag":
                hdr["HTTP_IF_MATCH"] = self.etag_value(srv, im[1], p)
        elif kind == "RMove":
            _, p, dest_ok, to, ow = r
            method, path = "MOVE", path_str(p)
            hdr["HTTP_HOST"] = "127.0.0.1"
            hdr["HTTP_DESTINATION"] = ("http://127.0.0.1" if dest_ok else "http://other.example") + path_str(to)
            if ow:
                hdr["HTTP_OVERWRITE"] = "T"
        elif kind in ("RMkcol", "RMkcalendar", "RProppatch"):
            _, p, x = r
            method = {"RMkcol": "MKCOL", "RMkcalendar": "MKCALENDAR", "RProppatch": "PROPPATCH"}[kind]
            path = path_str(p)
            data = xml_props(x, {"RMkcol": "mkcol", "RMkcalendar": "mkcol", "RProppatch": "propertyupdate"}[kind])
        elif kind == "RGet":
            method, path = "GET", path_str(r[1])
        elif kind == "RPropfind":
            method, path = "PROPFIND", path_str(r[1])
            hdr["HTTP_DEPTH"] = "1" if r[2] else "0"
            data = ('<?xml version="1.0"?><D:propfind xmlns:D="DAV:" xmlns:C="urn:ietf:params:xml:ns:caldav" '
                    'xmlns:ICAL="http://apple.com/ns/ical/" xmlns:RADICALE="http://radicale.org/ns/"><D:prop>'
                    + "".join("<%s/>" % t for t in PROPFIND_PROPS) + "</D:prop></D:propfind>")
        elif kind == "RMultiget":
            _, p, cal, hs = r
            method, path = "REPORT", path_str(p)
            ns = 'xmlns:C="urn:ietf:params:xml:ns:caldav"' if cal else 'xmlns:C="urn:ietf:params:xml:ns:carddav"'
            root = "C:calendar-multiget" if cal else "C:addressbook-multiget"
            data = ('<?xml version="1.0"?><%s xmlns:D="DAV:" %s><D:prop><D:getetag/></D:prop>%s</%s>' % (
                root, ns, "".join("<D:href>%s</D:href>" % path_str(h) for h in hs), root))
        elif kind == "RQuery":
            _, p, qk, flt = r
            method, path = "REPORT", path_str(p)
            data = query_xml(qk, flt)
        self.last_headers = hdr
        if kind in ("RPut", "RDelete", "RGet", "RPropfind", "RMove") and len(r[1]) == 3 and not path.endswith("/"):
            # another spelling of the same resource: a trailing slash on the URL of an EXISTING item (deterministic choice)
            import zlib
            fs = os.path.join(srv.folder, "collection-root", *path.strip("/").split("/"))
            if os.path.isfile(fs) and zlib.crc32(repr((r, self.sent.get("n", 0))).encode()) % 3 == 0:
                path += "/"
                self.sent["slash"] = self.sent.get("slash", 0) + 1
        self.sent["n"] = self.sent.get("n", 0) + 1
        st, h, b = srv.request(method, path, data=data, login=login, **hdr)
        self.last_response = (st, h)
        return self.canon(kind, r, st, h, b, user)

    def canon(self, kind, r, st, h, b, user):
        text = b.decode("utf-8", "replace")
        if st == 401:
            status = "S403NA"
        elif st == 403:
            if "Access to the requested resource forbidden" in text:
                status = "S403NA"
            elif "Action on the requested resource refused" in text:
                status = "S403F"
            elif "Directory listings" in text:
                status = "S403Dir"
            elif "supported-report" in text or (kind == "RQuery" and r[2] == "QFreeBusy" and text.startswith("<Element '{DAV:}error'")):
                # a refused free-busy REPORT answers with str(<Element>) as body (DESIGN 10.2): the error element is not serialised
                status = "S403Report"
            else:
                status = "S403?"
        elif st == 409:
            status = "S409Uid" if "no-uid-conflict" in text else ("S409Null" if "resource-must-be-null" in text else "S409")
        else:
            status = "S%d" % st
        payload = ("CPNone",)
        if st == 201 and kind == "RPut":
            et = h.get("ETag")
            payload = ("CPEtagItem", self.etags.by_etag[et]) if et in self.etags.by_etag else ("CPEtagColl",)
        elif st == 200 and kind == "RGet":
            objs = parse_objs(text)
            p = r[1]
            if h.get("Content-Disposition"):
                tag = "TCal" if h.get("Content-Type", "").startswith("text/calendar") else "TAdr"
                payload = ("CPExport", tag, sorted((u, c, k % 10) for u, c, k in parse_objs(text, variant=False)))
            else:
                payload = ("CPItem", self.etags.by_etag.get(h.get("ETag"), objs[0] if objs else (-1, "CEvent", -1)))
        elif st == 200 and kind == "RQuery":
            payload = ("CPBusy", text.count("BEGIN:VFREEBUSY"))
        elif st == 207 and kind in ("RPropfind", "RMultiget", "RQuery"):
            ms = parse_multistatus_list(b)
            entries = []
            for href, props in ms:
                p = str_path(href)
                if isinstance(props, int):
                    if kind == "RQuery" and r[2] == "QSync":
                        continue      # sync-collection also reports names deleted earlier (the collection's history): not item data
                    entries.append(("CE404", p))
                    continue
                if kind in ("RMultiget", "RQuery"):
                    et = props.get("D:getetag")
                    if et and et[0] == 200:
                        entries.append(("CEItem", p, self.etags.by_etag.get(et[1].text, (-1, "CEvent", -1)), False))
                    else:
                        entries.append(("CE404", p))
                    continue
                rt = props.get("D:resourcetype")
                priv = props.get("D:current-user-privilege-set")
                writable = priv is not None and any(c.tag.endswith("}write") for pr in priv[1] for c in pr)
                is_coll = rt is not None and rt[0] == 200 and any(c.tag == "{DAV:}collection" for c in rt[1])
                if is_coll:
                    tag = "TNone"
                    for c in rt[1]:
                        if c.tag.endswith("}calendar"):
                            tag = "TCal"
                        if c.tag.endswith("}addressbook"):
                            tag = "TAdr"
                    pl = []
                    for k, hk in ((1, "RADICALE:displayname"), (2, "C:calendar-description"), (3, "ICAL:calendar-color")):
                        v = props.get(hk)
                        if v and v[0] == 200:
                            m = re.fullmatch(r"v(\d+)", v[1].text or "")
                            pl.append((k, int(m.group(1)) if m else (EMPTY_VALUE if not (v[1].text or "") else 99)))
                    entries.append(("CEColl", p, tag, sorted(pl), writable))
                else:
                    et = props.get("D:getetag")
                    o = self.etags.by_etag.get(et[1].text if et else None, (-1, "CEvent", -1))
                    entries.append(("CEItem", p, o, writable))
            payload = ("CPListing", sorted(entries, key=lambda e: e[1]))
        return (status, payload)


def parse_multistatus_list(body):
    """Like impl.parse_multistatus but keeps duplicates: list of (href, status | props)."""
    import defusedxml.ElementTree as DefusedET
    from radicale import xmlutils
    xml = DefusedET.fromstring(body)
    out = []
    for response in xml.findall(xmlutils.make_clark("D:response")):
        href = response.find(xmlutils.make_clark("D:href")).text
        props = {}
        for propstat in response.findall(xmlutils.make_clark("D:propstat")):
            status = int(propstat.find(xmlutils.make_clark("D:status")).text.split(" ")[1])
            for el in propstat.findall("./%s/*" % xmlutils.make_clark("D:prop")):
                props[xmlutils.make_human_tag(el.tag)] = (status, el)
        status = response.find(xmlutils.make_clark("D:status"))
        out.append((href, int(status.text.split(" ")[1]) if status is not None else props))
    return out


def current_etag(srv, target):
    """ETag of whatever `target` denotes right now (item or collection), read through the storage API."""
    st = srv.application._storage
    with st.acquire_lock("r"):
        it = next(iter(st.discover(path_str(target))), None)
        return it.etag if it is not None else None


def collection_etag(srv, target):
    """The current ETag of the collection at `target`, read through the storage API (not a request)."""
    st = srv.application._storage
    with st.acquire_lock("r"):
        it = next(iter(st.discover(path_str(target))), None)
        from radicale import storage
        if isinstance(it, storage.BaseCollection):
            return it.etag
    return None


def dump_store(folder, etags):
    """Canonical store read back from the real folder through the public storage API is avoided on purpose:
    walk the directory (all-Safe names only, like `abs`)."""
    import json
    root = os.path.join(folder, "collection-root")
    out = []

    def safe(n):
        return n and not n.startswith(".") and not n.endswith("~")

    def walk(d, p):
        tag, props, items = "TNone", [], []
        pf = os.path.join(d, ".Radicale.props")
        if os.path.exists(pf):
            meta = json.load(open(pf))
            tag = {"VCALENDAR": "TCal", "VADDRESSBOOK": "TAdr"}.get(meta.get("tag", ""), "TNone")
            for k, hk in KEYS.items():
                if hk in meta:
                    m = re.fullmatch(r"v(\d+)", meta[hk])
                    props.append((k, int(m.group(1)) if m else (EMPTY_VALUE if meta[hk] == "" else 99)))
        subs = []
        for e in sorted(os.listdir(d)):
            if not safe(e):
                continue
            fp = os.path.join(d, e)
            if os.path.isdir(fp):
                subs.append((fp, p + (STR_NAME.get(e, 999),)))
            else:
                objs = parse_objs(open(fp, newline="").read())
                items.append((STR_NAME.get(e, 999), objs[0] if len(objs) == 1 else (-1, "CEvent", len(objs))))
        out.append((p, tag, sorted(props), sorted(items)))
        for fp, q in subs:
            walk(fp, q)
    if os.path.isdir(root):
        walk(root, ())
    else:
        out.append(((), "TNone", [], []))
    return sorted(out)


# ------------------------------------------------------------------------------- Coq encoders
def enc_path(p):
    return "[" + ";".join("%d" % n for n in p) + "]%N"


def enc_obj(o):
    return "(mkObj %d %s %d)" % (o[0] if o[0] >= 0 else 999, o[1], o[2] if o[2] >= 0 else 999)


def enc_objs(l):
    return "[" + ";".join(enc_obj(o) for o in l) + "]"


def enc_cond(c):
    if c[0] == "CNone":
        return "CNone"
    if c[0] == "CStar":
        return "CStar"
    e = c[1]
    if e[0] == "EtItem":
        return "(CTag (EtItem %s))" % enc_obj(e[1])
    if e[0] == "EtColl":
        return "(CTag (EtColl (mkColl TNone [] [])))"
    return "(CTag EtBogus)"


def enc_body(b):
    if b[0] in ("BBad", "BEmpty"):
        return b[0]
    return "(%s %s)" % (b[0], enc_objs(b[1]))


def enc_x(x):
    if x[0] in ("XBad", "XNone"):
        return x[0]
    _, t, props = x
    tr = {"TRNone": "TRNone", "TRRemove": "TRRemove"}.get(t[0]) or "(TRSet %s)" % t[1]
    pl = "[" + ";".join("(%d%%N, %s)" % (k, "None" if v is None else "Some %d%%N" % v) for k, v in props) + "]"
    return "(XProps %s %s)" % (tr, pl)


def enc_bool(b):
    return "true" if b else "false"


def enc_request(r):
    k = r[0]
    if k == "RPut":
        return "(RPut %s %s %s %s %s)" % (enc_path(r[1]), r[2], enc_body(r[3]), enc_cond(r[4]), enc_bool(r[5]))
    if k == "RDelete":
        return "(RDelete %s %s)" % (enc_path(r[1]), enc_cond(r[2]))
    if k == "RMove":
        return "(RMove %s %s %s %s)" % (enc_path(r[1]), enc_bool(r[2]), enc_path(r[3]), enc_bool(r[4]))
    if k in ("RMkcol", "RMkcalendar", "RProppatch"):
        return "(%s %s %s)" % (k, enc_path(r[1]), enc_x(r[2]))
    if k == "RGet":
        return "(RGet %s)" % enc_path(r[1])
    if k == "RPropfind":
        return "(RPropfind %s %s)" % (enc_path(r[1]), enc_bool(r[2]))
    if k == "RMultiget":
        return "(RMultiget %s %s [%s])" % (enc_path(r[1]), enc_bool(r[2]), ";".join(enc_path(h) for h in r[3]))
    if k == "RQuery":
        return "(RQuery %s %s %s)" % (enc_path(r[1]), r[2], enc_filter(r[2], r[3]))
    raise ValueError(k)


def enc_perm(s):
    return "[" + ";".join(str(ord(c)) for c in s) + "]%N"


def enc_world(world):
    cfg, pols = world
    ps = []
    for uname, table in pols:
        t = "[" + ";".join("(%s, %s)" % (enc_path(p), enc_perm(v)) for p, v in table.items()) + "]"
        ps.append("(%s, %s)" % ("None" if uname is None else "Some %d%%N" % uname, t))
    return "(mkWorld (mkConfig %s %s) [%s])" % (enc_bool(cfg[0]), enc_bool(cfg[1]), ";".join(ps))


def enc_case(case):
    world, hist = case
    return "(%s, [%s])" % (enc_world(world), ";".join("(%d%%N, %s)" % (ui, enc_request(r)) for ui, r in hist))


def enc_centry(e):
    if e[0] == "CE404":
        return "(CE404 %s)" % enc_path(e[1])
    if e[0] == "CEItem":
        return "(CEItem %s %s %s)" % (enc_path(e[1]), enc_obj(e[2]), enc_bool(e[3]))
    return "(CEColl %s %s ([%s] : list (N * N)) %s)" % (enc_path(e[1]), e[2], ";".join("(%d%%N, %d%%N)" % kv for kv in e[3]), enc_bool(e[4]))


def enc_cresp(c):
    status, pl = c
    if status not in ("S200", "S201", "S204", "S207", "S400", "S403NA", "S403F", "S403Dir", "S403Report", "S404", "S405",
                      "S409", "S409Uid", "S409Null", "S412", "S500", "S502"):
        status = "S500" if status != "S403?" else "S403F"
    k = pl[0]
    if k in ("CPNone", "CPEtagColl"):
        p = k
    elif k in ("CPEtagItem", "CPItem"):
        p = "(%s %s)" % (k, enc_obj(pl[1]))
    elif k == "CPExport":
        p = "(CPExport %s %s)" % (pl[1], enc_objs(pl[2]))
    elif k == "CPBusy":
        p = "(CPBusy %d)" % pl[1]
    else:
        p = "(CPListing [%s])" % ";".join(enc_centry(e) for e in pl[1])
    return "(%s, %s)" % (status, p)


def enc_cresps(l):
    return "([" + ";".join(enc_cresp(c) for c in l) + "] : list cresp)"


def enc_cstore(cs):
    rows = []
    for p, tag, props, items in cs:
        rows.append("(%s, %s, ([%s] : list (N * N)), ([%s] : list (name * obj)))" % (
            enc_path(p), tag, ";".join("(%d%%N, %d%%N)" % kv for kv in props),
            ";".join("(%d%%N, %s)" % (n, enc_obj(o)) for n, o in items)))
    return "([" + ";".join(rows) + "] : cstore)"


COQ_HEADER = """From Coq Require Import List NArith Bool.
Import ListNotations.
Require Import RV.Lib.PyStr RV.Lib.Item RV.Model.Store RV.Model.Handlers RV.Model.HandlersCanon.
Open Scope N_scope.
Definition run_case (c : world * list ureq) : list cresp := run_world (fst c) empty_store (snd c).
Definition run_case_store (c : world * list ureq) : cstore := canon_store (final_store (fst c) empty_store (snd c)).
Definition resps_eqb (a b : list cresp) : bool := list_eqb cresp_eqb a b.
"""
