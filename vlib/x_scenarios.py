"""Property monitors on the real server for request bodies OUTSIDE the abstract grammar of Model/Handlers.v
(adversarial UIDs, several components per UID, recurrence overrides ...).  They state C01 / C15 clauses directly on
what the server stores and serves; no model involved."""
import os
import re

from vlib import impl

UID_POOL = ["x", "x.ics", "x.vcf", "X", "x.ICS", "y", "y y", "a/b", ".hid", "t~", "é", "u" * 80, "x.ics.ics", "%41", "x;y", "z"]


def comp_text(kind, uid, summary, extra=""):
    if kind == "VEVENT":
        return ("BEGIN:VEVENT\r\nUID:%s\r\nDTSTAMP:20130101T000000Z\r\nSUMMARY:%s\r\nDTSTART:20130901T180000Z\r\n"
                "DTEND:20130901T190000Z\r\n%sEND:VEVENT\r\n" % (uid, summary, extra))
    if kind == "VTODO":
        return "BEGIN:VTODO\r\nUID:%s\r\nDTSTAMP:20130101T000000Z\r\nSUMMARY:%s\r\n%sEND:VTODO\r\n" % (uid, summary, extra)
    if kind == "VJOURNAL":
        return "BEGIN:VJOURNAL\r\nUID:%s\r\nDTSTAMP:20130101T000000Z\r\nSUMMARY:%s\r\n%sEND:VJOURNAL\r\n" % (uid, summary, extra)
    return "BEGIN:VCARD\r\nVERSION:3.0\r\nUID:%s\r\nFN:%s\r\nN:%s;;;;\r\nEND:VCARD\r\n" % (uid, summary, summary)


def parse_components(text):
    """[(kind, uid, summary)] of all VEVENT/VTODO/VJOURNAL/VCARD components in a served or stored text."""
    text = re.sub(r"\r?\n[ \t]", "", text)      # unfold
    out = []
    for m in re.finditer(r"BEGIN:(VEVENT|VTODO|VJOURNAL|VCARD)\r?\n(.*?)END:\1", text, re.S):
        uid = re.search(r"^UID:(.*?)\r?$", m.group(2), re.M)
        summ = re.search(r"^(?:SUMMARY|FN):(.*?)\r?$", m.group(2), re.M)
        out.append((m.group(1), unescape(uid.group(1)) if uid else None, unescape(summ.group(1)) if summ else None))
    return out


def unescape(v):
    """iCalendar / vCard TEXT unescaping (the serialiser may escape ; , \\ and newlines)."""
    return re.sub(r"\\([;,\\nN])", lambda m: "\n" if m.group(1) in "nN" else m.group(1), v)


def disk_objects(folder, coll):
    """{file name: [(kind, uid, summary)]} for the item files of a collection folder."""
    d = os.path.join(folder, "collection-root", *coll.strip("/").split("/"))
    out = {}
    if os.path.isdir(d):
        for n in sorted(os.listdir(d)):
            p = os.path.join(d, n)
            if n.startswith(".") or n.endswith("~") or not os.path.isfile(p):
                continue
            out[n] = parse_components(open(p, newline="", encoding="utf-8").read())
    return out


def whole_upload_fidelity(ctx, n):
    """A replaced collection contains exactly the uploaded objects (grouped by UID), one UID per object, no UID twice."""
    rng = ctx.rng
    for i in range(n):
        card = rng.random() < 0.35
        k = rng.randrange(1, 6)
        uids = [rng.choice(UID_POOL) for _ in range(k)]
        comps = []
        for j, u in enumerate(uids):
            kind = "VCARD" if card else rng.choice(["VEVENT", "VEVENT", "VTODO", "VJOURNAL"])
            comps.append((kind, u, "s%d" % j))
        if not card and rng.random() < 0.4 and comps:
            # a recurrence override of an earlier component, NOT adjacent to its master
            kind, u, _ = comps[0]
            if kind == "VEVENT":
                comps.append((kind, u, "ovr"))
        texts = []
        for j, (kind, u, s) in enumerate(comps):
            extra = ""
            if s == "ovr":
                extra = "RECURRENCE-ID:20130908T180000Z\r\n"
            elif kind == "VEVENT" and any(c[2] == "ovr" and c[1] == u for c in comps):
                extra = "RRULE:FREQ=WEEKLY;COUNT=4\r\n"
            texts.append(comp_text(kind, u, s, extra))
        wrap = lambda ts: "BEGIN:VCALENDAR\r\nPRODID:-//v//EN\r\nVERSION:2.0\r\n" + "".join(ts) + "END:VCALENDAR\r\n"      # noqa: E731
        body = "".join(texts) if card else wrap(texts)
        if not card and len(texts) >= 2 and rng.random() < 0.3:
            # the same components spread over SEVERAL VCALENDAR objects in one body (an export of several calendars glued
            # together): whatever the server makes of it, UIDs must stay unique per collection and one UID per object
            j = rng.randrange(1, len(texts))
            body = wrap(texts[:j]) + wrap(texts[j:])
            ctx.count("whole-upload:several-vcalendar-objects")
        with impl.Server(conf={"auth": {"type": "none"}, "rights": {"type": "authenticated"}}) as srv:
            srv.mkcol("/u/")
            before = impl.tree_dump(srv.folder, skip_cache=True)
            st, h, _ = srv.put("/u/c/", body, login="u:")
            ctx.case(("whole", card, tuple(comps)), nontrivial=len(set(uids)) < len(uids) or any(not re.fullmatch(r"\w+", u) for u in uids),
                     sample=dict(kind="whole-collection upload", components=comps, status=st) if i < 2 else None)
            ctx.count("whole-upload:%s" % st)
            if st != 201:
                if impl.tree_dump(srv.folder, skip_cache=True) != before:
                    ctx.violation("whole-collection PUT answered %s but the store changed" % st, dict(body=body))
                    return
                continue
            objs = disk_objects(srv.folder, "/u/c/")
            stored = sorted(c for v in objs.values() for c in v)
            want = sorted(comps)
            problem = None
            if stored != want:
                problem = "stored components %r differ from the uploaded ones %r" % (stored, want)
            uid_of_file = {}
            for name, cs in objs.items():
                us = {c[1] for c in cs}
                if len(us) != 1:
                    problem = problem or "item %r holds %d different UIDs" % (name, len(us))
                uid_of_file[name] = next(iter(us)) if us else None
            if len(set(uid_of_file.values())) != len(uid_of_file):
                problem = problem or "two stored objects share one UID: %r" % (uid_of_file,)
            # what clients see
            stg, _, exp = srv.request("GET", "/u/c/", login="u:")
            served = sorted(parse_components(exp.decode("utf-8", "replace")))
            if stg == 200 and served != want:
                problem = problem or "exported components %r differ from the uploaded ones %r" % (served, want)
            stp, ms = srv.propfind("/u/c/", depth="1", login="u:")
            listed = [hh for hh in ms if hh != "/u/c/"]
            if stp == 207 and len(listed) != len(objs):
                problem = problem or "PROPFIND lists %d items, the folder holds %d" % (len(listed), len(objs))
            if problem:
                ctx.violation("whole-collection upload: " + problem, dict(body=body, files=list(objs)))
                return


def item_put_fidelity(ctx, n):
    """Single-item PUTs with adversarial names/UIDs: stored iff accepted, one object per item, UID unique per collection."""
    rng = ctx.rng
    with impl.Server(conf={"auth": {"type": "none"}, "rights": {"type": "authenticated"}}) as srv:
        srv.mkcol("/u/")
        srv.mkcalendar("/u/c/")
        srv.mkaddressbook("/u/a/")
        # objects that pass the sanitiser's structural checks but have no computable time range or odd value types: a refusal
        # must leave nothing behind (the time range is computed when the cache entry is written)
        odd = [("no-dtstart", "BEGIN:VEVENT\r\nUID:odd0\r\nDTSTAMP:20130101T000000Z\r\nSUMMARY:o\r\nEND:VEVENT\r\n"),
               ("datetime-start-date-end", "BEGIN:VEVENT\r\nUID:odd1\r\nDTSTAMP:20130101T000000Z\r\nDTSTART:20130901T180000Z\r\n"
                                           "DTEND;VALUE=DATE:20130902\r\nSUMMARY:o\r\nEND:VEVENT\r\n"),
               ("todo-due-before-start", "BEGIN:VTODO\r\nUID:odd2\r\nDTSTAMP:20130101T000000Z\r\nDTSTART:20130901T180000Z\r\n"
                                         "DUE;VALUE=DATE:20130801\r\nSUMMARY:o\r\nEND:VTODO\r\n"),
               ("bad-rrule", "BEGIN:VEVENT\r\nUID:odd3\r\nDTSTAMP:20130101T000000Z\r\nDTSTART:20130901T180000Z\r\nRRULE:FREQ=NEVER\r\n"
                             "SUMMARY:o\r\nEND:VEVENT\r\n"),
               ("journal-no-dtstart", "BEGIN:VJOURNAL\r\nUID:odd4\r\nDTSTAMP:20130101T000000Z\r\nSUMMARY:o\r\nEND:VJOURNAL\r\n")]
        odd += [("card-without-fn-and-n", "BEGIN:VCARD\r\nVERSION:3.0\r\nUID:odd5\r\nNICKNAME:x\r\nEND:VCARD\r\n"),
                ("card-without-version", "BEGIN:VCARD\r\nUID:odd6\r\nFN:x\r\nN:x;;;;\r\nEND:VCARD\r\n"),
                ("event-with-dtend-and-duration", "BEGIN:VEVENT\r\nUID:odd7\r\nDTSTAMP:20130101T000000Z\r\nDTSTART:20130901T180000Z\r\n"
                                                  "DTEND:20130901T190000Z\r\nDURATION:PT1H\r\nSUMMARY:o\r\nEND:VEVENT\r\n"),
                ("todo-with-due-and-duration", "BEGIN:VTODO\r\nUID:odd8\r\nDTSTAMP:20130101T000000Z\r\nDTSTART:20130901T180000Z\r\n"
                                               "DUE:20130902T180000Z\r\nDURATION:PT1H\r\nSUMMARY:o\r\nEND:VTODO\r\n")]
        for oi, (what, comp) in enumerate(odd):
            is_card = comp.startswith("BEGIN:VCARD")
            body = comp if is_card else "BEGIN:VCALENDAR\r\nPRODID:-//v//EN\r\nVERSION:2.0\r\n" + comp + "END:VCALENDAR\r\n"
            before = impl.tree_dump(srv.folder, skip_cache=True)
            st, _, _ = srv.put(("/u/a/odd%d.vcf" if is_card else "/u/c/odd%d.ics") % oi, body, login="u:")
            ctx.case(("itemput-odd", what), nontrivial=True)
            ctx.count("odd-item-put:%s" % st)
            if st >= 400 and impl.tree_dump(srv.folder, skip_cache=True) != before:
                ctx.violation("item PUT (%s) answered %s but the store changed" % (what, st), dict(path="/u/c/odd%d.ics" % oi, body=body))
                return
            st2, _ = srv.propfind("/u/c/", depth="1", props=("D:getetag",), login="u:")
            if st2 != 207:
                ctx.violation("after the item PUT (%s, answered %s) the collection can no longer be listed (%s)" % (what, st, st2),
                              dict(path="/u/c/odd%d.ics" % oi, body=body))
                return
        forced = ["same", "none", "other", "none-first"]      # every multi-component shape once, on fresh names, first
        for i in range(n):
            card = rng.random() < 0.3
            coll = "/u/a/" if card else "/u/c/"
            uid = rng.choice(UID_POOL)
            name = rng.choice(["n1.ics", "n2.ics", "x.ics", "X.ics", "y y.ics", "é.ics", "n1.vcf", "k%41.ics"])
            kind = "VCARD" if card else rng.choice(["VEVENT", "VTODO"])
            if i < len(forced):
                card, coll, kind, uid, name = False, "/u/c/", "VEVENT", "multi-%d" % i, "multi-%d.ics" % i
            body = comp_text(kind, uid, "s%d" % i)
            second = None
            if kind == "VEVENT" and (i < len(forced) or rng.random() < 0.35):
                # several components in one item: an overridden instance that carries the same UID, no UID at all, or another UID
                second = forced[i] if i < len(forced) else rng.choice(forced)
                body = comp_text(kind, uid, "s%d" % i, extra="RRULE:FREQ=DAILY;COUNT=5\r\n")
                ov = comp_text(kind, {"same": uid, "other": uid + "-x"}.get(second, uid), "ov%d" % i, extra="RECURRENCE-ID:20130902T180000Z\r\n")
                if second in ("none", "none-first"):
                    ov = re.sub(r"UID:[^\r]*\r\n", "", ov, count=1)
                body = (ov + body) if second == "none-first" else (body + ov)
            if not card:
                body = "BEGIN:VCALENDAR\r\nPRODID:-//v//EN\r\nVERSION:2.0\r\n" + body + "END:VCALENDAR\r\n"
            before = impl.tree_dump(srv.folder, skip_cache=True)
            st, h, _ = srv.put(coll + name, body, login="u:")
            ctx.case(("itemput", coll, name, uid), nontrivial=True)
            after_objs = disk_objects(srv.folder, coll)
            if st >= 400 and impl.tree_dump(srv.folder, skip_cache=True) != before:
                ctx.violation("item PUT answered %s but the store changed" % st, dict(path=coll + name, body=body))
                return
            uids = [u for cs in after_objs.values() for u in sorted({str(c[1]) for c in cs})]      # one object = one item file
            if len(set(uids)) != len(uids):
                ctx.violation("collection %s holds two objects with one UID after PUT %s (%s)" % (coll, name, st), dict(objects=repr(after_objs)))
                return
            if st == 201 and second is None and after_objs.get(name) != [(kind, uid, "s%d" % i)]:
                ctx.violation("PUT answered 201 but the item does not hold the uploaded object", dict(path=coll + name, stored=repr(after_objs.get(name))))
                return
            for fn_, cs in after_objs.items():
                if len({c[1] for c in cs}) > 1:
                    ctx.violation("item %s%s holds components with different UIDs %r after PUT %s (%s)" % (
                        coll, fn_, sorted({str(c[1]) for c in cs}), name, st), dict(path=coll + name, body=body, stored=repr(cs)))
                    return
        # every stored object is valid for its type by the component library's own validation (independent of the server's
        # sanitiser: the verifier skips what it can not load)
        import vobject as _vobject
        for coll in ("/u/c/", "/u/a/"):
            d_ = os.path.join(srv.folder, "collection-root", *coll.strip("/").split("/"))
            for n_ in sorted(os.listdir(d_)):
                if n_.startswith(".") or n_.endswith("~") or not os.path.isfile(os.path.join(d_, n_)):
                    continue
                text_ = open(os.path.join(d_, n_), newline="", encoding="utf-8").read()
                try:
                    obj_ = _vobject.readOne(text_)
                    valid_ = bool(obj_.validate(raiseException=False)) and all(bool(c_.validate(raiseException=False)) for c_ in obj_.getChildren()
                                                                                  if hasattr(c_, "behavior") and getattr(c_, "name", "") in ("VEVENT", "VTODO", "VJOURNAL"))
                except Exception as e:  # noqa
                    valid_ = "raised %r" % (e,)
                ctx.count("stored-object-validated")
                if valid_ is not True:
                    ctx.violation("the stored object %s%s is not valid for its type (%r)" % (coll, n_, valid_), dict(path=coll + n_, stored=text_[:1500]))
                    return
        # the offline verifier on a cold cache (it only re-parses items on a cache miss)
        import shutil
        for root_, dirs_, _ in os.walk(os.path.join(srv.folder, "collection-root")):
            if ".Radicale.cache" in dirs_:
                shutil.rmtree(os.path.join(root_, ".Radicale.cache"))
        try:
            ok = bool(srv.application._storage.verify())
        except Exception as e:  # noqa
            ok = "raised %r" % (e,)
        if ok is not True:
            ctx.violation("storage verifier fails on a cold cache after the item PUT scenario: %r" % (ok,), dict(objects=repr(disk_objects(srv.folder, "/u/c/"))[:3000]))


def move_matrix(ctx):
    """Every combination of source/destination collection type x destination state x Overwrite for MOVE:
    afterwards every stored object must be valid for its collection's type and UIDs stay unique; an error answer
    changes nothing."""
    import itertools
    kinds = {"cal": ("VEVENT", ".ics"), "adr": ("VCARD", ".vcf")}
    for src_t, dst_t, dst_state, ow, same_coll in itertools.product(kinds, kinds, ("absent", "same-uid", "other-uid"), ("T", "F"), (False, True)):
        if same_coll and src_t != dst_t:
            continue
        with impl.Server(conf={"auth": {"type": "none"}, "rights": {"type": "authenticated"}}) as srv:
            srv.mkcol("/u/")
            mk = {"cal": srv.mkcalendar, "adr": srv.mkaddressbook}
            mk[src_t]("/u/s/")
            dst = "/u/s/" if same_coll else "/u/d/"
            if not same_coll:
                mk[dst_t]("/u/d/")

            def body(t, uid, s):
                k, _ = kinds[t]
                b = comp_text(k, uid, s)
                return b if t == "adr" else "BEGIN:VCALENDAR\r\nPRODID:-//v//EN\r\nVERSION:2.0\r\n" + b + "END:VCALENDAR\r\n"
            srv.put("/u/s/a" + kinds[src_t][1], body(src_t, "shared", "src"), login="u:")
            dst_name = dst + "b" + kinds[dst_t][1]
            if dst_state != "absent":
                st0 = srv.put(dst_name, body(dst_t, "shared" if dst_state == "same-uid" else "other", "dst"), login="u:")[0]
                if st0 != 201:
                    continue        # (same collection, same uid) cannot be set up: uid conflict
            before = impl.tree_dump(srv.folder, skip_cache=True)
            st, _, _ = srv.request("MOVE", "/u/s/a" + kinds[src_t][1], login="u:", HTTP_HOST="127.0.0.1",
                                   HTTP_DESTINATION="http://127.0.0.1" + dst_name, HTTP_OVERWRITE=ow)
            ctx.case(("move", src_t, dst_t, dst_state, ow, same_coll), nontrivial=True)
            ctx.count("move-matrix:%s" % st)
            after = impl.tree_dump(srv.folder, skip_cache=True)
            if st >= 400 and after != before:
                ctx.violation("MOVE answered %s but the store changed" % st, dict(case=[src_t, dst_t, dst_state, ow, same_coll]))
                return
            for coll, t in (("/u/s/", src_t), (dst, dst_t)):
                objs = disk_objects(srv.folder, coll)
                uids = [c[1] for cs in objs.values() for c in cs]
                want_kind = kinds[t][0]
                bad = [(n, c) for n, cs in objs.items() for c in cs if (c[0] == "VCARD") != (want_kind == "VCARD")]
                if bad or len(set(uids)) != len(uids):
                    ctx.violation("after MOVE (%s) collection %s (%s) holds %s" % (
                        st, coll, t, "an object of the wrong type %r" % (bad,) if bad else "two objects with one UID"),
                        dict(case=[src_t, dst_t, dst_state, ow, same_coll]))
                    return


def predefined_collections(ctx):
    """[storage] predefined_collections is part of every new user's first request: a faulty value must be refused at start-up
    or leave a store that lists and verifies."""
    import json as _json
    values = [
        ("valid", {"def-cal": {"D:displayname": "Cal", "tag": "VCALENDAR"}, "def-adr": {"D:displayname": "Adr", "tag": "VADDRESSBOOK"}}),
        ("tag-not-a-collection-type", {"c": {"tag": "VJOURNAL"}}),
        ("list-valued-property", {"c": {"tag": "VCALENDAR", "C:supported-calendar-component-set": ["VEVENT", "VTODO"]}}),
        ("number-valued-property", {"c": {"tag": "VCALENDAR", "D:displayname": 5}}),
        ("nested-name", {"a/b": {"tag": "VCALENDAR"}}),
        ("reserved-name", {".hidden": {"tag": "VCALENDAR"}}),
        ("not-an-object", {"c": "VCALENDAR"}),
    ]
    for what, val in values:
        ctx.case(("predefined", what), nontrivial=True)
        try:
            srv = impl.Server(conf={"auth": {"type": "none"}, "rights": {"type": "owner_only"},
                                    "storage": {"predefined_collections": _json.dumps(val)}})
            srv.__enter__()
        except Exception as e:      # refused at start-up: fine
            ctx.count("predefined:%s:refused-at-start" % what)
            continue
        try:
            st, _ = srv.propfind("/newuser/", depth="1", props=("D:resourcetype", "D:displayname"), login="newuser:")
            st2, _ = srv.propfind("/newuser/", depth="1", props=("D:resourcetype", "D:displayname"), login="newuser:")
            try:
                ok = bool(srv.application._storage.verify())
            except Exception as e:  # noqa
                ok = "raised %r" % (e,)
            ctx.count("predefined:%s:%s/%s" % (what, st, st2))
            if st2 >= 500 or st >= 500 or ok is not True:
                ctx.violation("predefined_collections (%s) accepted at start-up, then the first login answers %s, the second %s, verifier %r" % (
                    what, st, st2, ok), dict(value=val))
                return
        finally:
            srv.__exit__(None, None, None)


def truncated_uploads(ctx):
    """An upload that ends before its declared Content-Length (connection cut, proxy time-out) where the received prefix
    still parses: it must be refused and change nothing -- never stored as if it were the whole body."""
    cards = "".join(comp_text("VCARD", "tc%d" % i, "n%d" % i) for i in range(4))
    events = "BEGIN:VCALENDAR\r\nPRODID:-//v//EN\r\nVERSION:2.0\r\n" + "".join(comp_text("VEVENT", "te%d" % i, "s%d" % i) for i in range(3))
    cases = [("whole-address-book", "/u/a/", cards, [cards.index("BEGIN:VCARD", 10), len(cards) - 5, cards.index("END:VCARD") + len("END:VCARD\r\n")]),
             ("whole-calendar", "/u/c/", events + "END:VCALENDAR\r\n", [len(events), len(events) + 8]),
             ("item-card", "/u/a/one.vcf", comp_text("VCARD", "one", "one"), [20, len(comp_text("VCARD", "one", "one")) - 4]),
             ("propfind-body", "/u/c/", '<?xml version="1.0"?><D:propfind xmlns:D="DAV:"><D:prop><D:getetag/></D:prop></D:propfind>', [30])]
    with impl.Server(conf={"auth": {"type": "none"}, "rights": {"type": "authenticated"}}) as srv:
        srv.mkcol("/u/")
        srv.mkcalendar("/u/c/")
        srv.mkaddressbook("/u/a/")
        srv.put("/u/a/keep.vcf", comp_text("VCARD", "keep", "keep"), login="u:")
        srv.put("/u/c/keep.ics", "BEGIN:VCALENDAR\r\nPRODID:-//v//EN\r\nVERSION:2.0\r\n" + comp_text("VEVENT", "keep", "keep") + "END:VCALENDAR\r\n", login="u:")
        for what, path, body, cuts in cases:
            full = body.encode("utf-8")
            for cut in cuts:
                before = impl.tree_dump(srv.folder, skip_cache=True)
                meth = "PROPFIND" if what == "propfind-body" else "PUT"
                st, _, _ = srv.request(meth, path, data=full[:cut], login="u:", environ={"CONTENT_LENGTH": str(len(full))})
                ctx.case(("truncated", what, cut), nontrivial=True)
                ctx.count("truncated-upload:%s:%s" % (what, st))
                changed = impl.tree_dump(srv.folder, skip_cache=True) != before
                if st < 400 or changed:
                    ctx.violation("%s of %s with only %d of the %d declared bytes received is answered %s%s" % (
                        meth, path, cut, len(full), st, " and the store changed" if changed else ""),
                        dict(path=path, declared=len(full), received=cut, body_prefix=full[:cut].decode("utf-8", "replace")[-300:]))
                    return
