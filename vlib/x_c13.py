"""C13 harness: pairs of runs of one seeded request history on the real in-process server that differ only in
what is done to the item cache between requests; a trace of the storage calls (with the real cache decisions)
for the Coq model (Model/CacheRun.v); monitors on the HTTP responses.

Everything random comes from `random.Random(seed)` of the pair.  The clock the item-file mtimes come from is a
logical clock (see `Clock`): upload.py reads `os.stat` through a proxy that first stamps a freshly written file
with the next tick, files written in hash mode are stamped when the storage call returns.
"""
import contextlib
import errno
import hashlib
import os
import pickle
import random
import re
import shutil
import signal
import sys
import tempfile
import threading
import types
import xml.etree.ElementTree as ET

from vlib import impl

import radicale.item as ritem
import radicale.storage as rstorage
from radicale.storage import multifilesystem as mfs
from radicale.storage.multifilesystem import cache as mfs_cache
from radicale.storage.multifilesystem import upload as mfs_upload

REAL_VERSION = rstorage.CACHE_VERSION
VERS = [REAL_VERSION, b"radicale=9.9.9;vobject=0.0.0;"]
LOGICAL_BASE = 10 ** 18         # logical mtimes: 10**18 + small (September 2001); real st_mtime_ns are > 1.7e18,
LOGICAL_MAX = LOGICAL_BASE + 10 ** 12   # so float seconds cannot tell t from t+1 ns (a key built from st_mtime would be too coarse)

class RequestHang(Exception):
    """A request of a run did not answer within REQUEST_TIMEOUT seconds."""


REQUEST_TIMEOUT = 30


def _alarm(signum, frame):
    raise RequestHang()


CUR = [None]                    # the active harness (one per process)
STOCK = ["utf-8"]               # [encoding] stock of the current pair / probe: the encoding of the item files


# ------------------------------------------------------------------------------------------ patches (installed once)
class _OsProxy:
    """`os` as seen by upload.py: stat() first gives a freshly written item file its logical mtime."""

    def __getattr__(self, name):
        return getattr(os, name)

    def stat(self, path, *a, **k):
        h = CUR[0]
        if h is not None:
            h.stamp_if_fresh(path)
        return os.stat(path, *a, **k)


_ORIG = {}


def install():
    if _ORIG:
        return
    C, S = mfs.Collection, mfs.Storage
    _ORIG.update(get=C._get, load=C._load_item_cache, store=C._store_item_cache, clean=C._clean_item_cache,
                 upload=C.upload, delete=C.delete, list=C._list, lock=C._acquire_cache_lock,
                 move=S.move, create=S.create_collection)
    mfs_upload.os = _OsProxy()

    # fault injection at the moment a cache entry is written (cache.py calls pickle.dump on the open entry file)
    def faulty_dump(obj, fb, *a, **k):
        h = CUR[0]
        where = None
        if h is not None:
            where = "get" if h.cur_get is not None else ("upload" if h.cur_upload is not None else None)
        f = h.faults.get(where) if where else None
        if f is not None:
            if not f.get("persistent"):
                h.faults[where] = None
            h.fault_fired = f
            if f["kind"] == "partial":
                data = pickle.dumps(obj)
                fb.write(data[:len(data) // 2])
                fb.flush()
            raise OSError(errno.ENOSPC, os.strerror(errno.ENOSPC))
        return pickle.dump(obj, fb, *a, **k)
    mfs_cache.pickle = types.SimpleNamespace(dump=faulty_dump, load=pickle.load, UnpicklingError=pickle.UnpicklingError)

    # rule: an entry file is only ever published by a rename -- nobody opens a final entry path for writing
    def audit(event, args):
        if event != "open":
            return
        h = CUR[0]
        if h is None or not h.tracing or h.harness_write:
            return
        path, _mode, flags = args
        if (isinstance(path, str) and isinstance(flags, int) and flags & (os.O_WRONLY | os.O_RDWR)
                and "/.Radicale.cache/item/" in path and ".Radicale.tmp-" not in path
                and is_item_name(os.path.basename(path))):
            h.rule_violations.append(path)
    sys.addaudithook(audit)

    def w_get(self, href, verify_href=True):
        h = CUR[0]
        if h is None or not h.tracing:
            return _ORIG["get"](self, href, verify_href)
        rec = h.begin_get(self, href)
        try:
            item = _ORIG["get"](self, href, verify_href)
        except BaseException:
            h.end_get(rec, None, True)
            raise
        h.end_get(rec, item, False)
        return item

    def w_load(self, href, cache_hash):
        h = CUR[0]
        try:
            r = _ORIG["load"](self, href, cache_hash)
        except BaseException:
            if h is not None and h.tracing:
                h.prim(("load", "raise"))
            raise
        if h is not None and h.tracing:
            h.prim(("load", r is not None))
        return r

    def w_store(self, href, item, cache_hash=""):
        h = CUR[0]
        try:
            r = _ORIG["store"](self, href, item, cache_hash)
        except BaseException:
            if h is not None and h.tracing and h.cur_get is not None:
                h.prim(("storefail",))
            raise
        if h is not None and h.tracing:
            h.prim(("store", cache_hash))
        return r

    def w_clean(self):
        h = CUR[0]
        if h is not None and h.tracing:
            h.prim(("clean",))
        return _ORIG["clean"](self)

    @contextlib.contextmanager
    def w_lock(self, ns=""):
        h = CUR[0]
        with _ORIG["lock"](self, ns):
            if h is not None and h.tracing and ns == "item":
                h.in_cache_lock(self)
            yield

    def w_upload(self, href, item):
        h = CUR[0]
        if h is None or not h.tracing:
            return _ORIG["upload"](self, href, item)
        rec = h.begin_upload(self, href)
        try:
            res = _ORIG["upload"](self, href, item)
        except BaseException as e:
            h.end_upload(rec, None, e)
            raise
        h.end_upload(rec, res, None)
        return res

    def w_delete(self, href=None):
        h = CUR[0]
        if h is None or not h.tracing:
            return _ORIG["delete"](self, href)
        try:
            r = _ORIG["delete"](self, href)
        except BaseException:
            h.op_delete(self, href, False)
            raise
        h.op_delete(self, href, True)
        return r

    def w_list(self):
        h = CUR[0]
        names = list(_ORIG["list"](self))
        if h is not None and h.tracing:
            h.op_list(self, names)
        yield from names

    def w_move(self, item, to_collection, to_href):
        h = CUR[0]
        if h is None or not h.tracing:
            return _ORIG["move"](self, item, to_collection, to_href)
        src = (h.coll_of(item.collection), item.href)
        try:
            r = _ORIG["move"](self, item, to_collection, to_href)
        except BaseException:
            h.op_move(src, (h.coll_of(to_collection), to_href), False)
            raise
        h.op_move(src, (h.coll_of(to_collection), to_href), True)
        return r

    def w_create(self, href, items=None, props=None):
        h = CUR[0]
        r = _ORIG["create"](self, href, items, props)
        if h is not None and h.tracing and props:
            h.op_create(r)
        return r

    C._get, C._load_item_cache, C._store_item_cache, C._clean_item_cache = w_get, w_load, w_store, w_clean
    C.upload, C.delete, C._list, C._acquire_cache_lock = w_upload, w_delete, w_list, w_lock
    S.move, S.create_collection = w_move, w_create


# ------------------------------------------------------------------------------------------ cold derivation
def cold_derive(tag, data, enc=None):
    """What a server without cache computes from the bytes (public item API only, nothing from cache.py/get.py)."""
    try:
        items = list(ritem.read_components(data.decode(enc or STOCK[0])))
        ritem.check_and_sanitize_items(items, tag=tag)
        (v,) = items
        it = ritem.Item(collection_path="x", vobject_item=v)
        return (it.uid, it.etag, it.serialize(), it.name, it.component_name) + tuple(it.time_range)
    except Exception:
        return None


def is_item_name(n):
    return bool(n) and not n.startswith(".") and not n.endswith("~")


# ------------------------------------------------------------------------------------------ Gallina encoders
def g_file(f):
    return "(mkFile %d %d %d)" % f


def g_loc(l):
    """0: inside the collection; 1: collection-cache below filesystem_folder; 2: below filesystem_cache_folder"""
    return "(LSub %d)" % l if l else "LIn"


def g_key(k):
    return "(KHash %d %d)" % (k[1], k[2]) if k[0] == 1 else "(KStat %d %d %d)" % (k[1], k[2], k[3])


def g_entry(code):
    if code == [3]:
        return "EGarbage"
    if code == [4]:
        return "EEmpty"
    return "(EOk %s %d)" % (g_key(code[:-1]), code[-1])


def g_adv(a):
    k = a[0]
    if k == "drop":
        return "(ADrop %s %d %d)" % (g_loc(a[1]), a[2], a[3])
    if k == "dropcoll":
        return "(ADropColl %s %d)" % (g_loc(a[1]), a[2])
    if k == "dropall":
        return "ADropAll"
    if k == "plant":
        return "(APlant %s %d %d %s)" % (g_loc(a[1]), a[2], a[3], g_entry(a[4]))
    raise ValueError(a)


def g_cfg(cfg):
    return "(mkCfg %s %s %d %s %s)" % ("MStat" if cfg["stat"] else "MHash", g_loc(cfg["sub"]), cfg["ver"],
                                       "true" if cfg["skip"] else "false", "true" if cfg.get("cw", 1) else "false")


def g_act(a):
    k = a[0]
    if k == "cfg":
        return "(XCfg %s)" % g_cfg(a[1])
    if k == "lock":
        return "(XLock %s)" % ("LkR" if a[1] == "r" else "LkW")
    if k == "get":
        return "(XOp (OGet %d %d %d))" % a[1:4]
    if k == "getat":
        return "(XGetAt %d %d %d [%s])" % (a[1], a[2], a[3], ";".join(g_adv(x) for x in a[4]))
    if k == "list":
        return "(XOp (OList %d))" % a[1]
    if k == "upload":
        return "(XOp (OUpload %d %d %d %s %d))" % (a[1], a[2], a[3], g_file(a[4]), a[5])
    if k == "uploadfail":
        return "(XOp (OUploadFail %d %d %s))" % (a[1], a[2], g_file(a[3]))
    if k == "create":
        return "(XOp (OCreate %d [%s]))" % (a[1], ";".join("(%d, %s, %d)" % (h, g_file(f), d) for h, f, d in a[2]))
    if k == "move":
        return "(XOp (OMove %d %d %d %d))" % a[1:5]
    if k == "delete":
        return "(XOp (ODelete %d %d))" % a[1:3]
    if k == "deletecoll":
        return "(XOp (ODeleteColl %d))" % a[1]
    if k == "adv":
        return "(XAdv %s)" % g_adv(a[1])
    if k == "ext":
        return "(XExt %d %d %s)" % (a[1], a[2], "None" if a[3] is None else "(Some %s)" % g_file(a[3]))
    if k == "dump":
        return "(XDump [%s])" % ";".join("(%s,%d,%d)" % (g_loc(l), c, h) for l, c, h in a[1])
    raise ValueError(a)


def g_input(case):
    table, acts = case
    t = ";".join("(%d, %s)" % (b, "None" if d is None else "Some %d" % d) for b, d in table)
    return "(([%s] : table), ([%s] : list act))" % (t, ";\n ".join(g_act(a) for a in acts))


def g_output(obs):
    return "[%s]" % ";".join("[%s]" % ";".join(str(x) for x in o) for o in obs)


# ------------------------------------------------------------------------------------------ the harness proper
class Dict:
    """string <-> N dictionaries shared by the two runs of a pair."""

    def __init__(self):
        self.colls, self.hrefs, self.contents, self.derived = {}, {}, {}, {}
        self.table = {}            # cid -> did | None
        self.hashes = {}           # hex digest -> (ver, cid)
        self.tag_of = {}           # bytes -> tag it was registered with
        self.dtuples = {}          # did -> tuple

    @staticmethod
    def _id(d, k):
        if k not in d:
            d[k] = len(d) + 1
        return d[k]

    def coll(self, path):
        return self._id(self.colls, path)

    def href(self, name):
        return self._id(self.hrefs, name)

    def did(self, tup):
        i = self._id(self.derived, tup)
        self.dtuples[i] = tup
        return i

    def content(self, tag, data):
        if data in self.contents:
            return self.contents[data]
        cid = self._id(self.contents, data)
        self.tag_of[data] = tag
        tup = cold_derive(tag, data)
        self.table[cid] = None if tup is None else self.did(tup)
        for v, ver in enumerate(VERS):
            self.hashes[hashlib.sha256(ver + data).hexdigest()] = (v, cid)
        return cid


class Run:
    """One run of a history on a fresh server."""

    def __init__(self, dic, cfg, label):
        install()
        self.d = dic
        self.label = label
        self.clock = LOGICAL_BASE
        self.tracing = False
        self.acts, self.obs = [], []
        self.objs = 0
        self.cur_get = None
        self.cur_upload = None
        self.interfere = None      # dict(c=, h=, advs=[...]) applied inside the cache lock of a read request
        self.req_gets = {}         # per request: (collpath, href) -> derived tuple | None   (last _get)
        self.cfg = dict(cfg)
        # storage folders on tmpfs when there is one: thousands of small files, no need to wait for the disk
        shm = "/dev/shm" if os.path.isdir("/dev/shm") and os.access("/dev/shm", os.W_OK) else None
        self.folder = tempfile.mkdtemp(prefix="rv-c13-", dir=os.environ.get("VERIF_C13_TMP", shm))
        self.srv = impl.Server(self.conf_of(self.cfg), folder=self.folder)
        rstorage.CACHE_VERSION = VERS[self.cfg["ver"]]
        self.root = os.path.join(self.folder, "collection-root")
        self.croots = {0: self.root, 1: os.path.join(self.folder, "collection-cache"),
                       2: os.path.join(self.folder, "altcache", "collection-cache")}
        self.emit(("cfg", dict(self.cfg)), [])
        self.unmodelled = []
        self.faults = {"get": None, "upload": None}   # where -> dict(where=, kind="before"|"partial"[, persistent]): entry write fails
        self.fault_fired = None
        self.harness_write = False
        self.rule_violations = []
        self.stat_seen = {}        # (size, mtime) -> content id, for every file version of this run (keeps stat_ok true)

    def close(self):
        CUR[0] = None
        rstorage.CACHE_VERSION = REAL_VERSION
        self.srv.close()
        shutil.rmtree(self.folder, ignore_errors=True)

    def conf_of(self, cfg):
        return {"storage": {"type": "multifilesystem_nolock" if cfg.get("nolock") else "multifilesystem",
                            "use_mtime_and_size_for_item_cache": str(bool(cfg["stat"])),
                            "use_cache_subfolder_for_item": str(bool(cfg["sub"])),
                            "filesystem_cache_folder": os.path.join(self.folder, "altcache") if cfg["sub"] == 2 else "",
                            "skip_broken_item": str(bool(cfg["skip"]))},
                "encoding": {"stock": STOCK[0]},
                "auth": {"type": "none"}, "rights": {"type": "authenticated"}}

    def set_cache_writable(self, ok, kind="before"):
        """The cache location cannot be written (ENOSPC at every entry write of _get) until set back."""
        self.cfg["cw"] = 1 if ok else 0
        self.faults["get"] = None if ok else dict(where="get", kind=kind, persistent=True)
        self.emit(("cfg", dict(self.cfg)), [])

    def reconfigure(self, cfg):
        self.cfg = dict(cfg)
        rstorage.CACHE_VERSION = VERS[cfg["ver"]]
        self.srv.reconfigure(self.conf_of(cfg))
        self.emit(("cfg", dict(cfg)), [])

    # ---------------------------------------------------------------- clock
    def tick(self):
        self.clock += 10          # ticks are multiples of 10, so that t-1 / t+1 are never ticks
        return self.clock

    def stamp_if_fresh(self, path):
        try:
            st = os.stat(path)
        except OSError:
            return
        if not (LOGICAL_BASE <= st.st_mtime_ns < LOGICAL_MAX):
            t = self.tick()
            os.utime(path, ns=(t, t))

    # ---------------------------------------------------------------- trace
    def emit(self, act, obs):
        self.acts.append(act)
        self.obs.append(list(obs))

    def coll_of(self, collection):
        fp = collection._filesystem_path
        rel = os.path.relpath(fp, self.root)
        return self.d.coll(rel)

    def obj_of(self, collection):
        o = getattr(collection, "_rv_obj", None)
        if o is None:
            self.objs += 1
            o = collection._rv_obj = self.objs
        return o

    def lock_of(self, collection):
        m = collection._storage._lock.locked
        return m if m in ("r", "w") else "w"

    def set_lock(self, collection):
        m = self.lock_of(collection)
        if getattr(self, "_lk", None) != m:
            self._lk = m
            self.emit(("lock", m), [])

    def item_tuple(self, item):
        return (item.uid, item.etag, item.serialize(), item.name, item.component_name) + tuple(item.time_range)

    def key_code(self, key):
        if re.fullmatch(r"[0-9a-f]{64}", key or ""):
            v, cid = self.d.hashes.get(key, (99, 999999))
            return [1, v, cid]
        for v, ver in enumerate(VERS):
            m = re.fullmatch(re.escape(ver.decode()) + r"size=(\d+);mtime=(\d+)", key or "")
            if m:
                return [2, v, int(m.group(1)), int(m.group(2))]
        return [2, 99, 0, 0]           # unknown key format: never equal to a model key

    def prim(self, p):
        rec = self.cur_get or self.cur_upload
        if rec is not None:
            rec["prims"].append(p)
        else:
            self.unmodelled.append("cache primitive %r outside _get/upload" % (p,))

    def begin_get(self, collection, href):
        rec = dict(kind="get", coll=collection, href=href, prims=[], interf=None, parent=self.cur_get)
        self.cur_get = rec
        return rec

    def prims_code(self, prims, result_none, raised):
        out, loads, stored = [], 0, False
        for p in prims:
            if p[0] == "load":
                loads += 1
                if p[1] == "raise":
                    out += [16]
                elif loads == 1:
                    out += [10] if p[1] else [11]
                elif p[1]:
                    out += [12]
            elif p[0] == "store":
                stored = True
                out += [13] + self.key_code(p[1])
            elif p[0] == "clean":
                out += [14]
            elif p[0] == "storefail":
                stored = True
                out += [17]
        if prims and prims[0] == ("load", False) and not stored and 12 not in out and 16 not in out:
            out += [15]
        return out

    def end_get(self, rec, item, raised):
        self.cur_get = rec["parent"]
        coll = rec["coll"]
        c, h = self.coll_of(coll), self.d.href(rec["href"])
        res = [3] if raised else ([0] if item is None else [1, self.d.did(self.item_tuple(item))])
        code = res + self.prims_code(rec["prims"], item is None, raised)
        self.req_gets[(os.path.relpath(coll._filesystem_path, self.root), rec["href"])] = (
            None if item is None else self.item_tuple(item))
        if self.cur_upload is not None:
            self.cur_upload["get"] = code
            return
        if self.fault_fired is not None and self.fault_fired["where"] == "get":
            self.fault_fired = None
        self.set_lock(coll)
        if rec["interf"] is not None:
            self.emit(("getat", self.obj_of(coll), c, h, rec["interf"]), code)
        else:
            self.emit(("get", self.obj_of(coll), c, h), code)

    def in_cache_lock(self, collection):
        itf, rec = self.interfere, self.cur_get
        if itf is None or rec is None or self.lock_of(collection) != "r":
            return
        if (self.coll_of(collection), self.d.href(rec["href"])) != (itf["c"], itf["h"]):
            return
        self.interfere = None
        for a in itf["advs"]:
            self.apply_adv_fs(a)
        rec["interf"] = itf["advs"]

    def begin_upload(self, collection, href):
        rec = dict(kind="upload", coll=collection, href=href, prims=[], get=None)
        self.cur_upload = rec
        return rec

    def file_of(self, tag, path):
        self.stamp_if_fresh(path)
        with open(path, "rb") as f:
            data = f.read()
        st = os.stat(path)
        cid = self.d.content(tag, data)
        self.stat_seen.setdefault((st.st_size, st.st_mtime_ns), cid)
        return (cid, st.st_size, st.st_mtime_ns)

    def end_upload(self, rec, res, exc):
        self.cur_upload = None
        coll = rec["coll"]
        path = os.path.join(coll._filesystem_path, rec["href"])
        if exc is not None:
            if self.fault_fired is not None and self.fault_fired["where"] == "upload":
                self.fault_fired = None
                self.set_lock(coll)
                self.emit(("uploadfail", self.coll_of(coll), self.d.href(rec["href"]), self.file_of(coll.tag, path)), [50])
            else:
                self.unmodelled.append("upload raised %r" % (exc,))
            return
        self.set_lock(coll)
        f = self.file_of(coll.tag, path)
        d = self.d.table.get(f[0])
        code = [1, self.d.did(self.item_tuple(res))]
        stores = [p for p in rec["prims"] if p[0] == "store"]
        code += ([13] + self.key_code(stores[0][1])) if stores else []
        code += (rec["get"] or [])[2:] if rec["get"] and rec["get"][0] == 1 else [77]
        self.emit(("upload", self.obj_of(coll), self.coll_of(coll), self.d.href(rec["href"]), f,
                   888888 if d is None else d), code)

    def op_delete(self, collection, href, ok):
        self.set_lock(collection)
        if href is None:
            self.emit(("deletecoll", self.coll_of(collection)), [40])
        else:
            self.emit(("delete", self.coll_of(collection), self.d.href(href)), [40] if ok else [50])

    def op_list(self, collection, names):
        self.set_lock(collection)
        self.emit(("list", self.coll_of(collection)), [30] + sorted(self.d.href(n) for n in names))

    def op_move(self, src, dst, ok):
        if getattr(self, "_lk", None) != "w":
            self._lk = "w"
            self.emit(("lock", "w"), [])
        self.emit(("move", src[0], self.d.href(src[1]), dst[0], self.d.href(dst[1])), [40] if ok else [50])

    def op_create(self, collection):
        fp = collection._filesystem_path
        tag = collection.tag
        items = []
        for n in sorted(os.listdir(fp)):
            p = os.path.join(fp, n)
            if is_item_name(n) and os.path.isfile(p):
                f = self.file_of(tag, p)
                d = self.d.table.get(f[0])
                items.append((self.d.href(n), f, 888888 if d is None else d))
        self.emit(("create", self.coll_of(collection), items), [40])

    # ---------------------------------------------------------------- the cache on disk
    def entry_path(self, sub, collpath, name):
        return os.path.join(self.croots[sub], collpath, ".Radicale.cache", "item", name)

    def entries(self):
        """[(sub, collpath, name, path)] of all entry files at final locations."""
        out = []
        for sub, base in sorted(self.croots.items()):
            for root, dirs, files in os.walk(base):
                if ".Radicale.tmp-" in root:
                    continue
                if root.endswith(os.path.join(".Radicale.cache", "item")):
                    collpath = os.path.relpath(root[:-len(os.path.join(".Radicale.cache", "item")) - 1], base)
                    for n in files:
                        if is_item_name(n):
                            out.append((sub, collpath, n, os.path.join(root, n)))
        return sorted(out)

    def entry_code(self, data):
        try:
            t = pickle.loads(data)
        except EOFError:
            return [4]
        except (pickle.UnpicklingError, ValueError):
            return [3]
        try:
            hash_, *rest = t
        except ValueError:
            return [3]
        except TypeError:
            return [4]                 # not a sequence: _load_item_cache raises TypeError, which it does not catch
        if not hash_:
            return [3]
        try:
            did = self.d.did(tuple(rest))
        except TypeError:
            did = 777777
        return self.key_code(hash_) + [did]

    def dump(self):
        keys, code = [], []
        ents = self.entries()
        for sub, collpath, n, p in ents:
            with open(p, "rb") as f:
                data = f.read()
            keys.append((sub, self.d.coll(collpath), self.d.href(n)))
            code += self.entry_code(data)
        self.emit(("dump", keys), [len(ents)] + code)

    def apply_adv_fs(self, a):
        self.harness_write = True
        try:
            self._apply_adv_fs(a)
        finally:
            self.harness_write = False

    def _apply_adv_fs(self, a):
        """Do the manipulation [a] (already in numeric form) on the real folders; names via reverse dictionaries."""
        rc = {v: k for k, v in self.d.colls.items()}
        rh = {v: k for k, v in self.d.hrefs.items()}
        k = a[0]
        if k == "drop":
            with contextlib.suppress(FileNotFoundError):
                os.remove(self.entry_path(a[1], rc[a[2]], rh[a[3]]))
        elif k == "dropcoll":
            base = os.path.join(self.croots[a[1]], rc[a[2]], ".Radicale.cache")
            if a[3:] and a[3] == "item":
                shutil.rmtree(os.path.join(base, "item"), ignore_errors=True)
            else:
                shutil.rmtree(base, ignore_errors=True)
        elif k == "dropall":
            for root, dirs, files in os.walk(self.root):
                for dn in list(dirs):
                    if dn == ".Radicale.cache":
                        shutil.rmtree(os.path.join(root, dn), ignore_errors=True)
                        dirs.remove(dn)
            for sub in (1, 2):
                if os.path.isdir(self.croots[sub]):
                    for n in os.listdir(self.croots[sub]):
                        shutil.rmtree(os.path.join(self.croots[sub], n), ignore_errors=True)
        elif k == "plant":
            p = self.entry_path(a[1], rc[a[2]], rh[a[3]])
            os.makedirs(os.path.dirname(p), exist_ok=True)
            with open(p, "wb") as f:
                f.write(a[5])
        else:
            raise ValueError(a)

    def adv(self, a):
        """Manipulation between requests: on disk and in the script."""
        self.apply_adv_fs(a)
        self.emit(("adv", a), [])

    # ---------------------------------------------------------------- external edit (under the storage lock)
    def ext_edit(self, collpath, tag, name, data, mtime, force=False):
        """Write (data is bytes) or remove (data None) an item file by other means."""
        storage = self.srv.application._storage
        p = os.path.join(self.root, collpath, name)
        if data is not None:
            # the hypothesis of the mtime+size mode: never two different contents with the same size and mtime
            if not force and self.stat_seen.get((len(data), mtime), self.d.content(tag, data)) != self.d.content(tag, data):
                mtime = self.tick()
            self.stat_seen[(len(data), mtime)] = self.d.content(tag, data)
        with storage.acquire_lock("w"):
            if data is None:
                with contextlib.suppress(FileNotFoundError):
                    os.remove(p)
                f = None
            else:
                tmp = p + ".ext~"
                with open(tmp, "wb") as fh:
                    fh.write(data)
                os.utime(tmp, ns=(mtime, mtime))
                os.replace(tmp, p)
                f = (self.d.content(tag, data), len(data), mtime)
        self.emit(("ext", self.d.coll(collpath), self.d.href(name), f), [])

    # ---------------------------------------------------------------- requests
    def request(self, method, path, data=None, **headers):
        CUR[0] = self
        self.tracing = True
        self.req_gets = {}
        self._lk = None
        self.rule_violations = []
        timed = threading.current_thread() is threading.main_thread()
        if timed:
            old_handler = signal.signal(signal.SIGALRM, _alarm)
            signal.setitimer(signal.ITIMER_REAL, REQUEST_TIMEOUT)
        try:
            st, hd, body = self.srv.request(method, path, data=data, login="u:", **headers)
        finally:
            if timed:
                signal.setitimer(signal.ITIMER_REAL, 0)
                signal.signal(signal.SIGALRM, old_handler)
            self.tracing = False
            self.interfere = None
            self.faults["upload"] = None
            if self.cfg.get("cw", 1):
                self.faults["get"] = None
            self.fault_fired = None
            self.cur_get = self.cur_upload = None
        # files written in hash mode get their logical mtime now (nobody has looked at it yet)
        for root, dirs, files in os.walk(self.root):
            for n in sorted(files):
                if is_item_name(n) and ".Radicale" not in root:
                    self.stamp_if_fresh(os.path.join(root, n))
        self.dump()
        return st, hd, body


# ------------------------------------------------------------------------------------------ canonical responses
def canon_response(method, path, st, hd, body):
    ct = hd.get("Content-Type", "")
    out = dict(status=st, etag=hd.get("ETag"), ctype=ct)
    if st == 207:
        try:
            xml = ET.fromstring(body)
            out["body"] = sorted(ET.tostring(r, encoding="unicode") for r in xml)
        except ET.ParseError:
            out["body"] = body.decode("utf-8", "replace")
    elif method == "GET" and path.endswith("/"):
        out["body"] = sorted(body.decode("utf-8", "replace").splitlines())
    else:
        out["body"] = body.decode("utf-8", "replace")
    return out


# ------------------------------------------------------------------------------------------ histories
COLLS = {"u/cal1": "VCALENDAR", "u/cal2": "VCALENDAR", "u/ab1": "VADDRESSBOOK"}
NAMES = {"VCALENDAR": ["a.ics", "b.ics", "c.ics"], "VADDRESSBOOK": ["a.vcf", "b.vcf"]}


# vobject adds DTSTAMP:<now> when it serialises a VEVENT / VTODO that has none: such an object has no derivation that
# is a function of its bytes.  Every file Radicale writes has one (it is added at upload time); ours have one too.
STAMP = "DTSTAMP:20130101T000000Z\r\n"


# Body variants.  0..7: plain objects (0..3 of equal size, 7 a VTODO).  8..: one per clean-up that Radicale applies to
# an uploaded object (item/__init__.py read_components + check_and_sanitize_items) or that vobject applies when it
# re-serialises: the entry written at upload time must equal what a cold derivation of the STORED file gives, on both
# upload paths (PUT of one item, PUT of a whole collection).  This is the assumption `derive` abstracts (op_ok).
NK = 16


def component(tag, uid, k):
    """The VEVENT / VTODO / VCARD block of variant k."""
    if tag == "VADDRESSBOOK":
        fn = ("n%d" % k) if k < 4 else ("a longer name %d" % k if k != 5 else "J\u00fcrgen \u00e9t\u00e9 %d" % k)
        extra = ""
        if k == 8:      # PHOTO given as a data URI
            extra = "PHOTO;ENCODING=b;TYPE=JPEG:data:image/jpeg;base64,QUJDREVGR0g=\r\n"
        elif k == 9:    # control characters in a value
            fn = "ctl\x01\x02 name\x0b"
        elif k == 10:   # folded long line, escaped characters
            extra = "NOTE:" + "x" * 70 + "\r\n " + "y" * 30 + "\\, semi\\; nl\\n end\r\n"
        elif k == 11:   # vCard 4.0 with parameters
            return ("BEGIN:VCARD\r\nVERSION:4.0\r\nUID:%s\r\nFN:v4 %d\r\nEMAIL;TYPE=work:a@b.example\r\n"
                    "TEL;VALUE=uri;TYPE=\"voice,home\":tel:+1-555\r\nEND:VCARD\r\n" % (uid, k))
        elif k == 12:   # quoted-printable 2.1 card
            return ("BEGIN:VCARD\r\nVERSION:2.1\r\nUID:%s\r\nFN;CHARSET=UTF-8;ENCODING=QUOTED-PRINTABLE:J=C3=BCrgen\r\n"
                    "N:J;;;;\r\nEND:VCARD\r\n" % uid)
        elif k == 13:   # PHOTO data URI with other parameter order and lower case
            extra = "PHOTO;TYPE=PNG;ENCODING=b:data:image/png;base64,QUJD\r\n"
        return "BEGIN:VCARD\r\nVERSION:3.0\r\nUID:%s\r\nFN:%s\r\nN:%s;;;;\r\n%sEND:VCARD\r\n" % (uid, fn, fn, extra)
    if k == 7:
        return "BEGIN:VTODO\r\nUID:%s\r\nSUMMARY:todo%d\r\nDUE:20130903T120000Z\r\n%sEND:VTODO\r\n" % (uid, k, STAMP)
    day = 1 + k % 5
    summary = ("s%d" % k) if k < 4 else ("a longer summary %d" % k if k != 5 else "\u00e9t\u00e9 \u00fc %d" % k)   # non-ASCII, in latin-1
    start = "DTSTART:201309%02dT180000Z\r\n" % day
    end = "DTEND:201309%02dT190000Z\r\n" % day
    extra = ""
    if k == 8:          # control characters in a value
        summary = "ctl\x01\x02 summary\x0c\x1f"
    elif k == 9:        # Lightning: DTEND together with DURATION:PT0S
        extra = "DURATION:PT0S\r\n"
    elif k == 10:       # Evolution: EXDATE with VALUE=DATE next to a floating DATE-TIME DTSTART
        start, end = "DTSTART:201309%02dT180000\r\n" % day, "DTEND:201309%02dT190000\r\n" % day
        extra = "RRULE:FREQ=DAILY;COUNT=5\r\nEXDATE;VALUE=DATE:201309%02d\r\n" % (day + 1)
    elif k == 11:       # RDATE with VALUE=DATE next to a UTC DATE-TIME DTSTART
        extra = "RDATE;VALUE=DATE:201309%02d,201309%02d\r\n" % (day + 2, day + 3)
    elif k == 12:       # EXDATE DATE-TIME next to an all-day DTSTART, and RDATE;VALUE=DATE with a TZID DTSTART is left out (needs VTIMEZONE)
        start, end = "DTSTART;VALUE=DATE:201309%02d\r\n" % day, "DTEND;VALUE=DATE:201309%02d\r\n" % (day + 1)
        extra = "RRULE:FREQ=DAILY;COUNT=4\r\nEXDATE:201309%02dT000000Z\r\n" % (day + 1)
    elif k == 13:       # folded long line, escaped characters, parameters with quoting
        extra = ("DESCRIPTION:" + "x" * 66 + "\r\n " + "y" * 40 + "\\, semi\\; nl\\n end\r\n"
                 "ATTENDEE;CN=\"Doe, John\";ROLE=REQ-PARTICIPANT:mailto:j@x.example\r\n")
    elif k == 14:       # VALARM, lower-case property names, X- property with parameter
        extra = "BEGIN:VALARM\r\nACTION:DISPLAY\r\nTRIGGER:-PT15M\r\nDESCRIPTION:r\r\nEND:VALARM\r\nx-foo;x-bar=1:baz\r\ncategories:a,b\r\n"
    elif k == 15:       # DTEND + DURATION:PT0S and EXDATE;VALUE=DATE and control characters together, LF-only line ends later
        summary = "all\x07 quirks"
        extra = "DURATION:PT0S\r\nRRULE:FREQ=DAILY;COUNT=5\r\nEXDATE;VALUE=DATE:201309%02d\r\nRDATE;VALUE=DATE:201309%02d\r\n" % (day + 1, day + 7)
    return "BEGIN:VEVENT\r\nUID:%s\r\nSUMMARY:%s\r\n%s%s%s%sEND:VEVENT\r\n" % (uid, summary, start, end, extra, STAMP)


def item_body(tag, uid, k):
    if tag == "VADDRESSBOOK":
        return component(tag, uid, k)
    body = "BEGIN:VCALENDAR\r\nPRODID:-//verif//EN\r\nVERSION:2.0\r\n" + component(tag, uid, k) + "END:VCALENDAR\r\n"
    return body.replace("\r\n", "\n") if k == 15 else body


def draw_k(rng):
    """Body variant: a third of the uploads carry something Radicale or vobject cleans up."""
    return rng.randrange(8) if rng.random() < 0.65 else rng.randrange(8, NK)


def ext_body(tag, uid, k, size=None):
    """A valid object as some other program would write it; padded to exactly `size` bytes when asked (and possible)."""
    def mk(pad):
        if tag == "VADDRESSBOOK":
            return ("BEGIN:VCARD\r\nVERSION:3.0\r\nUID:%s\r\nFN:ext%d\r\nN:ext%d;;;;\r\nNOTE:%s\r\nEND:VCARD\r\n" % (uid, k, k, pad)).encode(STOCK[0])
        return impl.event(uid, summary=("ext%d" % k) if k % 3 else "ext\u00e9%d" % k, extra="DESCRIPTION:%s\r\n" % pad + STAMP).encode(STOCK[0])
    if size is None:
        return mk("p" * (k % 7))
    base = len(mk(""))
    if size < base or size - base > 40:
        return None
    return mk("q" * (size - base))


def whole_collection(tag, uids, k):
    """Body of a PUT of a whole collection: the objects of variants k, k+1, .. one per uid."""
    comps = "".join(component(tag, u, k if i == 0 else (k + 3 * i) % NK) for i, u in enumerate(uids))
    if tag == "VADDRESSBOOK":
        return comps
    return "BEGIN:VCALENDAR\r\nPRODID:-//verif//EN\r\nVERSION:2.0\r\n" + comps + "END:VCALENDAR\r\n"


PROPFIND = ('<?xml version="1.0"?><D:propfind xmlns:D="DAV:" xmlns:CS="http://calendarserver.org/ns/"><D:prop>'
            '<D:getetag/><D:getcontenttype/><D:getcontentlength/><D:resourcetype/><CS:getctag/></D:prop></D:propfind>')


def multiget(tag, hrefs):
    if tag == "VADDRESSBOOK":
        return ('<?xml version="1.0"?><CR:addressbook-multiget xmlns:D="DAV:" xmlns:CR="urn:ietf:params:xml:ns:carddav"><D:prop>'
                '<D:getetag/><CR:address-data/></D:prop>%s</CR:addressbook-multiget>' % "".join("<D:href>%s</D:href>" % h for h in hrefs))
    return ('<?xml version="1.0"?><C:calendar-multiget xmlns:D="DAV:" xmlns:C="urn:ietf:params:xml:ns:caldav"><D:prop>'
            '<D:getetag/><C:calendar-data/></D:prop>%s</C:calendar-multiget>' % "".join("<D:href>%s</D:href>" % h for h in hrefs))


def query(tag, comp, rng):
    if tag == "VADDRESSBOOK":
        return ('<?xml version="1.0"?><CR:addressbook-query xmlns:D="DAV:" xmlns:CR="urn:ietf:params:xml:ns:carddav"><D:prop>'
                '<D:getetag/><CR:address-data/></D:prop></CR:addressbook-query>')
    tr = '<C:time-range start="%s" end="%s"/>' % rng if rng else ""
    return ('<?xml version="1.0"?><C:calendar-query xmlns:D="DAV:" xmlns:C="urn:ietf:params:xml:ns:caldav"><D:prop>'
            '<D:getetag/><C:calendar-data/></D:prop><C:filter><C:comp-filter name="VCALENDAR"><C:comp-filter name="%s">%s'
            '</C:comp-filter></C:comp-filter></C:filter></C:calendar-query>' % (comp, tr))


def gen_history(rng, n, hash_only=False):
    """A list of request / external-edit descriptions; does not depend on any server state."""
    hist = [("propfind", "u", "0"), ("mk", "u/cal1"), ("mk", "u/cal2"), ("mk", "u/ab1")]
    colls = list(COLLS)

    def name_in(c):
        return rng.choice(NAMES[COLLS[c]])
    # a first population so that later steps have something to act on
    for c in colls:
        for nme in NAMES[COLLS[c]][:2]:
            if rng.random() < 0.8:
                hist.append(("put", c, nme, nme.split(".")[0], draw_k(rng)))
    while len(hist) < n:
        x = rng.random()
        c = rng.choice(colls)
        tag = COLLS[c]
        if x < 0.26:
            nme = name_in(c)
            uid = nme.split(".")[0] if rng.random() < 0.85 else rng.choice("abc")
            if rng.random() < 0.1:
                # the disk is full exactly when upload() writes the cache entry (nothing / half of it reaches the file)
                hist.append(("putfault", c, nme, nme.split(".")[0], draw_k(rng), rng.choice(["before", "partial"])))
                if rng.random() < 0.7:
                    hist.append(("get", c, nme))
                continue
            hist.append(("put", c, nme, uid, draw_k(rng)))
        elif x < 0.36:
            hist.append(("get", c, name_in(c)))
        elif x < 0.45:
            hist.append(("propfind", c, "1"))
        elif x < 0.48:
            hist.append(("propfind", c, "0"))
        elif x < 0.57:
            k = rng.randint(1, 3)
            hist.append(("multiget", c, [rng.choice(NAMES[tag] + ["zz" + NAMES[tag][0][1:]]) for _ in range(k)]))
        elif x < 0.66:
            comp = rng.choice(["VEVENT", "VEVENT", "VTODO"])
            d = rng.randint(1, 5)
            r = rng.choice([None, ("201309%02dT000000Z" % d, "201309%02dT000000Z" % (d + rng.randint(1, 2))),
                            ("201309%02dT180000Z" % d, "201309%02dT190000Z" % d),
                            ("201309%02dT190000Z" % d, "201309%02dT200000Z" % d)])
            hist.append(("query", c, comp, r))
        elif x < 0.76:
            c2 = rng.choice([c, c, rng.choice(colls)])
            hist.append(("move", c, name_in(c), c2, name_in(c2) if COLLS[c2] == tag else rng.choice(NAMES[COLLS[c2]]),
                         rng.choice(["T", "T", "F"])))
        elif x < 0.82:
            hist.append(("delete", c, name_in(c)))
        elif x < 0.845:
            hist.append(("delcoll", c))
            hist.append(("mk", c))
        elif x < 0.895:
            hist.append(("putall", c, rng.sample(["a", "b", "c", "bulk1", "bulk2"] if tag == "VCALENDAR" else ["a", "b", "bulk1"],
                                                 rng.randint(1, 3)), draw_k(rng)))
            if rng.random() < 0.6:
                hist.append(("propfind", c, "1"))
        elif x < 0.905:
            hist.append(("getcoll", c))
        else:
            nme = name_in(c)
            pol = rng.choice(["fresh", "fresh", "same-size", "same-size", "same-mtime", "same-mtime", "mtime+1", "mtime-1",
                              "broken", "remove", "touch", "create"] + (["same-stat"] * 4 if hash_only else []))
            hist.append(("ext", c, nme, pol, rng.randrange(50)))
            if rng.random() < 0.75:
                hist.append(("get", c, nme))
    return hist


def perform(run, d, failures):
    r = _perform(run, d, failures)
    if run.rule_violations:
        failures.append(("cache-entry-opened-for-writing-at-its-final-path", d, run.rule_violations[:2]))
        run.rule_violations = []
    return r


def _perform(run, d, failures):
    """Execute one description on a run; returns the canonical response (None for external edits)."""
    k = d[0]
    if k == "mkcol":
        return _resp(run, "MKCOL", "/%s/" % d[1])
    if k == "mk":
        if COLLS[d[1]] == "VCALENDAR":
            return _resp(run, "MKCALENDAR", "/%s/" % d[1])
        body = ('<?xml version="1.0"?><D:mkcol xmlns:D="DAV:" xmlns:CR="urn:ietf:params:xml:ns:carddav"><D:set><D:prop>'
                '<D:resourcetype><D:collection/><CR:addressbook/></D:resourcetype></D:prop></D:set></D:mkcol>')
        return _resp(run, "MKCOL", "/%s/" % d[1], body)
    if k == "put":
        return _resp(run, "PUT", "/%s/%s" % (d[1], d[2]), item_body(COLLS[d[1]], d[3], d[4]))
    if k == "putfault":
        run.faults["upload"] = dict(where="upload", kind=d[5])
        return _resp(run, "PUT", "/%s/%s" % (d[1], d[2]), item_body(COLLS[d[1]], d[3], d[4]))
    if k == "get":
        r = _resp(run, "GET", "/%s/%s" % (d[1], d[2]))
        check_get(run, d, r, failures)
        return r
    if k == "propfind":
        r = _resp(run, "PROPFIND", "/%s/" % d[1], PROPFIND, HTTP_DEPTH=d[2])
        check_multistatus(run, d, r, failures)
        return r
    if k == "multiget":
        r = _resp(run, "REPORT", "/%s/" % d[1], multiget(COLLS[d[1]], ["/%s/%s" % (d[1], n) for n in d[2]]))
        check_multistatus(run, d, r, failures)
        return r
    if k == "query":
        r = _resp(run, "REPORT", "/%s/" % d[1], query(COLLS[d[1]], d[2], d[3]))
        check_multistatus(run, d, r, failures)
        return r
    if k == "move":
        return _resp(run, "MOVE", "/%s/%s" % (d[1], d[2]), None, HTTP_DESTINATION="http://127.0.0.1/%s/%s" % (d[3], d[4]),
                     HTTP_OVERWRITE=d[5])
    if k == "delete":
        return _resp(run, "DELETE", "/%s/%s" % (d[1], d[2]))
    if k == "delcoll":
        return _resp(run, "DELETE", "/%s/" % d[1])
    if k == "putall":
        return _resp(run, "PUT", "/%s/" % d[1], whole_collection(COLLS[d[1]], d[2], d[3]))
    if k == "getcoll":
        return _resp(run, "GET", "/%s/" % d[1])
    if k == "ext":
        do_ext(run, d)
        return None
    raise ValueError(d)


def _resp(run, method, path, data=None, **headers):
    st, hd, body = run.request(method, path, data=data, **headers)
    r = canon_response(method, path, st, hd, body)
    r["raw"] = body
    return r


def do_ext(run, d):
    _, c, nme, pol, k = d
    tag = COLLS[c]
    p = os.path.join(run.root, c, nme)
    if not os.path.isdir(os.path.dirname(p)):
        return
    exists = os.path.isfile(p)
    uid = nme.split(".")[0]
    if pol == "remove":
        run.ext_edit(c, tag, nme, None, None)
        return
    if pol == "create" and exists:
        pol = "fresh"
    if not exists:
        run.ext_edit(c, tag, nme, ext_body(tag, uid, k), run.tick())
        return
    st = os.stat(p)
    with open(p, "rb") as f:
        old = f.read()
    if pol == "fresh" or pol == "create":
        run.ext_edit(c, tag, nme, ext_body(tag, uid, k), run.tick())
    elif pol == "broken":
        run.ext_edit(c, tag, nme, ("BROKEN %s %d\r\n" % (tag, k)).encode(), run.tick())
    elif pol == "touch":
        run.ext_edit(c, tag, nme, old, run.tick())
    elif pol in ("same-size", "mtime+1", "mtime-1"):
        data = ext_body(tag, uid, k, st.st_size)
        if data is None or data == old:
            data = ext_body(tag, uid, k)
            mt = run.tick()
        else:
            mt = run.tick() if pol == "same-size" else st.st_mtime_ns + (1 if pol == "mtime+1" else -1)
        run.ext_edit(c, tag, nme, data, mt)
    elif pol == "same-stat":
        # only in pairs that never use the mtime+size mode: same size, same mtime_ns, other bytes (rsync -t, cp -p)
        data = ext_body(tag, uid, k, st.st_size)
        if data is None or data == old:
            run.ext_edit(c, tag, nme, ext_body(tag, uid, k), run.tick())
        else:
            run.ext_edit(c, tag, nme, data, st.st_mtime_ns, force=True)
    elif pol == "same-mtime":
        data = ext_body(tag, uid, k)
        if len(data) == st.st_size:
            data = ext_body(tag, uid, k + 1)
        run.ext_edit(c, tag, nme, data, st.st_mtime_ns if len(data) != st.st_size else run.tick())


# ------------------------------------------------------------------------------------------ monitors on one run
def check_get(run, d, r, failures):
    """A GET of an item answers exactly what a cold derivation of the file's current bytes gives (C13_get, stated on
    the implementation), and its body / ETag are those of the storage's _get result."""
    _, c, nme = d
    p = os.path.join(run.root, c, nme)
    tup = None
    if os.path.isfile(p):
        with open(p, "rb") as f:
            tup = cold_derive(COLLS[c], f.read())
    if r["status"] == 200:
        if tup is None:
            failures.append(("get-served-without-valid-file", d, r["status"]))
        elif r["body"] != tup[2] or r["etag"] != tup[1]:
            failures.append(("get-differs-from-cold-derivation", d, dict(served_etag=r["etag"], cold_etag=tup[1],
                                                                        served=r["body"], cold=tup[2])))
        g = run.req_gets.get((c, nme))
        if g is None or g[2] != r["body"] or g[1] != r["etag"]:
            failures.append(("get-http-differs-from-storage-result", d, None))
    elif r["status"] == 404:
        if tup is not None:
            failures.append(("valid-item-not-served", d, r["status"]))
    elif not (r["status"] == 500 and not run.cfg["skip"]):
        failures.append(("unexpected-status", d, r["status"]))


def check_multistatus(run, d, r, failures):
    """Every item in a listing carries the ETag (and data) of the cold derivation of its file."""
    if r["status"] != 207:
        if not (r["status"] == 500 and not run.cfg["skip"]):
            failures.append(("unexpected-status", d, r["status"]))
        return
    c = d[1]
    try:
        ms = impl.parse_multistatus(r["raw"])
    except Exception as e:
        failures.append(("multistatus-unparsable", d, repr(e)))
        return
    for href, props in ms.items():
        nme = href.rstrip("/").split("/")[-1]
        if href.endswith("/") or not isinstance(props, dict):
            continue
        p = os.path.join(run.root, c, nme)
        tup = None
        if os.path.isfile(p):
            with open(p, "rb") as f:
                tup = cold_derive(COLLS[c], f.read())
        et = props.get("D:getetag")
        if et and et[0] == 200:
            if tup is None or et[1].text != tup[1]:
                failures.append(("listing-etag-differs-from-cold-derivation", d, dict(href=href, served=et[1].text,
                                                                                     cold=tup and tup[1])))
        for dk in ("C:calendar-data", "CR:address-data"):
            dv = props.get(dk)
            if dv and dv[0] == 200 and (tup is None or (dv[1].text or "").replace("\r\n", "\n") != tup[2].replace("\r\n", "\n")):
                failures.append(("listing-data-differs-from-cold-derivation", d, dict(href=href)))
    if d[0] in ("propfind",) and d[2] == "1" or d[0] == "query" and COLLS[c] == "VADDRESSBOOK":
        # completeness: every valid item file is listed
        listed = {h.rstrip("/").split("/")[-1] for h in ms if not h.endswith("/")}
        folder = os.path.join(run.root, c)
        for nme in os.listdir(folder) if os.path.isdir(folder) else []:
            p = os.path.join(folder, nme)
            if is_item_name(nme) and os.path.isfile(p):
                with open(p, "rb") as f:
                    ok = cold_derive(COLLS[c], f.read()) is not None
                if ok != (nme in listed):
                    failures.append(("listing-incomplete", d, dict(name=nme, valid=ok, listed=nme in listed)))


# ------------------------------------------------------------------------------------------ manipulations (run B)
GARBAGE = [b"garbage, not a pickle", pickle.dumps(()), pickle.dumps(("",) + (1,) * 7), pickle.dumps([])]


def plant_residue(run, rng):
    """What a process killed inside _atomic_write leaves behind: `.Radicale.tmp-XXXXXXXX/` (empty, or holding a half-written
    file) in a cache folder.  Not an entry (the name is no safe path component): nothing changes in the model."""
    sub = run.cfg["sub"] if rng.random() < 0.8 else rng.randrange(3)
    cands = [cp for cp in COLLS if sub or os.path.isdir(os.path.join(run.root, cp))]
    if not cands:
        return
    cp = rng.choice(cands)
    ns = rng.choice(["item", "item", "item", "history", "sync-token"])
    d = os.path.join(run.croots[sub], cp, ".Radicale.cache", ns,
                     ".Radicale.tmp-" + "".join(rng.choice("abcdefghijklmnopqrstuvwxyz0123456789_") for _ in range(8)))
    os.makedirs(d, exist_ok=True)
    if rng.random() < 0.5:
        with open(os.path.join(d, rng.choice(NAMES[COLLS[cp]])), "wb") as f:
            f.write(pickle.dumps(("half written", 1, 2))[:rng.randrange(1, 12)])


def manipulate(run, rng, pool, counts, nxt=None, hash_only=False):
    """Between two requests of run B: do 1-3 things to the cache / the configuration."""
    for _ in range(rng.choice([1, 1, 2, 3])):
        ents = run.entries()
        if rng.random() < 0.07 and run.cfg.get("cw", 1):
            # the cache location is full / read-only during the next request: entries that are missing can not be written
            run.set_cache_writable(False, rng.choice(["before", "partial"]))
            counts["manip:cache-unwritable-for-next-request"] += 1
            continue
        if rng.random() < 0.12:
            plant_residue(run, rng)
            counts["manip:residue-of-interrupted-atomic-write"] += 1
            continue
        x = rng.random()
        if x < 0.22 and ents:
            sub, cp, n, _p = rng.choice(ents)
            run.adv(("drop", sub, run.d.coll(cp), run.d.href(n)))
            counts["manip:drop-entry"] += 1
        elif x < 0.30:
            cp = rng.choice(list(COLLS))
            run.adv(("dropcoll", rng.randrange(3), run.d.coll(cp), rng.choice(["item", "all"])))
            counts["manip:drop-collection-cache"] += 1
        elif x < 0.37:
            run.adv(("dropall",))
            counts["manip:drop-all"] += 1
        elif x < 0.67:
            sub = run.cfg["sub"] if rng.random() < 0.75 else rng.choice([x for x in (0, 1, 2) if x != run.cfg["sub"]])
            cands = [cp for cp in COLLS if sub or os.path.isdir(os.path.join(run.root, cp))]
            if not cands:
                continue
            cp = rng.choice(cands)
            n = rng.choice(NAMES[COLLS[cp]])
            c, h = run.d.coll(cp), run.d.href(n)
            if rng.random() < 0.15:
                blob = rng.choice(GARBAGE)
                if pool and rng.random() < 0.3:
                    cut = rng.choice(pool)[4]
                    cut = cut[:rng.randrange(len(cut) // 3, len(cut) - 1)]      # a truncated pickle ...
                    if run.entry_code(cut) == [3]:                              # ... of the kind that is swallowed
                        blob = cut
                run.adv(("plant", sub, c, h, [3], blob))
                counts["manip:plant-unreadable"] += 1
                continue
            same = [e for e in pool if (e[1], e[2]) == (c, h)]
            other = [e for e in pool if COLLS.get(e[5]) == COLLS[cp]]
            src = same if same and rng.random() < 0.7 else other
            if not src:
                continue
            e = rng.choice(src)
            run.adv(("plant", sub, c, h, e[3], e[4]))
            counts["manip:plant-older-same-name" if (e[1], e[2]) == (c, h) else "manip:plant-other-name"] += 1
        elif x < 0.77:
            if hash_only:
                continue
            cfg = dict(run.cfg, stat=1 - run.cfg["stat"])
            run.reconfigure(cfg)
            counts["manip:switch-key-mode"] += 1
        elif x < 0.85:
            cfg = dict(run.cfg, sub=rng.choice([x for x in (0, 1, 2) if x != run.cfg["sub"]]))
            run.reconfigure(cfg)
            counts["manip:switch-location"] += 1
        elif x < 0.905:
            cfg = dict(run.cfg, ver=1 - run.cfg["ver"])
            run.reconfigure(cfg)
            counts["manip:switch-cache-version"] += 1
        else:
            # somebody else fills / empties an entry between the first look-up and the re-check of the next read
            cands = []
            for cp in COLLS:
                folder = os.path.join(run.root, cp)
                if os.path.isdir(folder):
                    cands += [(cp, n) for n in sorted(os.listdir(folder))
                              if is_item_name(n) and os.path.isfile(os.path.join(folder, n))]
            # prefer an item the next request is going to read under the shared lock
            if nxt and nxt[0] in ("get", "propfind", "multiget", "query", "getcoll"):
                near = [x for x in cands if x[0] == nxt[1] and (nxt[0] != "get" or x[1] == nxt[2])]
                cands = near or cands
            if not cands:
                continue
            cp, n = rng.choice(cands)
            c, h = run.d.coll(cp), run.d.href(n)
            sub = run.cfg["sub"]
            p = run.entry_path(sub, cp, n)
            advs = []
            if os.path.isfile(p):
                with open(p, "rb") as f:
                    data = f.read()
                run.adv(("drop", sub, c, h))
                if rng.random() < 0.8:
                    advs.append(("plant", sub, c, h, run.entry_code(data), data))
            same = [e for e in pool if (e[1], e[2]) == (c, h)]
            if not advs and same and rng.random() < 0.7:
                e = rng.choice(same)
                advs.append(("plant", sub, c, h, e[3], e[4]))
            run.interfere = dict(c=c, h=h, advs=advs)
            run.pending_interfere = run.interfere
            counts["manip:interfere-registered"] += 1


def snapshot(run, rng, pool):
    for sub, cp, n, p in run.entries():
        if rng.random() < 0.35:
            with open(p, "rb") as f:
                data = f.read()
            code = run.entry_code(data)
            if code[0] in (1, 2):
                pool.append((sub, run.d.coll(cp), run.d.href(n), code, data, cp))
    del pool[:-80]


# ------------------------------------------------------------------------------------------ one pair
def run_pair(seed, length, keep_acts=True):
    """Returns a dict: cases (Gallina input/output text of both runs), failures (monitor), counts, diff."""
    import collections
    rng = random.Random("c13-%d" % seed)
    # a quarter of the pairs never use the mtime+size mode: there "same size, same mtime, other bytes" edits are legal
    hash_only = rng.random() < 0.25
    STOCK[0] = rng.choice(["utf-8", "utf-8", "iso-8859-1", "cp1252"])
    hist = gen_history(rng, length, hash_only)
    base = dict(stat=0 if hash_only else rng.randrange(2), sub=rng.randrange(3), ver=0, skip=1 if rng.random() < 0.8 else 0,
                cw=1, nolock=1 if rng.random() < 0.25 else 0)
    cfg_b = dict(base, stat=0 if hash_only else rng.randrange(2), sub=rng.randrange(3))
    dic = Dict()
    counts = collections.Counter()
    out = dict(seed=seed, failures=[], cases=[], unmodelled=[], base=base, cfg_b=cfg_b, stock=STOCK[0], hash_only=hash_only)
    counts["pair:stock=%s" % STOCK[0]] += 1
    counts["pair:hash-only" if hash_only else "pair:both-modes"] += 1
    resp = {}
    for label in ("A", "B"):
        rb = random.Random("c13-%d-B" % seed)
        run = Run(dic, base if label == "A" else cfg_b, label)
        pool = []
        rs = []
        fails = []
        try:
            for i, d in enumerate(hist):
                if label == "B" and i >= 4 and rb.random() < 0.6:
                    manipulate(run, rb, pool, counts, d, hash_only)
                itf = run.interfere
                # run.request() clears the interference; keep it alive for this request only
                try:
                    r = perform_with_interference(run, d, fails, itf)
                except RequestHang:
                    fails.append(("request-does-not-answer", d, "no answer within %d s" % REQUEST_TIMEOUT))
                    rs.append(dict(status="HANG"))
                    break
                if not run.cfg.get("cw", 1):
                    run.set_cache_writable(True)
                rs.append(None if r is None else {k: v for k, v in r.items() if k != "raw"})
                counts["%s:%s" % ("req" if d[0] != "ext" else "ext", d[0] if d[0] != "ext" else d[3])] += 1
                if r is not None:
                    counts["status:%s" % r["status"]] += 1
                if label == "B":
                    snapshot(run, rb, pool)
            for a, o in zip(run.acts, run.obs):
                if a[0] in ("get", "getat", "upload"):
                    for code, nm in ((10, "hit"), (11, "miss"), (12, "hit-at-recheck"), (14, "clean"), (15, "broken")):
                        if code in o[2 if o[:1] == [1] else 1:]:
                            counts["event:" + nm] += 1
                    if a[0] == "getat":
                        counts["event:interference-applied"] += 1
            out["unmodelled"] += run.unmodelled
            table = sorted(dic.table.items())
            out["cases"].append(dict(label=label, n_acts=len(run.acts), input=g_input((table, run.acts)),
                                     output=g_output(run.obs), acts=[repr(a)[:300] for a in run.acts] if keep_acts else None,
                                     obs=run.obs if keep_acts else None))
            for f in fails:
                out["failures"].append(dict(run=label, kind=f[0], request=f[1], detail=f[2]))
        finally:
            run.close()
        resp[label] = rs
    # the property itself: responses identical between the two runs
    for i, (ra, rb_) in enumerate(zip(resp["A"], resp["B"])):
        if ra != rb_:
            out["failures"].append(dict(run="A/B", kind="responses-differ", request=hist[i], index=i,
                                        detail=dict(A=_short(ra), B=_short(rb_))))
            break
    out["history"] = hist
    out["counts"] = dict(counts)
    return out


def _short(r):
    if r is None:
        return None
    r = dict(r)
    b = r.get("body")
    if isinstance(b, str) and len(b) > 1500:
        r["body"] = b[:1500] + "..."
    if isinstance(b, list) and len(repr(b)) > 3000:
        r["body"] = [x[:400] for x in b[:8]]
    return r


def perform_with_interference(run, d, fails, itf):
    if itf is None or d[0] == "ext":
        run.interfere = None
        return perform(run, d, fails)
    # Run.request() resets `interfere` in its finally clause, so the registration lives for exactly one request
    run.interfere = itf
    return perform(run, d, fails)
