"""C17, concurrency dimension: two (or more) threads inside the real BaseAuth.login under a deterministic scheduler.

* every thread runs the real `login`; a per-thread `sys.settrace` line tracer parks the thread before each line of
  `login` that touches `self._cache_failed`, `self._cache_successful`, `self._lock` or calls `self._login`
  (line table derived from the current source with `ast`), so exactly one thread runs at a time and the controller
  decides who goes next;
* `self._lock` is replaced by a cooperative stand-in with the interface of `threading.Lock` (acquire / release /
  context manager): a thread that finds it taken is parked as *blocked* and is not runnable until the holder releases;
* schedules are enumerated systematically with a bound on the number of preemptions (stateless re-execution), plus
  seeded random schedules;
* required of every schedule: no exception, every thread terminates (nobody left blocked, the lock is free at the
  end), and the users returned equal those of one of the serial orders of the same attempts.

A scenario is a dict
  cfg, t0, creds       as in x_C17
  prefix               list of sequential events ["A", l, p] | ["T", dt] | ["C", creds] run before the threads start
  threads              list of [login, password, clock_offset_ns]  (each thread sees clock = clock after prefix + offset)
"""
import ast
import itertools
import os
import sys
import threading

from vlib import core
from vlib import x_C17 as X

auth = X.auth

WATCH = ("_cache_failed", "_cache_successful", "_lock", "_login")


def yield_lines():
    """(lines, function names): the scheduling points.  In BaseAuth.login: the statements that touch an attribute of self
    that login or one of its callees writes, the lock, or that call a method of self (incl. the back-end `_login`);
    in every BaseAuth method that login (transitively) calls: EVERY line (so a thread can be suspended inside
    `_cache_digest`, between hashlib calls, inside `_sleep_for_constant_exec_time`, ...)."""
    from translate import t_c17
    an = t_c17.class_analysis(core.REPO)
    watch = set(an["written"]) | {"_lock", "_login"} | set(an["methods"])
    lines = set()
    for name, fn in an["methods"].items():
        for st in ast.walk(fn):
            if not isinstance(st, ast.stmt) or st is fn:
                continue
            if name != "login":
                lines.add(st.lineno)
                continue
            if isinstance(st, (ast.If, ast.While)):
                parts = [st.test]
            elif isinstance(st, ast.For):
                parts = [st.iter, st.target]
            elif isinstance(st, ast.With):
                parts = [i.context_expr for i in st.items]
            elif isinstance(st, (ast.Try, ast.FunctionDef)):
                parts = []
            else:
                parts = [st]
            for p in parts:
                for sub in ast.walk(p):
                    if isinstance(sub, ast.Attribute) and sub.attr in watch and isinstance(sub.value, ast.Name) \
                            and sub.value.id == "self":
                        lines.add(st.lineno)
    return lines, set(an["methods"])


class Hang(Exception):
    pass


class CoopLock:
    """threading.Lock stand-in; blocking is reported to the scheduler instead of blocking the OS thread."""

    def __init__(self, sched):
        self.sched = sched
        self.owner = None
        self.held = False

    def acquire(self, blocking=True, timeout=-1):
        tid = self.sched.current
        while self.held:
            if not blocking:
                return False
            if tid is None:
                raise Hang("sequential login blocks on the cache lock")
            self.sched.park(tid, blocked_on=self)
        self.owner = tid
        self.held = True
        return True

    def release(self):
        if not self.held:
            raise RuntimeError("release unlocked lock")
        self.owner = None
        self.held = False

    def locked(self):
        return self.held

    def __enter__(self):
        self.acquire()
        return True

    def __exit__(self, *a):
        self.release()
        return False


class Sched:
    """Runs the worker threads one at a time.  `choose(runnable, step, current)` picks the next thread."""

    def __init__(self, lines, code, timeout=5.0):
        self.lines, self.funcs = lines
        self.code = code
        self.filename = code.co_filename
        self.timeout = timeout
        self.current = None
        self.sems = {}
        self.ctl = threading.Semaphore(0)
        self.state = {}          # tid -> "ready" | "blocked" | "done"
        self.blocked_on = {}
        self.where = {}
        self.results = {}
        self.trace = []          # (tid, line) in execution order
        self.dead = False

    # ---- worker side
    def park(self, tid, blocked_on=None, line=None):
        if blocked_on is not None:
            self.state[tid] = "blocked"
            self.blocked_on[tid] = blocked_on
        else:
            self.state[tid] = "ready"
        self.where[tid] = line
        self.ctl.release()
        if not self.sems[tid].acquire(timeout=self.timeout * 4):
            raise Hang("worker %d abandoned" % tid)
        if self.dead:
            raise Hang("worker %d released at shutdown" % tid)
        self.state[tid] = "running"
        self.blocked_on.pop(tid, None)

    def tracer(self, tid):
        def local(frame, event, arg):
            if event == "line" and frame.f_lineno in self.lines:
                self.trace.append((tid, frame.f_lineno))
                self.park(tid, line=frame.f_lineno)
            return local

        def glob(frame, event, arg):
            if event == "call" and frame.f_code.co_filename == self.filename and frame.f_code.co_name in self.funcs:
                return local
            return None
        return glob

    def worker(self, tid, fn):
        self.sems[tid].acquire()
        self.state[tid] = "running"
        sys.settrace(self.tracer(tid))
        try:
            try:
                self.results[tid] = ("ret", fn())
            except Hang:
                self.results[tid] = ("hang", "")
            except BaseException as e:  # noqa: BLE001
                self.results[tid] = ("raise", type(e).__name__)
        finally:
            sys.settrace(None)
            self.state[tid] = "done"
            self.ctl.release()

    # ---- controller side
    def run(self, fns, choose):
        threads = []
        for tid, fn in enumerate(fns):
            self.sems[tid] = threading.Semaphore(0)
            self.state[tid] = "ready"
            t = threading.Thread(target=self.worker, args=(tid, fn), daemon=True)
            threads.append(t)
            t.start()
        choices = []         # (chosen, runnable tuple, previous) per step
        prev = None
        outcome = "ok"
        while True:
            runnable = [t for t in sorted(self.state) if self.state[t] == "ready"
                        or (self.state[t] == "blocked" and not self.blocked_on[t].locked())]
            if not runnable:
                if all(s == "done" for s in self.state.values()):
                    break
                outcome = "deadlock"
                break
            nxt = choose(tuple(runnable), len(choices), prev)
            choices.append((nxt, tuple(runnable), prev))
            prev = nxt
            self.current = nxt
            self.sems[nxt].release()
            if not self.ctl.acquire(timeout=self.timeout):
                outcome = "timeout"
                break
        # shut down whatever is still parked
        self.dead = True
        for tid, s in self.state.items():
            if s != "done":
                self.results.setdefault(tid, ("hang", "blocked at line %s" % self.where.get(tid)))
                self.sems[tid].release()
        for t in threads:
            t.join(timeout=1.0)
        return outcome, choices


def prepare(scn):
    """Fresh auth object with the prefix history applied sequentially; returns (auth, clock)."""
    case = dict(cfg=scn["cfg"], t0=scn["t0"], creds=scn["creds"], events=[])
    a, clock = X.make_auth(case)
    for ev in scn["prefix"]:
        if ev[0] == "A":
            try:
                a.login(ev[1], ev[2])
            except Exception:  # noqa: BLE001  (sequential defects are the sequential monitor's business)
                pass
        elif ev[0] == "T":
            clock.t += ev[1]
        else:
            a.table = [tuple(r) for r in ev[1]]
    return a, clock


class ThreadClock:
    """The `time` stand-in during the concurrent phase: per-thread offsets."""

    def __init__(self, base, sched, offsets):
        self.base, self.sched, self.offsets = base, sched, offsets

    reads = 0

    def time_ns(self):
        cur = self.sched.current if self.sched is not None else None
        return self.base + (self.offsets[cur] if cur is not None and cur < len(self.offsets) else 0)

    def time(self):
        return self.time_ns() / 1e9

    def sleep(self, x):
        pass


def serial_results(scn):
    """Users returned when the threads' attempts run one after the other, for every order."""
    out = {}
    n = len(scn["threads"])
    for order in itertools.permutations(range(n)):
        a, clock = prepare(scn)
        base = clock.t
        res = [None] * n
        try:
            for i in order:
                l, p, off = scn["threads"][i]
                clock.t = base + off
                try:
                    res[i] = ("ret", a.login(l, p)[0])
                except Exception as e:  # noqa: BLE001
                    res[i] = ("raise", type(e).__name__)
        finally:
            restore_time()
        out[order] = tuple(res)
    return out


def restore_time():
    import time as real_time
    auth.time = real_time


def run_schedule(scn, lines, choose):
    """One execution of the scenario under the scheduler.  Returns dict(outcome, results, choices, lock_left_held)."""
    a, clock = prepare(scn)
    try:
        code = type(a).login.__code__
        sched = Sched(lines, code)
        lock = CoopLock(sched)
        a._lock = lock
        auth.time = ThreadClock(clock.t, sched, [t[2] for t in scn["threads"]])
        fns = [(lambda l=l, p=p: a.login(l, p)[0]) for l, p, _ in scn["threads"]]
        ncalls0 = len(a.calls)
        outcome, choices = sched.run(fns, choose)
        results = tuple(sched.results.get(i, ("hang", "")) for i in range(len(fns)))
        rec = dict(outcome=outcome, results=results, choices=choices, lock_left_held=lock.locked(), trace=list(sched.trace))
        # follow-up logins, sequentially, after the racing threads: the damage of a race may only show later
        rec["followups"] = []
        if outcome == "ok" and not lock.locked() and all(r[0] == "ret" for r in results):
            sched.current = None
            now = clock.t + max([t[2] for t in scn["threads"]] + [0])
            auth.time = ThreadClock(now, None, [])
            seen = []
            for l, p in [tuple(t[:2]) for t in scn["threads"]] + [tuple(f) for f in scn.get("followups", [])]:
                if (l, p) in seen:
                    continue
                seen.append((l, p))
                nc = len(a.calls)
                try:
                    out = ("ret", a.login(l, p)[0])
                except Exception as e:  # noqa: BLE001
                    out = ("raise", type(e).__name__)
                rec["followups"].append(dict(login=l, pw=p, out=out, now=now, own_calls=a.calls[nc:], earlier_calls=a.calls[:nc]))
        rec["thread_calls"] = a.calls[ncalls0:]
        rec["all_calls"] = list(a.calls)
        rec["base"] = clock.t
        return rec
    finally:
        restore_time()


def nonpreemptive(prefix):
    """Follow `prefix` (list of thread ids), afterwards keep running the previous thread while it is runnable."""
    def choose(runnable, step, prev):
        if step < len(prefix) and prefix[step] in runnable:
            return prefix[step]
        if prev in runnable:
            return prev
        return runnable[0]
    return choose


def explore(scn, lines, max_preemptions, budget=4000):
    """All schedules with at most `max_preemptions` preemptions (switching away from a thread that could continue),
    by re-execution.  Yields (schedule prefix, execution record)."""
    seen = set()
    todo = [((), 0)]
    n = 0
    while todo and n < budget:
        todo.sort(key=lambda x: x[1])            # fewest preemptions first
        prefix, used = todo.pop(0)
        rec = run_schedule(scn, lines, nonpreemptive(list(prefix)))
        n += 1
        taken = tuple(c[0] for c in rec["choices"])
        if taken in seen:
            continue
        seen.add(taken)
        yield taken, rec
        # children: deviate at a step at or after len(prefix)
        for i in range(len(prefix), len(rec["choices"])):
            chosen, runnable, prev = rec["choices"][i]
            for alt in runnable:
                if alt == chosen:
                    continue
                cost = 1 if (prev in runnable and alt != prev) else 0
                if used + cost <= max_preemptions:
                    todo.append((taken[:i] + (alt,), used + cost))


def judge(scn, rec, serial):
    """None, or (rule, text)."""
    for i, r in enumerate(rec["results"]):
        if r[0] == "raise":
            return ("concurrent-never-raises", "thread %d login(%r, %r) raised %s%s" % (
                i, scn["threads"][i][0], scn["threads"][i][1], r[1],
                " and left the cache lock held: every later login blocks" if rec["lock_left_held"] else ""))
    if rec["outcome"] != "ok" or any(r[0] == "hang" for r in rec["results"]):
        return ("concurrent-terminates", "threads do not all terminate (%s): %r" % (rec["outcome"], rec["results"]))
    if rec["lock_left_held"]:
        return ("concurrent-lock-released", "the cache lock is still held after all threads finished: every later login blocks")
    # every answer -- of the racing logins and of the follow-up logins after them -- must be backed by a verdict of the
    # back-end for the same (mapped) login and password: its own call, or one within the respective lifetime
    cfg = scn["cfg"]
    if X.cache_enabled(cfg):
        for i, r in enumerate(rec["results"]):
            l, p, off = scn["threads"][i]
            why = unjustified(cfg, X.map_login_spec(cfg, l), p, r[1], rec["base"] + off, rec["all_calls"], [])
            if why:
                return ("concurrent-justified", "thread %d login(%r, %r) -> %r: %s" % (i, l, p, r[1], why))
        for f in rec.get("followups", []):
            if f["out"][0] == "raise":
                return ("followup-never-raises", "after the concurrent logins, login(%r, %r) raised %s" % (f["login"], f["pw"], f["out"][1]))
            why = unjustified(cfg, X.map_login_spec(cfg, f["login"]), f["pw"], f["out"][1], f["now"], f["earlier_calls"], f["own_calls"])
            if why:
                return ("followup-justified", "after the concurrent logins %r finished, login(%r, %r) -> %r: %s" % (
                    [t[:2] for t in scn["threads"]], f["login"], f["pw"], f["out"][1], why))
    if rec["results"] not in set(serial.values()):
        return ("concurrent-serializable", "users returned %r equal no serial order (%s)" % (
            rec["results"], "; ".join("%s -> %r" % (o, r) for o, r in serial.items())))
    return None


def unjustified(cfg, m, pw, user, now, earlier, own):
    """None when the answer `user` for (m, pw) at clock `now` is backed by a back-end call: one of `own`, or one of
    `earlier` (which, for a racing thread, includes the calls of the other threads) within the lifetime."""
    life = cfg["exp_s"] if user != "" else cfg["exp_f"]
    if any(c[1] == m and c[2] == pw and c[3] == user for c in own):
        return None
    if any(c[1] == m and c[2] == pw and c[3] == user and X.age_spec(now, c[0]) <= life for c in earlier):
        return None
    return "the back-end never %s (%r, %r) now or within %d s" % (
        "answered %r for" % user if user != "" else "rejected", m, pw, life)


def check_scenario(scn, lines, max_preemptions, rng=None, n_random=0, budget=4000):
    """Returns (executions, None | dict(rule, text, schedule, results))."""
    serial = serial_results(scn)
    n = 0
    for taken, rec in explore(scn, lines, max_preemptions, budget):
        n += 1
        bad = judge(scn, rec, serial)
        if bad:
            return n, dict(rule=bad[0], text=bad[1], schedule=list(taken), results=rec["results"], trace=rec["trace"],
                           followups=[(f["login"], f["pw"], f["out"]) for f in rec.get("followups", [])])
    for _ in range(n_random):
        picks = []

        def choose(runnable, step, prev, picks=picks):
            c = rng.choice(runnable)
            picks.append(c)
            return c
        rec = run_schedule(scn, lines, choose)
        n += 1
        bad = judge(scn, rec, serial)
        if bad:
            return n, dict(rule=bad[0], text=bad[1], schedule=picks, results=rec["results"], trace=rec["trace"],
                           followups=[(f["login"], f["pw"], f["out"]) for f in rec.get("followups", [])])
    return n, None


def replay_schedule(scn, schedule):
    lines = yield_lines()
    rec = run_schedule(scn, lines, nonpreemptive(list(schedule)))
    return rec, judge(scn, rec, serial_results(scn))
