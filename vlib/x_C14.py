"""C14 helpers: an independent RFC 5545 / RFC 6350 content-line parser (no vobject, no radicale code), the
generator grammar for calendar objects and contacts, the reference statement of the documented clean-ups and
the value-equivalence used by the monitors.

Vocabulary
  cl      parsed content line: (group|None, NAME, params, value) with params = tuple of (PNAME, tuple(values))
  tree    (NAME, [cl, ...], [tree, ...])
  facts   multiset (collections.Counter) of (component path, NAME, params-as-sorted-tuple, value)
"""
import collections
import re

# ==============================================================================================================
# independent parser
# ==============================================================================================================


class IParseError(Exception):
    pass


def unfold(text):
    """RFC 5545 3.1: remove every line break (CRLF or bare LF) that is followed by one SPACE or HTAB; split."""
    out, cur, i, n = [], [], 0, len(text)
    while i < n:
        c = text[i]
        if c == "\r" and i + 1 < n and text[i + 1] == "\n":
            brk = 2
        elif c == "\n":
            brk = 1
        else:
            cur.append(c)
            i += 1
            continue
        if i + brk < n and text[i + brk] in " \t":
            i += brk + 1
            continue
        out.append("".join(cur))
        cur = []
        i += brk
    if cur:
        out.append("".join(cur))
    return [l for l in out if l != ""]


NAME_CHARS = set("ABCDEFGHIJKLMNOPQRSTUVWXYZabcdefghijklmnopqrstuvwxyz0123456789-_")


def parse_line(line):
    """[group "."] name *(";" pname ["=" pvalue *("," pvalue)]) ":" value"""
    i, n = 0, len(line)
    while i < n and line[i] in NAME_CHARS:
        i += 1
    group = None
    if i < n and line[i] == "." and i > 0:
        group = line[:i]
        j = i = i + 1
        while i < n and line[i] in NAME_CHARS:
            i += 1
        name = line[j:i]
    else:
        name = line[:i]
    if not name:
        raise IParseError("no property name: %r" % line[:40])
    params = []
    while i < n and line[i] == ";":
        i += 1
        j = i
        while i < n and line[i] in NAME_CHARS:
            i += 1
        pname = line[j:i]
        if not pname:
            raise IParseError("empty parameter name: %r" % line[:60])
        vals = []
        if i < n and line[i] == "=":
            while True:
                i += 1  # skip '=' or ','
                if i < n and line[i] == '"':
                    j = i + 1
                    k = line.find('"', j)
                    if k < 0:
                        raise IParseError("unterminated quoted parameter value")
                    vals.append(line[j:k])
                    i = k + 1
                else:
                    j = i
                    while i < n and line[i] not in '";:,':
                        i += 1
                    vals.append(line[j:i])
                if i < n and line[i] == ",":
                    continue
                break
        params.append((pname.upper(), tuple(vals)))
    if i >= n or line[i] != ":":
        raise IParseError("no ':' after name/parameters: %r" % line[:60])
    return (group, name.upper().replace("_", "-"), tuple(params), line[i + 1:])


def parse_tree(text):
    """List of top-level component trees."""
    stack, tops = [], []
    for l in unfold(text):
        g, name, params, value = parse_line(l)
        if name == "BEGIN":
            stack.append((value.upper(), [], []))
        elif name == "END":
            if not stack or stack[-1][0] != value.upper():
                raise IParseError("END:%s does not match" % value)
            t = stack.pop()
            (stack[-1][2] if stack else tops).append(t)
        else:
            if not stack:
                raise IParseError("content line outside component")
            stack[-1][1].append((g, name, params, value))
    if stack:
        raise IParseError("component %s not closed" % stack[-1][0])
    return tops


def norm_params(params):
    """Parameters as a canonical sorted tuple: names upper-case, values of equal names merged in order."""
    d = collections.OrderedDict()
    for k, vs in params:
        d.setdefault(k.upper(), []).extend(vs)
    return tuple(sorted((k, tuple(v)) for k, v in d.items()))


# ---- value equivalence -------------------------------------------------------------------------------------
def unescape_text(v):
    """RFC 5545 3.3.11 / RFC 6350 3.4 TEXT unescaping (\\\\ \\; \\, \\n \\N); other backslashes stay."""
    out, i = [], 0
    while i < len(v):
        if v[i] == "\\" and i + 1 < len(v) and v[i + 1] in "\\;,nN":
            out.append("\n" if v[i + 1] in "nN" else v[i + 1])
            i += 2
        else:
            out.append(v[i])
            i += 1
    return "".join(out)


def split_unescaped(v, sep):
    out, cur, i = [], [], 0
    while i < len(v):
        if v[i] == "\\" and i + 1 < len(v):
            cur.append(v[i:i + 2])
            i += 2
        elif v[i] == sep:
            out.append("".join(cur))
            cur = []
            i += 1
        else:
            cur.append(v[i])
            i += 1
    out.append("".join(cur))
    return out


DUR_RE = re.compile(r"^([+-]?)P(?:(\d+)W)?(?:(\d+)D)?(?:T(?:(\d+)H)?(?:(\d+)M)?(?:(\d+)S)?)?$")


def duration_seconds(v):
    m = DUR_RE.match(v.strip().upper())
    if not m or v.strip().upper() in ("P", "+P", "-P") or v.strip().upper().endswith("T"):
        return None
    sign, w, d, h, mi, s = m.groups()
    tot = int(w or 0) * 604800 + int(d or 0) * 86400 + int(h or 0) * 3600 + int(mi or 0) * 60 + int(s or 0)
    return -tot if sign == "-" else tot


RAW_TYPED = {"DTSTART", "DTEND", "DUE", "DTSTAMP", "CREATED", "LAST-MODIFIED", "COMPLETED", "RECURRENCE-ID", "EXDATE", "RDATE",
             "RRULE", "EXRULE", "ATTACH", "ATTENDEE", "ORGANIZER", "URL", "GEO", "PRIORITY", "SEQUENCE", "VERSION", "TZID",
             "TZURL", "REPEAT", "PERCENT-COMPLETE", "TZOFFSETFROM", "TZOFFSETTO", "FREEBUSY"}
STRUCTURED = {"N": 5, "ADR": 7}


def value_key(path, name, params, value):
    """Canonical representative of a value under the equivalences the property allows: TEXT escapes (\\N = \\n),
    durations by length, trailing empty components of N / ADR.  Everything else: the value itself."""
    base = name.split(".")[-1]
    comp = path[-1] if path else ""
    if base in ("DURATION",) or (base == "TRIGGER" and not any(k == "VALUE" and [x.upper() for x in v] == ["DATE-TIME"] for k, v in params)):
        s = duration_seconds(value)
        if s is not None:
            return ("dur", s)
    if comp == "VCARD" and base in STRUCTURED:
        fields = [tuple(unescape_text(x) for x in split_unescaped(f, ",")) for f in split_unescaped(value, ";")]
        while len(fields) < STRUCTURED[base]:
            fields.append(("",))
        while len(fields) > STRUCTURED[base] and fields[-1] == ("",):
            fields.pop()
        return ("struct", tuple(fields))
    if comp == "VCARD" and base == "ORG":
        return ("struct", tuple(unescape_text(x) for x in split_unescaped(value, ";")))
    if base in RAW_TYPED or any(k == "ENCODING" for k, _ in params):
        return value
    return ("text", unescape_text(value))


def facts(text, equiv=True):
    """Multiset of (path, name, params, value) over all top-level components of `text`."""
    out = collections.Counter()
    for t in parse_tree(text):
        facts_tree(t, (), out, equiv)
    return out


def facts_tree(t, path, out, equiv=True):
    name, lines, subs = t
    p = path + (name,)
    out[(p, "<begin>", (), "")] += 1
    for g, n, params, value in lines:
        np_ = norm_params(params)
        full = (g.upper() + "." if g else "") + n
        out[(p, full, np_, value_key(p, full, np_, value) if equiv else value)] += 1
    for s in subs:
        facts_tree(s, p, out, equiv)
    return out


def diff_facts(a, b, limit=6):
    only_a = list((a - b).elements())
    only_b = list((b - a).elements())
    return dict(missing=[repr(x) for x in only_a[:limit]], extra=[repr(x) for x in only_b[:limit]],
                n_missing=len(only_a), n_extra=len(only_b))


def tree_text(t, eol="\r\n"):
    name, lines, subs = t
    out = ["BEGIN:" + name]
    for g, n, params, v in lines:
        out.append(render_line(g, n, params, v))
    body = eol.join(out) + eol
    for s in subs:
        body += tree_text(s, eol)
    return body + "END:" + name + eol


def render_param_value(v, force_quote=False):
    return '"%s"' % v if (force_quote or any(c in v for c in ',;:')) else v


def render_line(g, n, params, v, quote_all=False):
    return "%s%s%s:%s" % ((g + "." if g else ""), n, "".join(
        ";%s=%s" % (k, ",".join(render_param_value(x, quote_all) for x in vs)) for k, vs in params), v)


# ==============================================================================================================
# the documented clean-ups, stated on the independent representation (reference for the monitor)
# ==============================================================================================================
CTRL_RE = re.compile(r"[\x00-\x08\x0B\x0C\x0E-\x1F]")
DATE_RE = re.compile(r"^\d{8}$")
DT_RE = re.compile(r"^(\d{8})T(\d{6})(Z?)$")


def strip_controls(text):
    return CTRL_RE.sub("", text)


def pget(params, name):
    for k, vs in params:
        if k.upper() == name:
            return vs
    return None


def pdel(params, name):
    return tuple((k, vs) for k, vs in params if k.upper() != name)


def clean_tree(t):
    """Expected effect of the documented clean-ups on one parsed object (control characters are stripped on the
    text before parsing: strip_controls)."""
    name, lines, subs = t
    lines = list(lines)
    if name in ("VEVENT", "VTODO", "VJOURNAL"):
        names = [n for _, n, _, _ in lines]
        if "DTEND" in names and "DURATION" in names:
            durs = [l for l in lines if l[1] == "DURATION"]
            if duration_seconds(durs[0][3]) == 0:
                lines = [l for l in lines if l[1] != "DURATION"]
        dts = [l for l in lines if l[1] == "DTSTART"]
        if dts:
            _, _, dparams, dval = dts[0]
            d_is_date = bool(DATE_RE.match(dval))
            dvalue_param = pget(dparams, "VALUE")
            dtz = pget(dparams, "TZID")
            new = []
            for l in lines:
                g, n, params, v = l
                if n in ("EXDATE", "RDATE") and v != "":
                    vp = (pget(params, "VALUE") or ("DATE-TIME",))[0].upper()
                    if vp in ("DATE", "DATE-TIME") and (vp == "DATE") != d_is_date:
                        vals = v.split(",")
                        if d_is_date:
                            vals = [x[:8] for x in vals]
                        else:
                            m = DT_RE.match(dval)
                            vals = [x[:8] + "T" + m.group(2) + m.group(3) for x in vals]
                        params = pdel(params, "VALUE")
                        if dvalue_param is not None:
                            params = params + (("VALUE", tuple(dvalue_param)),)
                        elif d_is_date:
                            params = params + (("VALUE", ("DATE",)),)
                        if not d_is_date and dtz:
                            params = pdel(params, "TZID") + (("TZID", tuple(dtz)),)
                        l = (g, n, params, ",".join(vals))
                new.append(l)
            lines = new
    if name == "VCARD":
        new = []
        for g, n, params, v in lines:
            if n == "PHOTO" and not g:
                enc = pget(params, "ENCODING")
                if enc and [e.lower() for e in enc] == ["b"]:
                    v = re.sub(r"^data:[^;,\r\n]*;base64,", "", v, flags=re.I)
            new.append((g, n, params, v))
        lines = new
    return (name, lines, [clean_tree(s) for s in subs])


def expected_facts(upload_text):
    """What the server must return for an accepted upload: the upload's facts modulo the documented clean-ups."""
    out = collections.Counter()
    for t in parse_tree(strip_controls(upload_text)):
        facts_tree(clean_tree(t), (), out)
    return out


# ==============================================================================================================
# generator grammar
# ==============================================================================================================
LATIN = "abcdefghijklmnopqrstuvwxyzABCDEFGHIJKLMNOPQRSTUVWXYZ0123456789"
WORDS = ["meeting", "Réunion", "Besprechung", "собрание", "会議", "lunch", "déjeuner", "call", "review", "Zürich", "São Paulo",
         "naïve", "café", "日本語テキスト", "ελληνικά", "עברית", "emoji 😀 ok", "tab\there", "x" * 30, "a b  c", "№ 5", "“quoted”", "it's",
         "q\"dq\"", "colon: here", "eq=sign", "100%", "(paren)", "<tag>", "&amp;", "back`tick", "pipe|", "^caret", "~tilde", "#hash", "@at",
         "semi; colon", "comma, sep", "back\\slash", "new\nline", "two\n\nlines", "trail ", " lead",
         # characters at which str.splitlines() breaks but which are ordinary characters of a content line
         # (only CRLF ends a line; VT FF FS GS RS are removed by the control-character clean-up, these three are not)
         "line\u2028sep", "para\u2029sep", "nel\u0085here"]


class Gen:
    """Generator grammar for calendar objects and contacts.  Every random choice comes from `rng`."""

    def __init__(self, rng, canonical=False):
        self.rng = rng
        self.canonical = canonical      # only canonical value forms (byte-exact correspondence stream)
        self.features = collections.Counter()

    # ---- atoms
    def pick(self, seq):
        return seq[self.rng.randrange(len(seq))]

    def chance(self, p):
        return self.rng.random() < p

    def ident(self, n=None):
        return "".join(self.pick(LATIN) for _ in range(n or self.rng.randint(3, 12)))

    def text(self, maxwords=6, allow_nl=True):
        """A decoded TEXT value."""
        n = self.rng.choice([0, 1, 1, 2, 3, maxwords, maxwords * 3]) if self.chance(0.9) else 40
        ws = [self.pick(WORDS) for _ in range(n)]
        s = " ".join(ws)
        if not allow_nl:
            s = s.replace("\n", " ")
        return s

    def esc(self, s):
        """RFC TEXT escaping of a decoded value; newline as \\n (or \\N sometimes outside canonical mode)."""
        nl = "\\n" if (self.canonical or self.chance(0.8)) else "\\N"
        if nl == "\\N":
            self.features["escape:\\N"] += 1
        return s.replace("\\", "\\\\").replace(";", "\\;").replace(",", "\\,").replace("\r\n", nl).replace("\n", nl)

    def etext(self, **kw):
        t = self.text(**kw)
        for c, f in ((",", "escape:,"), (";", "escape:;"), ("\\", "escape:\\"), ("\n", "escape:nl")):
            if c in t:
                self.features[f] += 1
        if any(ord(c) > 127 for c in t):
            self.features["non-ascii"] += 1
        return self.esc(t)

    def pvalue(self):
        """A parameter value (no DQUOTE, no control characters); sometimes needing quotes."""
        c = self.rng.random()
        if c < 0.5:
            return self.ident()
        if c < 0.7:
            self.features["param:quoted"] += 1
            return self.pick(["Doe, John", "a;b", "mailto:x@example.org", "cid:part1@example.org", "http://x/y?a=1,2;b", "Zürich, CH",
                              "a:b", "x, y; z: w"])
        if c < 0.85:
            return self.pick(["en", "fr-CA", "de", "TEXT", "text/html", "REQ-PARTICIPANT", "TRUE", "INDIVIDUAL", "été", "日本"])
        return self.ident() + " " + self.ident()

    def xparams(self, n=None):
        out = []
        for _ in range(self.rng.choice([0, 0, 1, 1, 2, 3]) if n is None else n):
            k = "X-" + self.ident(4).upper()
            vs = [self.pvalue() for _ in range(self.rng.choice([1, 1, 1, 2, 3]))]
            if len(vs) > 1:
                self.features["param:multi"] += 1
            out.append((k, tuple(vs)))
        return out

    def date(self):
        return "%04d%02d%02d" % (self.rng.randint(1990, 2035), self.rng.randint(1, 12), self.rng.randint(1, 28))

    def time(self):
        return "%02d%02d%02d" % (self.rng.randint(0, 23), self.rng.randint(0, 59), self.rng.choice([0, 0, 30, 59]))

    def duration(self, positive=True):
        if self.canonical:
            # vobject's own form: P[nD][T[nH][nM][nS]] with no zero parts, never weeks
            d, h, m, s = self.rng.choice([0, 0, 1, 2, 10]), self.rng.choice([0, 1, 5, 23]), self.rng.choice([0, 15, 30, 59]), self.rng.choice([0, 0, 30])
            if d + h + m + s == 0:
                h = 1
            out = "P" + ("%dD" % d if d else "")
            if h or m or s:
                out += "T" + ("%dH" % h if h else "") + ("%dM" % m if m else "") + ("%dS" % s if s else "")
            return out
        self.features["duration:non-canonical"] += 1
        return self.pick(["PT60M", "P1W", "PT1H", "P1DT0H0M0S", "PT90M", "P2W", "PT3600S", "P1DT12H", "PT15M", "PT0H30M"])

    def zero_duration(self):
        self.features["duration:zero-without-dtend"] += 1
        return "PT0S" if self.canonical else self.pick(["PT0S", "P0D", "PT0M", "PT0H0M0S", "-PT0S", "P0W"])

    # ---- VTIMEZONE
    def vtimezone(self, tzid):
        self.features["component:VTIMEZONE"] += 1
        off1, off2 = self.pick([("+0100", "+0200"), ("-0500", "-0400"), ("+0930", "+1030"), ("-0330", "-0230"), ("+0300", "+0400")])
        # (no zone with standard offset +0000: vobject treats a zone equal to UTC as "no TZID", which changes what the
        #  EXDATE clean-up writes -- value-level semantics outside the model, see notes/C14.md)
        subs = []
        std = [(None, "DTSTART", (), "%04d1025T030000" % self.rng.choice([1970, 1996, 2007])), (None, "TZOFFSETFROM", (), off2),
               (None, "TZOFFSETTO", (), off1), (None, "TZNAME", (), self.pick(["CET", "EST", "STD", "GMT"]))]
        if self.chance(0.8):
            std.append((None, "RRULE", (), "FREQ=YEARLY;BYDAY=-1SU;BYMONTH=10"))
        subs.append(("STANDARD", std, []))
        if self.chance(0.8):
            dl = [(None, "DTSTART", (), "%04d0329T020000" % self.rng.choice([1970, 1996, 2007])), (None, "TZOFFSETFROM", (), off1),
                  (None, "TZOFFSETTO", (), off2), (None, "TZNAME", (), self.pick(["CEST", "EDT", "DST", "BST"]))]
            if self.chance(0.8):
                dl.append((None, "RRULE", (), "FREQ=YEARLY;BYDAY=-1SU;BYMONTH=3"))
            subs.append(("DAYLIGHT", dl, []))
        lines = [(None, "TZID", (), tzid)]
        if self.chance(0.2):
            lines.append((None, "X-LIC-LOCATION", (), tzid.replace(",", "").replace(";", "")))
        return ("VTIMEZONE", lines, subs)

    def tzid(self):
        c = self.rng.random()
        if c < 0.6:
            return self.pick(["Zone/A", "Zone/B", "Custom/Paris", "Local-1", "My Zone"]) + self.ident(3)
        if c < 0.8:
            self.features["tzid:quoted"] += 1
            return "(UTC+01:00) Amsterdam, Berlin " + self.ident(3)
        if c < 0.9:
            self.features["tzid:long"] += 1
            return "/example.org/" + "L" * self.rng.randint(60, 80) + "/" + self.ident(3)
        return "Zürich-" + self.ident(3)

    # ---- date-time valued property
    def dt_prop(self, name, mode, tz, date=None, time=None):
        """mode: date | utc | floating | tz"""
        d = date or self.date()
        t = time or self.time()
        params = []
        if mode == "date":
            return (None, name, (("VALUE", ("DATE",)),), d)
        if mode == "utc":
            v = d + "T" + t + "Z"
        elif mode == "floating":
            v = d + "T" + t
        else:
            v = d + "T" + t
            params.append(("TZID", (tz,)))
        if not self.canonical and self.chance(0.1):
            params.append(("VALUE", ("DATE-TIME",)))
        return (None, name, tuple(params), v)

    # ---- main component
    def main_component(self, kind, uid, mode, tz, override_of=None):
        rng = self.rng
        self.features["component:" + kind] += 1
        self.features["dtstart:" + mode] += 1
        L = [(None, "UID", (), uid), (None, "DTSTAMP", (), self.date() + "T" + self.time() + "Z")]
        sd, st = self.date(), self.time()
        has_start = kind != "VTODO" or self.chance(0.7)
        if has_start:
            L.append(self.dt_prop("DTSTART", mode, tz, sd, st))
        if override_of is not None:
            self.features["override"] += 1
            rid = self.dt_prop("RECURRENCE-ID", mode, tz, override_of[0], override_of[1])
            if self.chance(0.2):
                rid = (rid[0], rid[1], rid[2] + (("RANGE", ("THISANDFUTURE",)),), rid[3])
            L.append(rid)
        if kind == "VEVENT" and has_start:
            c = rng.random()
            if c < 0.45:
                e = self.dt_prop("DTEND", mode, tz, "%04d" % (int(sd[:4]) + 1) + sd[4:], st)
                L.append(e)
            elif c < 0.75 and mode != "date":
                # the length of the event is DTSTART + DURATION; a ZERO duration without DTEND is legal and must be kept
                # (the documented clean-up removes DURATION:PT0S only next to a DTEND)
                L.append((None, "DURATION", (), self.zero_duration() if self.chance(0.3) else self.duration()))
            elif c < 0.8 and mode == "date":
                L.append((None, "DURATION", (), "P1D" if self.canonical else self.pick(["P1D", "P2D", "P1W"])))
        if kind == "VTODO" and has_start:
            c = rng.random()
            if c < 0.45:
                L.append(self.dt_prop("DUE", mode, tz, "%04d" % (int(sd[:4]) + 1) + sd[4:], st))
            elif c < 0.75:
                L.append((None, "DURATION", (), "P1D" if mode == "date" else self.zero_duration() if self.chance(0.3) else self.duration()))
        if kind == "VTODO" and self.chance(0.3):
            L.append((None, "COMPLETED", (), self.date() + "T" + self.time() + "Z"))
            L.append((None, "PERCENT-COMPLETE", (), str(rng.randint(0, 100))))
        # recurrence (masters only)
        if override_of is None and has_start and self.chance(0.45):
            self.features["rrule"] += 1
            rr = self.pick(["FREQ=DAILY;COUNT=5", "FREQ=WEEKLY;BYDAY=MO,WE,FR", "FREQ=MONTHLY;BYMONTHDAY=1,15;INTERVAL=2",
                            "FREQ=YEARLY;BYMONTH=3;BYDAY=-1SU", "FREQ=WEEKLY;INTERVAL=2;WKST=SU;BYDAY=TU,TH;COUNT=10"])
            if self.chance(0.3):
                rr += ";UNTIL=" + (self.date() if mode == "date" else "20351231T235959Z" if mode in ("utc", "tz") else "20351231T235959")
            L.append((None, "RRULE", (), rr))
            for nm in ("EXDATE", "RDATE"):
                for _ in range(rng.choice([0, 0, 1, 1, 2])):
                    self.features[nm.lower()] += 1
                    k = rng.choice([1, 1, 2, 3])
                    if k > 1:
                        self.features["multi-valued:" + nm.lower()] += 1
                    if mode == "date":
                        L.append((None, nm, (("VALUE", ("DATE",)),), ",".join(self.date() for _ in range(k))))
                    elif mode == "utc":
                        L.append((None, nm, (), ",".join(self.date() + "T" + st + "Z" for _ in range(k))))
                    elif mode == "floating":
                        L.append((None, nm, (), ",".join(self.date() + "T" + st for _ in range(k))))
                    else:
                        L.append((None, nm, (("TZID", (tz,)),), ",".join(self.date() + "T" + st for _ in range(k))))
        # descriptive properties
        for nm, p in (("SUMMARY", 0.9), ("DESCRIPTION", 0.6), ("LOCATION", 0.4), ("COMMENT", 0.25), ("COMMENT", 0.15), ("CONTACT", 0.1)):
            if self.chance(p):
                params = []
                if self.chance(0.25):
                    params.append(("LANGUAGE", (self.pick(["en", "fr", "de-CH"]),)))
                if nm in ("DESCRIPTION", "LOCATION") and self.chance(0.2):
                    self.features["param:quoted"] += 1
                    params.append(("ALTREP", ("cid:" + self.ident() + "@example.org",)))
                params += self.xparams() if self.chance(0.3) else []
                v = self.etext(maxwords=12 if nm == "DESCRIPTION" else 5)
                L.append((None, nm, tuple(params), v))
        if self.chance(0.4):
            k = rng.choice([1, 2, 3, 5])
            self.features["multi-valued:categories"] += 1
            L.append((None, "CATEGORIES", (), ",".join(self.esc(self.text(2, allow_nl=False)) or "x" for _ in range(k))))
        if kind != "VJOURNAL" and self.chance(0.15):
            L.append((None, "RESOURCES", (), ",".join(self.esc(self.ident()) for _ in range(rng.choice([1, 2])))))
        for nm, vals in (("CLASS", ["PUBLIC", "PRIVATE", "CONFIDENTIAL"]), ("STATUS", {"VEVENT": ["CONFIRMED", "TENTATIVE", "CANCELLED"], "VTODO": ["NEEDS-ACTION", "COMPLETED", "IN-PROCESS"], "VJOURNAL": ["DRAFT", "FINAL"]}[kind]),
                         ("TRANSP", ["OPAQUE", "TRANSPARENT"]), ("SEQUENCE", ["0", "1", "7"]), ("PRIORITY", ["0", "5", "9"])):
            if self.chance(0.3) and not (nm == "TRANSP" and kind != "VEVENT") and not (nm == "PRIORITY" and kind == "VJOURNAL"):
                L.append((None, nm, (), self.pick(vals)))
        if self.chance(0.3):
            self.features["attendee"] += 1
            L.append((None, "ORGANIZER", (("CN", (self.pvalue(),)),), "mailto:" + self.ident() + "@example.org"))
            for _ in range(rng.choice([1, 2, 3])):
                ps = [("CN", (self.pvalue(),))]
                if self.chance(0.6):
                    ps.append(("ROLE", (self.pick(["REQ-PARTICIPANT", "OPT-PARTICIPANT", "CHAIR"]),)))
                if self.chance(0.5):
                    ps.append(("PARTSTAT", (self.pick(["ACCEPTED", "NEEDS-ACTION", "DECLINED"]),)))
                if self.chance(0.3):
                    ps.append(("RSVP", ("TRUE",)))
                if self.chance(0.15):
                    self.features["param:multi"] += 1
                    ps.append(("MEMBER", ("mailto:a@example.org", "mailto:b@example.org")))
                if self.chance(0.15):
                    ps.append(("DELEGATED-FROM", ("mailto:" + self.ident() + "@example.org",)))
                rng.shuffle(ps)
                L.append((None, "ATTENDEE", tuple(ps), "mailto:" + self.ident() + "@example.org"))
        if self.chance(0.2):
            L.append((None, "URL", (), "https://example.org/" + self.ident() + "?a=1;b=2,3"))
        if self.chance(0.15):
            L.append((None, "ATTACH", (("FMTTYPE", ("application/pdf",)),), "https://example.org/doc;v=1/" + self.ident() + ".pdf"))
        if self.chance(0.1):
            self.features["binary"] += 1
            import base64
            L.append((None, "ATTACH", (("ENCODING", ("BASE64",)), ("VALUE", ("BINARY",)), ("FMTTYPE", ("text/plain",))),
                      base64.b64encode(bytes(rng.randrange(256) for _ in range(rng.choice([3, 30, 120])))).decode()))
        if kind != "VJOURNAL" and self.chance(0.15):
            L.append((None, "GEO", (), "%.4f;%.4f" % (rng.uniform(-90, 90), rng.uniform(-180, 180))))
        if self.chance(0.15):
            L.append((None, "RELATED-TO", (("RELTYPE", ("PARENT",)),) if self.chance(0.5) else (), self.esc(self.ident() + "@example.org")))
        if self.chance(0.1):
            L.append((None, "REQUEST-STATUS", (), "2.0;" + self.esc("Success, ok") + (";" + self.esc("extra; data") if self.chance(0.5) else "")))
        if self.chance(0.3):
            L.append((None, "CREATED", (), self.date() + "T" + self.time() + "Z"))
            L.append((None, "LAST-MODIFIED", (), self.date() + "T" + self.time() + "Z"))
        for _ in range(rng.choice([0, 0, 1, 2])):
            self.features["x-property"] += 1
            L.append((None, "X-" + self.ident(5).upper(), tuple(self.xparams()), self.etext(maxwords=4)))
        subs = []
        if kind in ("VEVENT", "VTODO") and has_start:
            for _ in range(rng.choice([0, 0, 1, 2])):
                subs.append(self.valarm())
        rng.shuffle(L)
        return (kind, L, subs), (sd, st)

    def valarm(self):
        self.features["component:VALARM"] += 1
        act = self.pick(["DISPLAY", "AUDIO", "EMAIL"])
        L = [(None, "ACTION", (), act)]
        if self.chance(0.8):
            sign = self.pick(["-", "-", ""])
            d = self.duration()
            L.append((None, "TRIGGER", (("RELATED", (self.pick(["START", "END"]),)),) if self.chance(0.3) else (), sign + d))
        else:
            self.features["trigger:absolute"] += 1
            L.append((None, "TRIGGER", (("VALUE", ("DATE-TIME",)),), self.date() + "T" + self.time() + "Z"))
        if act in ("DISPLAY", "EMAIL"):
            L.append((None, "DESCRIPTION", (), self.etext(maxwords=3)))
        if act == "EMAIL":
            L.append((None, "SUMMARY", (), self.etext(maxwords=3)))
            L.append((None, "ATTENDEE", (), "mailto:" + self.ident() + "@example.org"))
        if self.chance(0.3):
            L.append((None, "REPEAT", (), str(self.rng.randint(1, 4))))
            L.append((None, "DURATION", (), self.duration()))
        if self.chance(0.2):
            L.append((None, "X-WR-ALARMUID", (), self.ident()))
        return ("VALARM", L, [])

    def cal_object(self, uid, kind=None, tz=None):
        """One calendar object resource: VCALENDAR(VTIMEZONE*, master, override*) as a tree."""
        rng = self.rng
        kind = kind or self.pick(["VEVENT", "VEVENT", "VEVENT", "VTODO", "VJOURNAL"])
        mode = self.pick(["date", "utc", "floating", "tz", "tz"])
        L = [(None, "VERSION", (), "2.0"), (None, "PRODID", (), self.esc("-//verif//C14 " + self.ident(4) + "//EN"))]
        if self.chance(0.2):
            L.append((None, "CALSCALE", (), "GREGORIAN"))
        if self.chance(0.1):
            L.append((None, "X-WR-TIMEZONE" if self.chance(0.5) else "X-" + self.ident(4).upper(), (), self.esc(self.ident())))
        subs = []
        if mode == "tz":
            tz = tz or self.tzid()
            subs.append(self.vtimezone(tz))
            if self.chance(0.15):
                subs.append(self.vtimezone(self.tzid()))    # an unreferenced second zone
        master, (sd, st) = self.main_component(kind, uid, mode, tz)
        subs.append(master)
        if any(n == "RRULE" for _, n, _, _ in master[1]):
            for _ in range(rng.choice([0, 0, 1, 2])):
                ov, _ = self.main_component(kind, uid, mode, tz, override_of=(self.date(), st))
                subs.append(ov)
        if self.chance(0.5):
            rng.shuffle(subs)
        rng.shuffle(L)
        return ("VCALENDAR", L, subs)

    # ---- vCard
    def card_object(self, uid, version=None):
        rng = self.rng
        version = version or self.pick(["3.0", "3.0", "4.0"])
        self.features["component:VCARD-" + version] += 1
        fam, giv = self.text(1, allow_nl=False) or "Doe", self.text(1, allow_nl=False) or "John"
        L = [(None, "VERSION", (), version), (None, "UID", (), self.esc(uid)),
             (None, "FN", (), self.esc(giv + " " + fam)),
             (None, "N", (), ";".join([self.esc(fam), self.esc(giv), "", self.pick(["", "Dr.", "Prof\\, Dr."]), self.pick(["", "Jr.", "II\\,III"])]))]
        if self.chance(0.4):
            L.append((None, "ORG", (), ";".join(self.esc(self.text(2, allow_nl=False) or "ACME") for _ in range(rng.choice([1, 2, 3])))))
        for _ in range(rng.choice([0, 1, 1, 2])):
            t = self.pick([("HOME",), ("WORK",), ("HOME", "POSTAL"), ("WORK", "PREF")])
            params = [("TYPE", t)] if version == "3.0" or self.chance(0.5) else [("TYPE", (",".join(t).lower(),))]
            if len(t) > 1:
                self.features["param:multi"] += 1
            if version == "4.0" and self.chance(0.3):
                self.features["param:quoted"] += 1
                params.append(("LABEL", ("1 Main St., Town; ST",)))
            L.append((None, "ADR", tuple(params), ";".join(["", "", self.esc(self.text(3)), self.esc(self.text(1, allow_nl=False)), "", self.ident(5), "CH"])))
        for _ in range(rng.choice([0, 1, 2])):
            if version == "4.0" and self.chance(0.5):
                self.features["param:quoted"] += 1
                L.append((None, "TEL", (("VALUE", ("uri",)), ("TYPE", ("voice,home",)), ("PREF", ("1",))), "tel:+1-555-" + str(rng.randint(1000, 9999))))
            else:
                L.append((None, "TEL", (("TYPE", tuple(rng.sample(["CELL", "HOME", "WORK", "VOICE", "FAX"], rng.choice([1, 2])))),), "+41 " + str(rng.randint(100000, 999999))))
        for i in range(rng.choice([0, 1, 2])):
            if self.chance(0.4):
                self.features["group"] += 1
                g = "item%d" % (i + 1)
                L.append((g, "EMAIL", (("TYPE", ("INTERNET",)),), self.ident() + "@example.org"))
                L.append((g, "X-ABLabel", (), self.esc("_$!<" + self.ident() + ">!$_")))
            else:
                L.append((None, "EMAIL", (("TYPE", ("INTERNET", "PREF")),) if self.chance(0.5) else (), self.ident() + "@example.org"))
        if self.chance(0.4):
            L.append((None, "NOTE", (), self.etext(maxwords=10)))
        if self.chance(0.3):
            self.features["multi-valued:categories"] += 1
            L.append((None, "CATEGORIES", (), ",".join(self.esc(self.text(1, allow_nl=False) or "c") for _ in range(rng.choice([1, 2, 4])))))
        if self.chance(0.3):
            L.append((None, "TITLE", (), self.etext(maxwords=2)))
            L.append((None, "ROLE", (), self.etext(maxwords=2)))
        if self.chance(0.3):
            L.append((None, "BDAY", (), self.pick(["1990-01-02", "19900102", "--0102"]) if version == "4.0" else self.pick(["1990-01-02", "19900102"])))
        if self.chance(0.2):
            L.append((None, "REV", (), self.date() + "T" + self.time() + "Z"))
        if self.chance(0.2):
            L.append((None, "GEO", (), "%.3f;%.3f" % (rng.uniform(-90, 90), rng.uniform(-180, 180)) if version == "3.0" else "geo:%.3f\\,%.3f" % (rng.uniform(-90, 90), rng.uniform(-180, 180))))
        if self.chance(0.25):
            import base64
            self.features["photo:b64"] += 1
            data = base64.b64encode(bytes(rng.randrange(256) for _ in range(rng.choice([3, 60, 300])))).decode()
            L.append((None, "PHOTO", (("ENCODING", ("b",)), ("TYPE", ("JPEG",))), data))
        elif self.chance(0.1):
            L.append((None, "PHOTO", (("VALUE", ("uri",)),), "https://example.org/" + self.ident() + ".jpg"))
        if self.chance(0.15):
            L.append((None, "IMPP", (("X-SERVICE-TYPE", ("Jabber",)),), "xmpp:" + self.ident() + "@example.org"))
        if version == "4.0":
            if self.chance(0.3):
                L.append((None, "KIND", (), "individual"))
            if self.chance(0.2):
                L.append((None, "LANG", (("PREF", ("1",)),), "fr"))
            if self.chance(0.2):
                L.append((None, "GENDER", (), "M"))
        for _ in range(rng.choice([0, 0, 1, 2])):
            self.features["x-property"] += 1
            L.append((None, "X-" + self.ident(5).upper(), tuple(self.xparams()), self.etext(maxwords=4)))
        head, rest = L[:1], L[1:]
        rng.shuffle(rest)
        return ("VCARD", head + rest if self.chance(0.7) else rest + head, [])

    # ---- rendering a tree as upload text
    def render(self, tree, style=None):
        """style: dict(eol, fold, lower, quote_all).  Returns text."""
        rng = self.rng
        style = style or dict(eol=self.pick(["\r\n", "\r\n", "\n"]), fold=self.pick(["none", "75", "random", "tab", "short"]),
                              lower=self.chance(0.1), quote_all=self.chance(0.1))
        self.features["eol:" + ("CRLF" if style["eol"] == "\r\n" else "LF")] += 1
        self.features["fold:" + style["fold"]] += 1
        out = []

        def emit(line):
            out.append(self.fold(line, style))

        def walk(t):
            name, lines, subs = t
            emit("BEGIN:" + name)
            for g, n, params, v in lines:
                nm = n.lower() if style["lower"] and self.chance(0.5) else n
                ps = [((k.lower() if style["lower"] and self.chance(0.5) else k), vs) for k, vs in params]
                emit(render_line(g, nm, ps, v, style["quote_all"]))
            for s in subs:
                walk(s)
            emit("END:" + name)
        walk(tree)
        return style["eol"].join(out) + style["eol"]

    def fold(self, line, style):
        mode, eol = style["fold"], style["eol"]
        if mode == "none" or len(line) < 2:
            return line
        if any(len(c.encode("utf-8")) > 1 for c in line) or len(line) > 75:
            self.features["long-or-multibyte-line"] += 1
        ws = "\t" if mode == "tab" else " "
        parts, cur, octets = [], [], 0
        limit = {"75": 75, "tab": 75, "short": self.rng.randint(8, 30)}.get(mode)
        for ch in line:
            n = len(ch.encode("utf-8"))
            if mode in ("random", "safe-random", "unsafe-random"):
                brk = cur and self.rng.random() < 0.03
            else:
                brk = octets + n > limit
            if brk:
                parts.append("".join(cur))
                cur, octets = [], 1
            cur.append(ch)
            octets += n
        parts.append("".join(cur))
        if mode != "unsafe-random":
            # a continuation line made of white space only is read as a blank line by vobject (known class C14:fold-ws)
            merged = [parts[0]]
            for p in parts[1:]:
                if p.strip() == "":
                    merged[-1] += p
                else:
                    merged.append(p)
            parts = merged
        if len(parts) > 1:
            self.features["folded-line"] += 1
        return (eol + ws).join(parts)
