"""C14 helpers: an independent RFC 5545 / RFC 6350 content-line parser (no vobject, no radicale code), the
generator grammar for calendar objects and contacts, and the reference statement of the documented clean-ups.

Vocabulary
  logical line   one unfolded content line (str, no line terminator)
  cl             parsed content line: (group|None, NAME, params, value) with params = tuple of (PNAME, tuple(values))
  tree           ("NAME", [cl, ...], [tree, ...])
  facts          multiset (collections.Counter) of (component path, NAME, params-as-sorted-tuple, value)
"""
import collections
import re

# --------------------------------------------------------------------------------------------------------------
# independent parser
# --------------------------------------------------------------------------------------------------------------


class IParseError(Exception):
    pass


def unfold(text):
    """RFC 5545 3.1: remove every line break that is immediately followed by one SPACE or HTAB; split into lines.
    Line breaks are CRLF or bare LF (both occur in the wild and in the generator)."""
    out, cur, i, n = [], [], 0, len(text)
    while i < n:
        c = text[i]
        if c == "\r" and i + 1 < n and text[i + 1] == "\n":
            brk = 2
        elif c == "\n":
            brk = 1
        else:
            cur.append(c)
            i += 1
            continue
        if i + brk < n and text[i + brk] in " \t":
            i += brk + 1
            continue
        out.append("".join(cur))
        cur = []
        i += brk
    if cur:
        out.append("".join(cur))
    return [l for l in out if l != ""]


NAME_CHARS = set("ABCDEFGHIJKLMNOPQRSTUVWXYZabcdefghijklmnopqrstuvwxyz0123456789-_")


def parse_line(line):
    """name *(";" param) ":" value   with  param = pname "=" pvalue *("," pvalue), pvalue = paramtext / DQUOTE..DQUOTE"""
    i, n = 0, len(line)
    while i < n and line[i] in NAME_CHARS:
        i += 1
    group = None
    if i < n and line[i] == "." and i > 0:
        group = line[:i]
        j = i + 1
        i = j
        while i < n and line[i] in NAME_CHARS:
            i += 1
        name = line[j:i]
    else:
        name = line[:i]
    if not name:
        raise IParseError("no property name: %r" % line[:40])
    params = []
    while i < n and line[i] == ";":
        i += 1
        j = i
        while i < n and line[i] in NAME_CHARS:
            i += 1
        pname = line[j:i]
        if not pname:
            raise IParseError("empty parameter name: %r" % line[:60])
        vals = []
        if i < n and line[i] == "=":
            while True:
                i += 1  # skip '=' or ','
                if i < n and line[i] == '"':
                    j = i + 1
                    k = line.find('"', j)
                    if k < 0:
                        raise IParseError("unterminated quoted parameter value")
                    vals.append(line[j:k])
                    i = k + 1
                else:
                    j = i
                    while i < n and line[i] not in '";:,':
                        i += 1
                    vals.append(line[j:i])
                if i < n and line[i] == ",":
                    continue
                break
        params.append((pname.upper(), tuple(vals)))
    if i >= n or line[i] != ":":
        raise IParseError("no ':' after name/parameters: %r" % line[:60])
    return (group, name.upper(), tuple(params), line[i + 1:])


def parse_tree(text):
    """List of top-level component trees."""
    stack, tops = [], []
    for l in unfold(text):
        g, name, params, value = parse_line(l)
        if name == "BEGIN":
            stack.append((value.upper(), [], []))
        elif name == "END":
            if not stack or stack[-1][0] != value.upper():
                raise IParseError("END:%s does not match" % value)
            t = stack.pop()
            (stack[-1][2] if stack else tops).append(t)
        else:
            if not stack:
                raise IParseError("content line outside component")
            stack[-1][1].append((g, name, params, value))
    if stack:
        raise IParseError("component %s not closed" % stack[-1][0])
    return tops


def norm_params(params):
    """Parameters as a canonical sorted tuple: names upper-case, values of equal names merged in order."""
    d = collections.OrderedDict()
    for k, vs in params:
        d.setdefault(k.upper(), []).extend(vs)
    return tuple(sorted((k, tuple(v)) for k, v in d.items()))


def facts_of_tree(t, path=(), out=None):
    out = collections.Counter() if out is None else out
    name, lines, subs = t
    p = path + (name,)
    for g, n, params, value in lines:
        out[(p, (g.upper() + "." if g else "") + n, norm_params(params), value)] += 1
    # sub-components: identified by their own facts (order-free): use a canonical rendering as the path element
    for s in subs:
        key = canon_tree(s)
        facts_of_tree(s, path + (name, "#" + key if False else s[0]), out) if False else None
    for s in subs:
        out[(p, "<component>", (), canon_tree(s))] += 1
    return out


def canon_tree(t):
    """Order-free canonical text of a tree (used to compare components as multisets)."""
    name, lines, subs = t
    ls = sorted("%s%s%s:%s" % ((g.upper() + "." if g else ""), n, "".join(
        ";%s=%s" % (k, ",".join(v)) for k, v in norm_params(p)), v) for g, n, p, v in lines)
    ss = sorted(canon_tree(s) for s in subs)
    return "BEGIN:%s\n%s\n%sEND:%s\n" % (name, "\n".join(ls), "".join(ss), name)


def facts(text):
    """Multiset of (path, name, params, value) over all top-level components of `text`."""
    out = collections.Counter()
    for t in parse_tree(text):
        _facts(t, (), out)
    return out


def _facts(t, path, out):
    name, lines, subs = t
    p = path + (name,)
    out[(p, "<begin>", (), "")] += 1
    for g, n, params, value in lines:
        out[(p, (g.upper() + "." if g else "") + n, norm_params(params), value)] += 1
    # a nested component's path carries the identifying lines of its ancestors' *names* only; siblings of equal
    # name are told apart by their own content, which is what a multiset of facts compares.
    for s in subs:
        _facts(s, p, out)


def diff_facts(a, b, limit=6):
    """Human-readable difference of two fact multisets."""
    only_a = list((a - b).elements())
    only_b = list((b - a).elements())
    return dict(missing=[repr(x) for x in only_a[:limit]], extra=[repr(x) for x in only_b[:limit]],
                n_missing=len(only_a), n_extra=len(only_b))


# --------------------------------------------------------------------------------------------------------------
# the documented clean-ups, stated on the independent representation (reference for the monitor)
# --------------------------------------------------------------------------------------------------------------
CTRL_RE = re.compile(r"[\x00-\x08\x0B\x0C\x0E-\x1F]")
DATE_RE = re.compile(r"^\d{8}$")
DT_RE = re.compile(r"^(\d{8})T(\d{6})(Z?)$")
ZERO_DUR_RE = re.compile(r"^[+-]?P(?:0W|(?:0D)?(?:T(?:0H)?(?:0M)?(?:0S)?)?)$")


def is_zero_duration(v):
    v = v.strip().upper()
    return bool(ZERO_DUR_RE.match(v)) and v not in ("P", "+P", "-P", "PT", "+PT", "-PT") or v in ("PT0S", "P0D", "-PT0S", "+PT0S")


def pget(params, name):
    for k, vs in params:
        if k.upper() == name:
            return vs
    return None


def pdel(params, name):
    return tuple((k, vs) for k, vs in params if k.upper() != name)


def clean_tree(t, top=True):
    """Expected effect of Radicale's documented clean-ups on one parsed object (PUT of a single object)."""
    name, lines, subs = t
    lines = list(lines)
    if name in ("VEVENT", "VTODO", "VJOURNAL"):
        names = [n for _, n, _, _ in lines]
        # zero DURATION next to DTEND
        if "DTEND" in names and "DURATION" in names:
            durs = [l for l in lines if l[1] == "DURATION"]
            if durs and is_zero_duration(durs[0][3]):
                lines = [l for l in lines if l[1] != "DURATION"]
        # EXDATE / RDATE value type follows DTSTART
        dts = [l for l in lines if l[1] == "DTSTART"]
        if dts:
            _, _, dparams, dval = dts[0]
            dval_is_date = bool(DATE_RE.match(dval))
            dvalue_param = pget(dparams, "VALUE")
            new = []
            for l in lines:
                g, n, params, v = l
                if n in ("EXDATE", "RDATE") and v != "":
                    vp = (pget(params, "VALUE") or ("DATE-TIME",))[0].upper()
                    if vp in ("DATE", "DATE-TIME"):
                        vals = v.split(",")
                        is_date = [vp == "DATE" for x in vals]
                        if not all(d == dval_is_date for d in is_date):
                            m = DT_RE.match(dval)
                            if dval_is_date:
                                vals = [x[:8] for x in vals]
                            else:
                                vals = [x[:8] + "T" + m.group(2) + m.group(3) for x in vals]
                            params = pdel(params, "VALUE")
                            if dvalue_param is not None:
                                params = params + (("VALUE", tuple(dvalue_param)),)
                            elif dval_is_date:
                                params = params + (("VALUE", ("DATE",)),)
                            l = (g, n, params, ",".join(vals))
                new.append(l)
            lines = new
    if name == "VCARD":
        new = []
        for g, n, params, v in lines:
            if n == "PHOTO":
                enc = pget(params, "ENCODING")
                if enc and [e.lower() for e in enc] == ["b"]:
                    v = re.sub(r"^data:[^;,\r\n]*;base64,", "", v, flags=re.I)
            new.append((g, n, params, v))
        lines = new
    return (name, lines, [clean_tree(s, False) for s in subs])


def strip_controls(text):
    return CTRL_RE.sub("", text)
