"""Rights plugin granting every permission everywhere (used by the C06 trace check so that hostile
requests are not stopped by the rights layer before they reach the storage)."""
from radicale import rights


class Rights(rights.BaseRights):
    def authorization(self, user, path):
        return "RrWw"
