"""C10 helpers: in-process instrumentation of the real server (used by vlib/drivers/c10_driver.py),
the seeded request mix, and the projections of the observed streams.

Instrumentation (no change to /repo; everything is wrapped from outside at run time):
  * storage.acquire_lock            -> api events Acquire m / Release, strace marks, adversary hand-over
  * Storage / Collection API        -> api events Storage k (only calls made by the application layer,
                                       depth 0), strace marks op-<k> / opend around every piece of work
                                       (generators are wrapped so that each resumption is attributed)
  * body readers                    -> Parse / ParseFail
  * do_* and _handle_request        -> Return status
  * sys.addaudithook                -> per-thread file events (open / listdir / scandir / rename / remove /
                                       mkdir / rmdir / utime / rmtree) and subprocess.Popen (= Hook)
Adversary mode: a second thread takes the storage lock exclusively at every Release point of the serving
thread and keeps it until the serving thread asks for the lock again or the request ends; thereby
RwLock.locked == "w" and every cached props / etag value is re-read from the folder -- an access after
Release becomes an observable file event of a thread that holds no lock.
"""
import functools
import os
import sys
import threading

API_METHODS = {"discover": "Discover", "get_all": "GetAll", "get_multi": "GetMulti", "get_filtered": "GetFiltered",
               "get_meta": "GetMeta", "set_meta": "SetMeta", "sync": "Sync", "has_uid": "HasUid", "upload": "Upload",
               "delete": "Delete", "move": "Move", "create_collection": "CreateCollection", "serialize": "Serialize",
               "verify": "Verify"}
API_PROPS = {"tag": "Tag", "etag": "Etag", "last_modified": "LastModified"}
STORAGE_METHODS = ("discover", "move", "create_collection", "verify")
GENERATORS = ("discover", "get_all", "get_multi", "get_filtered")


def mark(label):
    try:
        os.stat("/rv-mark/" + label)
    except OSError:
        pass


class Recorder:
    def __init__(self, storage, folder, adversary=False):
        self.storage = storage
        self.folder = os.path.realpath(folder)
        self.tl = threading.local()
        self.api = []            # api events of the serving thread for the current request
        self.files = []          # file events (all threads) for the current request
        self.main = threading.get_ident()
        self.adversary = Adversary(storage) if adversary else None
        self.active = False

    # ---------------------------------------------------------------- per-thread state
    def st(self):
        s = self.tl
        if not hasattr(s, "held"):
            s.held, s.depth, s.op = None, 0, None
        return s

    def log(self, *ev):
        if self.active and threading.get_ident() == self.main:
            self.api.append(list(ev))

    # ---------------------------------------------------------------- lock
    def wrap_lock(self):
        import contextlib
        orig = self.storage.acquire_lock
        rec = self

        @contextlib.contextmanager
        def acquire_lock(mode, user="", *a, **kw):
            s = rec.st()
            mine = threading.get_ident() == rec.main
            if rec.adversary and mine:
                rec.adversary.drop()
            acquired = False
            try:
                with orig(mode, user, *a, **kw):
                    acquired = True
                    s.held = mode
                    mark("acq-" + mode)
                    rec.log("Acquire", mode)
                    try:
                        yield
                    except BaseException:
                        rec.log("BodyEnd", "raise")
                        raise
                    else:
                        rec.log("BodyEnd", "normal")
                    # leaving `with orig`: the real context manager runs the hook and unlocks
            finally:
                if acquired:
                    s.held = None
                    mark("rel")
                    rec.log("Release")
                    if mode == "w" and getattr(rec, "hook_pids", None) and rec.active:
                        was, rec.active = rec.active, False       # our own /proc reads are not server events
                        try:
                            for pgid in rec.hook_pids:
                                alive = rec.group_alive(pgid)
                                if alive:
                                    rec.files.append(dict(t="main", ev="hook-group-alive", path="", write=False, held=None,
                                                          op=None, processes=alive[:5], pgid=pgid))
                            rec.hook_pids = []
                        finally:
                            rec.active = was
                    if rec.adversary and mine and rec.active:
                        rec.adversary.grab()
        self.storage.acquire_lock = acquire_lock
        # an exception inside `with orig` skips the code after it: release bookkeeping for that path
        rec._orig_lock = orig

    # ---------------------------------------------------------------- storage API
    def enter(self, k):
        s = self.st()
        s.depth += 1
        if s.depth == 1:
            s.op = k
            mark("op-" + k)
        return s

    def leave(self):
        s = self.st()
        s.depth -= 1
        if s.depth == 0:
            s.op = None
            mark("opend")

    def wrap_gen(self, g, k):
        while True:
            self.enter(k)
            try:
                try:
                    v = next(g)
                except StopIteration:
                    return
            finally:
                self.leave()
            yield v

    def wrap_method(self, cls, name):
        orig = cls.__dict__.get(name)
        if orig is None:
            for base in cls.__mro__:
                if name in base.__dict__:
                    orig = base.__dict__[name]
                    break
        if orig is None:
            return
        k = API_METHODS[name]
        rec = self

        @functools.wraps(orig)
        def wrapper(obj, *a, **kw):
            s = rec.st()
            if s.depth == 0:
                rec.log("Storage", k)
            if name in GENERATORS:
                if s.depth > 0:
                    return orig(obj, *a, **kw)
                return rec.wrap_gen(iter(orig(obj, *a, **kw)), k)
            rec.enter(k)
            try:
                r = orig(obj, *a, **kw)
                if name == "sync" and s.depth == 1:
                    tok, names = r          # sync may hand back a lazy iterable in the base class
                    r = (tok, list(names))
                return r
            finally:
                rec.leave()
        setattr(cls, name, wrapper)

    def wrap_prop(self, cls, name):
        orig = None
        for base in cls.__mro__:
            if name in base.__dict__:
                orig = base.__dict__[name]
                break
        if orig is None or not isinstance(orig, property):
            return
        k = API_PROPS[name]
        rec = self

        def getter(obj):
            s = rec.st()
            if s.depth == 0:
                rec.log("Storage", k)
            rec.enter(k)
            try:
                return orig.fget(obj)
            finally:
                rec.leave()
        setattr(cls, name, property(getter))

    def wrap_storage(self):
        scls = type(self.storage)
        ccls = scls._collection_class
        for n in STORAGE_METHODS:
            self.wrap_method(scls, n)
        for n in API_METHODS:
            if n not in STORAGE_METHODS:
                self.wrap_method(ccls, n)
        for n in API_PROPS:
            self.wrap_prop(ccls, n)

    # ---------------------------------------------------------------- parse / return
    def wrap_app(self, application):
        from radicale import httputils
        rec = self
        acls = type(application)

        orig_xml = acls._read_xml_request_body

        def _read_xml_request_body(obj, environ):
            try:
                r = orig_xml(obj, environ)
            except BaseException:
                rec.log("ParseFail")
                raise
            rec.log("Parse")
            return r
        acls._read_xml_request_body = _read_xml_request_body

        orig_body = httputils.read_request_body

        def read_request_body(configuration, environ):
            try:
                r = orig_body(configuration, environ)
            except BaseException:
                rec.log("ParseFail")
                raise
            rec.log("Parse")
            return r
        httputils.read_request_body = read_request_body

        for name in dir(acls):
            if name.startswith("do_"):
                self._wrap_do(acls, name)
        orig_h = acls._handle_request

        def _handle_request(obj, environ):
            r = orig_h(obj, environ)
            try:
                rec.log("Return", int(r[0].split()[0]))
            except Exception:
                rec.log("Return", -1)
            return r
        acls._handle_request = _handle_request

    def _wrap_do(self, acls, name):
        orig = getattr(acls, name)
        rec = self

        @functools.wraps(orig)
        def do(obj, environ, base_prefix, path, user):
            r = orig(obj, environ, base_prefix, path, user)
            try:
                rec.log("Return", int(r[0]))
            except Exception:
                rec.log("Return", -1)
            return r
        setattr(acls, name, do)

    # ---------------------------------------------------------------- audit hook
    def install_audit(self):
        rec = self
        folder = self.folder
        wr = os.O_WRONLY | os.O_RDWR | os.O_CREAT | os.O_TRUNC | os.O_APPEND

        def hook(event, args):
            if not rec.active:
                return
            try:
                if event == "subprocess.Popen":
                    s = rec.st()
                    rec.log("Hook")
                    try:
                        locked = rec.storage._lock.locked      # the lock object's own view (process-wide)
                    except Exception:
                        locked = "?"
                    rec.files.append(dict(t="main" if threading.get_ident() == rec.main else "other", ev="exec",
                                          path=str(args[0])[:80], write=False, held=s.held, op=s.op, locked=locked))
                    return
                if event == "open":
                    path, mode, flags = args[0], args[1], args[2]
                    write = bool(flags & wr) if isinstance(flags, int) else False
                    paths = [path]
                elif event in ("os.listdir", "os.scandir"):
                    paths, write = [args[0]], False
                elif event == "os.rename":
                    paths, write = [args[0], args[1]], True
                elif event in ("os.remove", "os.rmdir", "os.mkdir", "os.utime", "shutil.rmtree", "os.truncate",
                               "os.chmod", "os.link", "os.symlink"):
                    paths, write = [args[0]], True
                else:
                    return
                s = rec.st()
                for p in paths:
                    if isinstance(p, bytes):
                        p = os.fsdecode(p)
                    if not isinstance(p, str):
                        continue
                    ap = os.path.normpath(p if os.path.isabs(p) else os.path.join(os.getcwd(), p))
                    if ap == folder or ap.startswith(folder + os.sep):
                        rec.files.append(dict(t="main" if threading.get_ident() == rec.main else "other",
                                              ev=event, path=ap[len(folder):], write=write, held=s.held, op=s.op))
            except Exception:      # never disturb the server
                pass
        sys.addaudithook(hook)

    # ---------------------------------------------------------------- per request
    def watch_hook_group(self):
        """Record the process the storage hook starts; at the Release of an exclusive section no process of
        its group may be alive (lock.py kills what is left of the group before unlocking)."""
        import subprocess
        rec = self
        rec.hook_pids = []
        base = subprocess.Popen

        class Popen(base):
            def __init__(self, *a, **kw):
                super().__init__(*a, **kw)
                if rec.active:
                    rec.hook_pids.append(self.pid)
        subprocess.Popen = Popen

    def group_alive(self, pgid, wait=0.3):
        import time
        deadline = time.time() + wait
        while True:
            alive = []
            for d in os.listdir("/proc"):
                if not d.isdigit():
                    continue
                try:
                    with open("/proc/%s/stat" % d) as f:
                        st = f.read()
                    rest = st[st.rindex(")") + 2:].split()
                    if int(rest[2]) == pgid and rest[0] not in ("Z", "X"):
                        alive.append((int(d), st[st.index("(") + 1:st.rindex(")")]))
                except (OSError, ValueError, IndexError):
                    continue
            if not alive or time.time() > deadline:
                return alive
            time.sleep(0.02)

    def begin(self):
        self.api, self.files = [], []
        self.active = True

    def end(self):
        self.active = False
        if self.adversary:
            self.adversary.drop()
        return self.api, self.files


class Adversary:
    """A second thread that holds the storage lock exclusively on command (RwLock.acquire directly, so the
    storage hook is not involved)."""

    def __init__(self, storage):
        self.lock = storage._lock
        self.cmd = threading.Event()
        self.done = threading.Event()
        self.want = None
        self.holding = False
        self.native_id = None
        self.t = threading.Thread(target=self.run, daemon=True)
        self.t.start()

    def run(self):
        self.native_id = threading.get_native_id()
        while True:
            self.cmd.wait()
            self.cmd.clear()
            if self.want == "grab":
                cm = self.lock.acquire("w")
                cm.__enter__()
                mark("adv-acq")
                self.holding = True
                self.done.set()
                # keep it until told to drop
                while True:
                    self.cmd.wait()
                    self.cmd.clear()
                    if self.want == "drop":
                        break
                cm.__exit__(None, None, None)
                mark("adv-rel")
                self.holding = False
                self.done.set()
            else:
                self.done.set()

    def _do(self, what):
        self.want = what
        self.done.clear()
        self.cmd.set()
        if not self.done.wait(20):
            raise RuntimeError("adversary did not answer")

    def grab(self):
        if not self.holding:
            self._do("grab")

    def drop(self):
        if self.holding:
            self._do("drop")


# ------------------------------------------------------------------------------------------------ crash debris
def crash_write(srv, folder, request, at, age):
    """Fork; the child serves `request` with the real application and dies (os._exit, nothing is cleaned up) right
    before its `at`-th mutating file event below `folder` (audit level: mkdir / open for writing / rename / remove /
    rmdir / rmtree ...); at = 0: it dies only after the request is finished.  Then every mtime below `folder` is
    moved `age` seconds into the past ("nobody touched the storage for that long").  Returns a description of
    what was left behind: [died (bool), number of new hidden names (temporary directories ...) outside the cache area]."""
    global mark
    folder = os.path.realpath(folder)

    def hidden_names():
        out = set()
        for d, dirs, files in os.walk(folder):
            if ".Radicale.cache" not in d.split(os.sep):
                out.update(os.path.join(d, n) for n in dirs + files
                           if n.startswith(".") and n not in (".Radicale.cache", ".Radicale.props", ".Radicale.lock"))
        return out
    before = hidden_names()
    sys.stdout.flush()
    sys.stderr.flush()
    pid = os.fork()
    if pid == 0:
        try:
            mark = lambda label: None       # noqa: E731  the child's marks are not events of the observed server
            count = [0]
            wr = os.O_WRONLY | os.O_RDWR | os.O_CREAT | os.O_TRUNC | os.O_APPEND

            def hook(event, args):
                if event == "open":
                    if not (isinstance(args[2], int) and args[2] & wr):
                        return
                elif event not in ("os.rename", "os.remove", "os.rmdir", "os.mkdir", "shutil.rmtree", "os.truncate",
                                   "os.utime", "os.link", "os.symlink"):
                    return
                p = args[0]
                if isinstance(p, bytes):
                    p = os.fsdecode(p)
                if not isinstance(p, str):
                    return
                ap = os.path.normpath(p if os.path.isabs(p) else os.path.join(os.getcwd(), p))
                if (ap + os.sep).startswith(folder + os.sep) and os.path.basename(ap) != ".Radicale.lock":
                    count[0] += 1
                    if at and count[0] >= at:
                        os._exit(9)
            sys.addaudithook(hook)
            srv.request(request["method"], request["path"], data=request.get("data"), login=request.get("login"),
                        **request.get("headers", {}))
        finally:
            os._exit(0)
    _, status = os.waitpid(pid, 0)
    died = os.WIFEXITED(status) and os.WEXITSTATUS(status) == 9
    odd = len(hidden_names() - before)
    now = __import__("time").time()
    for d, dirs, files in os.walk(folder):
        if age:
            for n in dirs + files:
                try:
                    os.utime(os.path.join(d, n), (now - age, now - age), follow_symlinks=False)
                except OSError:
                    pass
    return [died, odd]


AGES = [0, 600, 2 * 3600, 3 * 86400, 45 * 86400, 400 * 86400]


def crash_victims(tag):
    """One write request of every shape whose interruption leaves something behind (deterministic; `tag` makes the
    created names distinct)."""
    L = "u:"
    mv = dict(HOST, HTTP_DESTINATION="http://127.0.0.1/u/cal/mv%s.ics" % tag)
    return [dict(method="PUT", path="/u/cal/cr%s.ics" % tag, login=L, data=ev("cr%s" % tag, 5)),
            dict(method="PUT", path="/u/cal/e2.ics", login=L, data=ev("e2", 6, n="again")),
            dict(method="PUT", path="/u/ab/cr%s.vcf" % tag, login=L, data=CARD % ("cr%s" % tag, 1)),
            dict(method="PUT", path="/u/whole%s/" % tag, login=L, data=ev("w%s" % tag, 3), headers={"CONTENT_TYPE": "text/calendar"}),
            dict(method="PUT", path="/u/cal2/", login=L, data=ev("w2%s" % tag, 3), headers={"CONTENT_TYPE": "text/calendar"}),
            dict(method="DELETE", path="/u/cal/e4.ics", login=L),
            dict(method="DELETE", path="/u/cal2/", login=L),
            dict(method="MOVE", path="/u/cal/e3.ics", login=L, headers=mv),
            dict(method="PROPPATCH", path="/u/cal/", login=L, data=PROPPATCH_OK % 3),
            dict(method="MKCALENDAR", path="/u/mk%s/" % tag, login=L),
            dict(method="MKCOL", path="/u/ab%s/" % tag, login=L, data=MKCOL_AB),
            first_login_request("PROPFIND", "c%s" % tag)]


def read_block(rng):
    """Read-only requests that look at everything a crash in /u/ can have touched."""
    L = "u:"
    r = []
    for p in ("/u/", "/u/cal/", "/u/ab/", "/u/cal2/"):
        r.append(dict(method="PROPFIND", path=p, login=L, data=propfind_body(rng.choice(["allprop", "prop", "propname"]), rng),
                      headers={"HTTP_DEPTH": "1"}))
    r.append(dict(method="GET", path=rng.choice(["/u/cal/", "/u/ab/"]), login=L))
    r.append(dict(method="GET", path=rng.choice(["/u/cal/e1.ics", "/u/cal/e2.ics", "/u/ab/c1.vcf"]), login=L))
    r.append(dict(method="HEAD", path="/u/cal2/", login=L))
    for kind, tgt in (("sync", "/u/cal/"), ("query", "/u/cal/"), ("freebusy", "/u/cal/"), ("ab-query", "/u/ab/"),
                      ("multiget", "/u/cal/"), ("sync", "/u/ab/")):
        r.append(dict(method="REPORT", path=tgt, login=L, rkind=kind,
                      data=report_body(kind, rng, ["/u/cal/e1.ics", "/u/cal/e3.ics"], rng.choice(["", "@LAST"]))))
        if "@LAST" in r[-1]["data"]:
            r[-1]["use_last_token"] = True
    rng.shuffle(r)
    for x in r:
        x["kind"] = "after-crash"
    return r


def debris_requests(rng, scenarios, tag="d"):
    """`scenarios` times: a server process dies at a chosen point of a write request, time passes, then only reads.
    Crash points: the first scenarios walk victim x point systematically (points 1..7 in the order of a seeded
    permutation), the rest is random (points 1..14)."""
    out = []
    victims = crash_victims(tag)
    grid = [(v, k) for k in range(1, 8) for v in range(len(victims))]
    rng.shuffle(grid)
    for i in range(scenarios):
        if i < len(grid):
            v, k = grid[i]
        else:
            v, k = rng.randrange(len(victims)), rng.randint(1, 14)
        victims = crash_victims("%s%d" % (tag, i))
        age = AGES[i % len(AGES)] if i < 2 * len(AGES) else rng.choice(AGES)
        out.append(dict(method="_CRASH", path="", request=victims[v], at=k, age=age, kind="crash"))
        out += read_block(rng)
    return out


# ------------------------------------------------------------------------------------------------ request mix
EVENT = ("BEGIN:VCALENDAR\r\nPRODID:-//v//EN\r\nVERSION:2.0\r\nBEGIN:VEVENT\r\nUID:%s\r\nSUMMARY:s%s\r\n"
         "DTSTART:201309%02dT180000Z\r\nDTEND:201309%02dT190000Z\r\n%sEND:VEVENT\r\nEND:VCALENDAR\r\n")
TODO = ("BEGIN:VCALENDAR\r\nPRODID:-//v//EN\r\nVERSION:2.0\r\nBEGIN:VTODO\r\nUID:%s\r\nSUMMARY:t\r\n"
        "END:VTODO\r\nEND:VCALENDAR\r\n")
CARD = "BEGIN:VCARD\r\nVERSION:3.0\r\nUID:%s\r\nFN:n%s\r\nN:n;;;;\r\nEND:VCARD\r\n"
NS = 'xmlns:D="DAV:" xmlns:C="urn:ietf:params:xml:ns:caldav" xmlns:CR="urn:ietf:params:xml:ns:carddav" ' \
     'xmlns:CS="http://calendarserver.org/ns/"'
HOST = {"HTTP_HOST": "127.0.0.1"}


def ev(uid, day=1, extra="", n=""):
    return EVENT % (uid, n, day, day, extra)


def propfind_body(kind, rng):
    if kind == "allprop":
        return '<?xml version="1.0"?><D:propfind %s><D:allprop/></D:propfind>' % NS
    if kind == "propname":
        return '<?xml version="1.0"?><D:propfind %s><D:propname/></D:propfind>' % NS
    if kind == "none":
        return None
    props = ["D:getetag", "D:resourcetype", "D:displayname", "CS:getctag", "D:sync-token", "D:getcontentlength",
             "D:getlastmodified", "D:getcontenttype", "D:owner", "D:current-user-principal", "C:calendar-home-set",
             "D:supported-report-set", "C:supported-calendar-component-set", "D:current-user-privilege-set",
             "ICAL:calendar-color", "D:principal-URL"]
    k = rng.randint(1, 6)
    sel = rng.sample(props, k)
    return ('<?xml version="1.0"?><D:propfind %s xmlns:ICAL="http://apple.com/ns/ical/"><D:prop>%s</D:prop></D:propfind>'
            % (NS, "".join("<%s/>" % p for p in sel)))


def report_body(kind, rng, hrefs=(), token=""):
    if kind == "multiget":
        return ('<?xml version="1.0"?><C:calendar-multiget %s><D:prop><D:getetag/><C:calendar-data/></D:prop>%s'
                '</C:calendar-multiget>' % (NS, "".join("<D:href>%s</D:href>" % h for h in hrefs)))
    if kind == "ab-multiget":
        return ('<?xml version="1.0"?><CR:addressbook-multiget %s><D:prop><D:getetag/><CR:address-data/></D:prop>%s'
                '</CR:addressbook-multiget>' % (NS, "".join("<D:href>%s</D:href>" % h for h in hrefs)))
    if kind == "sync":
        return ('<?xml version="1.0"?><D:sync-collection %s><D:sync-token>%s</D:sync-token><D:sync-level>1</D:sync-level>'
                '<D:prop><D:getetag/></D:prop></D:sync-collection>' % (NS, token))
    if kind == "query":
        rngs = rng.choice(['<C:time-range start="20130901T000000Z" end="20130910T000000Z"/>', "",
                           '<C:time-range start="20140101T000000Z"/>'])
        return ('<?xml version="1.0"?><C:calendar-query %s><D:prop><D:getetag/><C:calendar-data/></D:prop><C:filter>'
                '<C:comp-filter name="VCALENDAR"><C:comp-filter name="VEVENT">%s</C:comp-filter></C:comp-filter>'
                '</C:filter></C:calendar-query>' % (NS, rngs))
    if kind == "ab-query":
        return ('<?xml version="1.0"?><CR:addressbook-query %s><D:prop><D:getetag/></D:prop><CR:filter>'
                '<CR:prop-filter name="FN"><CR:text-match>n</CR:text-match></CR:prop-filter></CR:filter>'
                '</CR:addressbook-query>' % NS)
    if kind == "freebusy":
        return ('<?xml version="1.0"?><C:free-busy-query %s><C:time-range start="20130901T000000Z" '
                'end="20131001T000000Z"/></C:free-busy-query>' % NS)
    if kind == "expand-property":
        return '<?xml version="1.0"?><D:expand-property %s/>' % NS
    if kind == "bad":
        return "<not-xml"
    return None


PROPPATCH_OK = ('<?xml version="1.0"?><D:propertyupdate %s><D:set><D:prop><D:displayname>x%%d</D:displayname>'
                '</D:prop></D:set></D:propertyupdate>' % NS)
MKCOL_AB = ('<?xml version="1.0"?><D:mkcol %s><D:set><D:prop><D:resourcetype><D:collection/><CR:addressbook/>'
            '</D:resourcetype></D:prop></D:set></D:mkcol>' % NS)


def hostile_token(rng, target):
    """A sync token whose 64-character name is a relative path (alphabet [0-9a-f./]) from the sync-token cache
    folder to an item / props file of the collection or of a sibling, or random text over that alphabet."""
    names = {"/u/cal/": ["e1.ics", "e2.ics", "e3.ics", "e4.ics", "rec.ics"], "/u/ab/": ["c1.vcf", "c2.vcf"]}
    pre = "http://radicale.org/ns/sync/"
    c = rng.random()
    if c < 0.6:
        # only names over the alphabet survive a per-character test; others are for a weakened test
        leaf = rng.choice(names.get(target, ["e1.ics"]) + ["e1.ics", "c1.vcf", ".Radicale.props"])
        up = rng.choice(["../../", "../../", "../../../cal/", "../../../ab/"])
        body = up + leaf
        pad = 64 - len(body)
        if pad >= 0 and pad % 2 == 0:
            k = up.count("../") * 3
            return pre + body[:k] + "./" * (pad // 2) + body[k:]
    alphabet = "0123456789abcdef./"
    return pre + "".join(rng.choice(alphabet) for _ in range(64))


def path_token(rel):
    """64-character token name = relative path `rel` (from <collection>/.Radicale.cache/sync-token/) padded with './'."""
    k = 0
    while rel.startswith("../", k):
        k += 3
    pad = 64 - len(rel)
    assert pad >= 0 and pad % 2 == 0, rel
    return "http://radicale.org/ns/sync/" + rel[:k] + "./" * (pad // 2) + rel[k:]


def hostile_block():
    """sync-collection REPORTs whose token names are relative paths to collection data (deterministic)."""
    out = []
    for target, rels in (("/u/cal/", ["../../e1.ics", "../../rec.ics", "../../../ab/c1.vcf", "../../.Radicale.props"]),
                         ("/u/ab/", ["../../c2.vcf", "../../../cal/e2.ics"])):
        for rel in rels:
            if (64 - len(rel)) % 2:
                rel = rel[:rel.rindex("/") + 1] + "/" + rel[rel.rindex("/") + 1:]       # a//b: same file, even padding
            out.append(dict(method="REPORT", path=target, login="u:", data=report_body("sync", None, (), path_token(rel)),
                            rkind="sync-hostile", kind="hostile"))
    return out


def setup_requests():
    """A small store: user u with two calendars and an address book (requests, so that the same driver runs them)."""
    L = "u:"
    r = [dict(method="PROPFIND", path="/", login=L, data=propfind_body("none", None), headers={"HTTP_DEPTH": "0"}),
         dict(method="MKCALENDAR", path="/u/cal/", login=L),
         dict(method="MKCALENDAR", path="/u/cal2/", login=L),
         dict(method="MKCOL", path="/u/ab/", login=L, data=MKCOL_AB),
         dict(method="MKCOL", path="/u/plain/", login=L)]
    for i in range(1, 5):
        r.append(dict(method="PUT", path="/u/cal/e%d.ics" % i, login=L, data=ev("e%d" % i, i)))
    r.append(dict(method="PUT", path="/u/cal/t1.ics", login=L, data=TODO % "t1"))
    r.append(dict(method="PUT", path="/u/cal/rec.ics", login=L, data=ev("rec", 2, "RRULE:FREQ=DAILY;COUNT=3\r\n")))
    for i in range(1, 3):
        r.append(dict(method="PUT", path="/u/ab/c%d.vcf" % i, login=L, data=CARD % ("c%d" % i, i)))
    for x in r:
        x["kind"] = "setup"
    return r


PREDEFINED = {"def-cal": {"tag": "VCALENDAR"}, "def-adr": {"tag": "VADDRESSBOOK"}}
FIRST_METHODS = ["GET", "HEAD", "PROPFIND", "REPORT", "OPTIONS", "POST", "PUT", "DELETE", "MOVE", "PROPPATCH", "MKCOL",
                 "MKCALENDAR"]


def first_login_request(method, user, rng=None):
    """`method` as the very first request of the fresh user `user`: the gate creates /user/ and the configured
    predefined collections under the exclusive lock before the handler runs."""
    import random as _random
    rng = rng or _random.Random(0)
    L, home = user + ":", "/%s/" % user
    r = dict(method=method, login=L, path=home, headers={})
    if method == "PROPFIND":
        r["data"] = propfind_body("allprop", rng)
        r["headers"]["HTTP_DEPTH"] = "1"
    elif method == "REPORT":
        r["path"] = home + "def-cal/"
        r["data"] = report_body(rng.choice(["sync", "freebusy", "query"]), rng)
    elif method == "POST":
        r["data"] = "x"
    elif method == "PUT":
        r["path"] = home + "def-cal/first.ics"
        r["data"] = ev("first-" + user, 3)
    elif method == "DELETE":
        r["path"] = home + "def-adr/"
    elif method == "MOVE":
        r["path"] = home + "def-cal/none.ics"
        r["headers"].update(HOST)
        r["headers"]["HTTP_DESTINATION"] = "http://127.0.0.1" + home + "def-cal/x.ics"
    elif method == "PROPPATCH":
        r["path"] = home + "def-cal/"
        r["data"] = PROPPATCH_OK % 1
    elif method in ("MKCOL", "MKCALENDAR"):
        r["path"] = home + "mine/"
    elif method in ("GET", "HEAD"):
        r["path"] = home + "def-cal/"
    if not r["headers"]:
        del r["headers"]
    r["kind"] = "first-login"
    return r


def first_login_block(tag):
    """Every method once as the first request of a new user (deterministic)."""
    return [first_login_request(m, "f%s%d" % (tag, i)) for i, m in enumerate(FIRST_METHODS)]


def gen_requests(rng, n, read_only=False):
    """Seeded mix over all methods, success and error exits, both REPORT kinds with early unlock."""
    L = "u:"
    cals = ["/u/cal/", "/u/cal2/", "/u/missing/"]
    items = ["/u/cal/e1.ics", "/u/cal/e2.ics", "/u/cal/e3.ics", "/u/cal/e4.ics", "/u/cal/t1.ics", "/u/cal/rec.ics",
             "/u/cal/nope.ics", "/u/cal2/x1.ics", "/u/ab/c1.vcf", "/u/ab/c2.vcf", "/u/missing/e.ics"]
    colls = ["/", "/u/", "/u/cal/", "/u/cal2/", "/u/ab/", "/u/plain/", "/u/missing/", "/other/"]
    # every kind of target for the handlers that "do not touch the storage": items, collections with and without the
    # trailing slash, missing names
    anyp = items + colls + [c.rstrip("/") for c in colls if c != "/"] + ["/u/cal/e1.ics/"]
    tokens = ["", "http://radicale.org/ns/sync/" + "0" * 64, "http://radicale.org/ns/sync/bad", "junk", "@LAST"]
    out = []
    k = 0
    readers = ["GET", "HEAD", "PROPFIND", "REPORT", "OPTIONS", "POST"]
    writers = ["PUT", "DELETE", "MOVE", "PROPPATCH", "MKCOL", "MKCALENDAR", "LOGIN"]
    while len(out) < n:
        k += 1
        m = rng.choice(readers + ([] if read_only else writers) + ["REPORT", "PROPFIND"])
        login = rng.choice([L] * 8 + [None, "v:"])
        if rng.random() < 0.04:
            out.append(dict(method="_WIPECACHE", path=rng.choice(["/u/cal/", "/u/ab/", "/u/cal2/"]), kind="wipe"))
        r = dict(method=m, login=login, headers={})
        if m in ("GET", "HEAD"):
            r["path"] = rng.choice(items + colls + ["/.web/", "/.web", "", "/u/cal"])
        elif m == "PROPFIND":
            r["path"] = rng.choice(colls + items[:3])
            r["data"] = rng.choice([propfind_body(rng.choice(["allprop", "propname", "none", "prop", "prop", "prop"]), rng),
                                    "<bad"] if rng.random() < 0.1 else
                                   [propfind_body(rng.choice(["allprop", "propname", "none", "prop", "prop", "prop"]), rng)])
            r["headers"]["HTTP_DEPTH"] = rng.choice(["0", "1", "1"])
        elif m == "REPORT":
            kind = rng.choice(["multiget", "sync", "query", "freebusy", "ab-multiget", "ab-query", "expand-property",
                               "bad", "none", "sync", "freebusy", "query"])
            target = rng.choice(["/u/cal/", "/u/cal/", "/u/cal2/", "/u/ab/", "/u/plain/", "/u/missing/", "/u/cal/e1.ics"])
            if kind.startswith("ab-") and rng.random() < 0.7:
                target = "/u/ab/"
            hrefs = rng.sample(items, rng.randint(0, 4)) + rng.choice([[], [target], ["/u/cal/../x", "http://h/u/cal/e1.ics"]])
            tok = rng.choice(tokens + [hostile_token(rng, target)] * 3) if kind == "sync" else rng.choice(tokens)
            r["path"] = target
            r["data"] = report_body(kind, rng, hrefs, tok)
            r["rkind"] = kind
            if tok == "@LAST":
                r["use_last_token"] = True
        elif m == "OPTIONS":
            r["path"] = rng.choice(anyp)
        elif m == "POST":
            r["path"] = rng.choice(["/u/cal/", "/.web/", "/.web/x"] + anyp)
            r["data"] = "x"
        elif m == "PUT":
            which = rng.random()
            if which < 0.6:
                name = rng.choice(["e1", "e2", "n%d" % k, "n%d" % (k % 5)])
                r["path"] = rng.choice(["/u/cal/", "/u/cal2/", "/u/missing/", "/u/plain/"]) + name + ".ics"
                uid = name if rng.random() < 0.8 else "e3"
                r["data"] = rng.choice([ev(uid, 1 + k % 9, n=str(k))] * 5 + ["garbage", "", TODO % uid])
            elif which < 0.75:
                r["path"] = "/u/ab/" + rng.choice(["c1", "c%d" % k]) + ".vcf"
                r["data"] = CARD % (rng.choice(["c1", "k%d" % k]), k)
            else:       # whole collection
                r["path"] = rng.choice(["/u/whole%d/" % (k % 3), "/u/cal2/"])
                r["data"] = ev("w%d" % k, 3)
                r["headers"]["CONTENT_TYPE"] = "text/calendar"
            c = rng.random()
            if c < 0.15:
                r["headers"]["HTTP_IF_MATCH"] = rng.choice(['"nomatch"', "*"])
            elif c < 0.3:
                r["headers"]["HTTP_IF_NONE_MATCH"] = "*"
        elif m == "DELETE":
            r["path"] = rng.choice(items + ["/u/cal2/", "/u/whole0/", "/u/whole1/", "/u/cal/n1.ics", "/u/cal/n2.ics"])
            if rng.random() < 0.2:
                r["headers"]["HTTP_IF_MATCH"] = '"nomatch"'
        elif m == "MOVE":
            r["path"] = rng.choice(items)
            dest = rng.choice(["/u/cal/m%d.ics" % (k % 4), "/u/cal2/m%d.ics" % (k % 4), "/u/cal/e2.ics", "/u/missing/x.ics",
                               "/u/ab/c9.vcf", "/u/cal/"])
            r["headers"].update(HOST)
            r["headers"]["HTTP_DESTINATION"] = rng.choice(["http://127.0.0.1", "http://127.0.0.1", "http://elsewhere"]) + dest
            r["headers"]["HTTP_OVERWRITE"] = rng.choice(["T", "F"])
        elif m == "PROPPATCH":
            r["path"] = rng.choice(colls + items[:2])
            r["data"] = rng.choice([PROPPATCH_OK % k] * 4 + ["<bad", None])
        elif m == "MKCOL":
            r["path"] = rng.choice(["/u/new%d/" % (k % 6), "/u/cal/", "/u/missing/sub/", "/u/cal/sub/"])
            r["data"] = rng.choice([None, MKCOL_AB, "<bad"])
        elif m == "MKCALENDAR":
            r["path"] = rng.choice(["/u/newcal%d/" % (k % 6), "/u/cal/", "/u/missing/sub/", "/u/cal/sub/"])
            r["data"] = rng.choice([None, None, "<bad"])
        elif m == "LOGIN":     # first request of a fresh user: the gate creates the home (+ predefined collections)
            r = first_login_request(rng.choice(FIRST_METHODS), "w%d" % k, rng)
        if "headers" in r and not r["headers"]:
            del r["headers"]
        r.setdefault("kind", "gen")
        out.append(r)
    return out


# ------------------------------------------------------------------------------------------------ projections
COQ_SOP = set(API_METHODS.values()) | set(API_PROPS.values())


def api_to_coq(api):
    """api events of one request -> Gallina list of RV.Model.LockDiscipline.event (hook and release order as observed)."""
    out = []
    pending = False
    for e in api:
        k = e[0]
        if k == "Acquire":
            out.append("EAcquire %s" % ("W" if e[1] == "w" else "R"))
        elif k == "Release":
            out.append("ERelease")
            if pending:
                out.append("ECatch")       # the exception left the locked section; what follows is a new context
                pending = False
        elif k == "Hook":
            out.append("EHook")
        elif k == "Storage":
            out.append("EStorage %s" % e[1])
        elif k == "Parse":
            out.append("EParse")
        elif k == "ParseFail":
            out.append("EParseFail")
        elif k == "Return":
            out.append("EReturn (StCode %d)" % e[1] if e[1] >= 0 else "EReturn StAny")
        elif k == "BodyEnd":
            if e[1] == "raise":
                out.append("ERaise")
                pending = True
    return "[" + "; ".join(out) + "]"


def py_discipline(api):
    """Independent monitor: the property stated directly on the api event stream of one request.
    Returns None or a description of the first violation."""
    WRITERS = {"SetMeta", "Upload", "Delete", "Move", "CreateCollection"}
    held = None
    took_w = False
    body_normal = None
    hook_seen_in_window = False
    for i, e in enumerate(api):
        k = e[0]
        if k == "Acquire":
            if held:
                return "acquire %s while holding %s" % (e[1], held)
            held, hook_seen_in_window, body_normal = e[1], False, None
            took_w = took_w or e[1] == "w"
        elif k == "BodyEnd":
            body_normal = e[1] == "normal"
        elif k == "Release":
            if not held:
                return "release without lock"
            held = None
        elif k == "Storage":
            if not held:
                return "storage operation %s without the storage lock (event %d)" % (e[1], i)
            if e[1] in WRITERS and held != "w":
                return "storage write %s under the shared lock" % e[1]
        elif k == "Hook":
            if held != "w":
                return "hook started while holding %r" % held
            if body_normal is not True:
                return "hook started although the locked section did not end normally"
            hook_seen_in_window = True
    return None
