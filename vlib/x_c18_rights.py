"""A rights back-end that grants everything: the C18 checks look at URL decoding, not at rights
(with the built-in back-ends a refused path is indistinguishable from a path outside the base prefix)."""
from radicale import rights


class Rights(rights.BaseRights):
    def authorization(self, user: str, path: str) -> str:
        return "RrWw"
