"""C19 helpers: the attack grammar (mirror of coq/Model/XmlProlog.v), its renderer, the encoder to Gallina
terms, the generator, and the per-method root elements.

A term is a plain Python structure:
  attack   = dict(before=[misc], doctype=None|doctype, after=[misc], root=[piece], rootkind="valid|malformed|undef",
                  kind=<label>, note=..)
  misc     = ("comment", text) | ("pi", target, data) | ("space", ws)
  doctype  = dict(name=str, ext=None|extid, subset=None|[item])
  extid    = ("system", lit) | ("public", lit, lit)
  lit      = (single_quote: bool, [piece])
  piece    = ("s", text) | ("r", text, n)
  item     = ("entity", entdecl) | ("element", n) | ("attlist", el, att, lit) | ("notation", n, extid)
             | ("comment", text) | ("peref", n) | ("space", ws)
  entdecl  = ("internal", n, lit) | ("external", n, extid) | ("unparsed", n, extid, notation)
             | ("pinternal", n, lit) | ("pexternal", n, extid)
"""

METHODS = ["PROPFIND", "PROPPATCH", "REPORT", "MKCOL", "MKCALENDAR"]
COQ_METHOD = {"PROPFIND": "MPropfind", "PROPPATCH": "MProppatch", "REPORT": "MReport", "MKCOL": "MMkcol",
              "MKCALENDAR": "MMkcalendar"}
CHARSETS = {  # label -> (python codec used to encode, charset named in Content-Type or None)
    "utf-8": ("utf-8", "utf-8"),
    "utf-16": ("utf-16", "utf-16"),          # with BOM
    "latin-1": ("latin-1", "iso-8859-1"),
}


# ---------------------------------------------------------------------------------------------- rendering
def flat(pieces):
    return "".join(p[1] if p[0] == "s" else p[1] * p[2] for p in pieces)


def r_lit(l):
    q = "'" if l[0] else '"'
    return q + flat(l[1]) + q


def r_extid(e):
    if e[0] == "system":
        return "SYSTEM " + r_lit(e[1])
    return "PUBLIC " + r_lit(e[1]) + " " + r_lit(e[2])


def r_entdecl(d):
    k = d[0]
    if k == "internal":
        return "<!ENTITY " + d[1] + " " + r_lit(d[2]) + ">"
    if k == "external":
        return "<!ENTITY " + d[1] + " " + r_extid(d[2]) + ">"
    if k == "unparsed":
        return "<!ENTITY " + d[1] + " " + r_extid(d[2]) + " NDATA " + d[3] + ">"
    if k == "pinternal":
        return "<!ENTITY % " + d[1] + " " + r_lit(d[2]) + ">"
    if k == "pexternal":
        return "<!ENTITY % " + d[1] + " " + r_extid(d[2]) + ">"
    raise ValueError(k)


def r_item(i):
    k = i[0]
    if k == "entity":
        return r_entdecl(i[1])
    if k == "element":
        return "<!ELEMENT " + i[1] + " ANY>"
    if k == "attlist":
        return "<!ATTLIST " + i[1] + " " + i[2] + " CDATA " + r_lit(i[3]) + ">"
    if k == "notation":
        return "<!NOTATION " + i[1] + " " + r_extid(i[2]) + ">"
    if k == "comment":
        return "<!--" + i[1] + "-->"
    if k == "peref":
        return "%" + i[1] + ";"
    if k == "space":
        return i[1]
    raise ValueError(k)


def r_doctype(d):
    s = "<!DOCTYPE " + d["name"]
    if d["ext"] is not None:
        s += " " + r_extid(d["ext"])
    if d["subset"] is not None:
        s += " [" + "".join(r_item(i) for i in d["subset"]) + "]"
    return s + ">"


def r_misc(m):
    if m[0] == "comment":
        return "<!--" + m[1] + "-->"
    if m[0] == "pi":
        return "<?" + m[1] + " " + m[2] + "?>"
    return m[1]


def render(a):
    return ("".join(r_misc(m) for m in a["before"]) + (r_doctype(a["doctype"]) if a["doctype"] else "")
            + "".join(r_misc(m) for m in a["after"]) + flat(a["root"]))


def declares(a):
    d = a["doctype"]
    return bool(d and d["subset"] is not None and any(i[0] == "entity" for i in d["subset"]))


def fingerprint(s):
    h = 0
    for c in s:
        h = (h * 31 + ord(c)) % 4294967296
    return len(s), h


# ---------------------------------------------------------------------------------------------- Gallina encoding
def e_str(s):
    if not s:
        return "(@nil N)"          # a shard in which every case has an empty text would leave the type open
    return "[" + ";".join(str(ord(c)) for c in s) + "]"


def e_piece(p):
    return "PStr %s" % e_str(p[1]) if p[0] == "s" else "PRep %s %d" % (e_str(p[1]), p[2])


def e_pieces(l):
    return "[" + ";".join(e_piece(p) for p in l) + "]"


def e_lit(l):
    return "(mkLit %s %s)" % ("true" if l[0] else "false", e_pieces(l[1]))


def e_extid(e):
    if e[0] == "system":
        return "(ESystem %s)" % e_lit(e[1])
    return "(EPublic %s %s)" % (e_lit(e[1]), e_lit(e[2]))


def e_entdecl(d):
    k = d[0]
    if k == "internal":
        return "(DInternal %s %s)" % (e_str(d[1]), e_lit(d[2]))
    if k == "external":
        return "(DExternal %s %s)" % (e_str(d[1]), e_extid(d[2]))
    if k == "unparsed":
        return "(DUnparsed %s %s %s)" % (e_str(d[1]), e_extid(d[2]), e_str(d[3]))
    if k == "pinternal":
        return "(DParamInternal %s %s)" % (e_str(d[1]), e_lit(d[2]))
    return "(DParamExternal %s %s)" % (e_str(d[1]), e_extid(d[2]))


def e_item(i):
    k = i[0]
    if k == "entity":
        return "IEntity %s" % e_entdecl(i[1])
    if k == "element":
        return "IElement %s" % e_str(i[1])
    if k == "attlist":
        return "IAttlist %s %s %s" % (e_str(i[1]), e_str(i[2]), e_lit(i[3]))
    if k == "notation":
        return "INotation %s %s" % (e_str(i[1]), e_extid(i[2]))
    if k == "comment":
        return "IComment %s" % e_str(i[1])
    if k == "peref":
        return "IPERef %s" % e_str(i[1])
    return "ISpace %s" % e_str(i[1])


def e_doctype(d):
    return "(mkDoctype %s %s %s)" % (
        e_str(d["name"]), "None" if d["ext"] is None else "(Some %s)" % e_extid(d["ext"]),
        "None" if d["subset"] is None else "(Some [%s])" % ";".join(e_item(i) for i in d["subset"]))


def e_misc(m):
    if m[0] == "comment":
        return "XComment %s" % e_str(m[1])
    if m[0] == "pi":
        return "XPI %s %s" % (e_str(m[1]), e_str(m[2]))
    return "XSpace %s" % e_str(m[1])


def e_attack(a):
    return "(mkAttack [%s] %s [%s] %s)" % (
        ";".join(e_misc(m) for m in a["before"]),
        "None" if a["doctype"] is None else "(Some %s)" % e_doctype(a["doctype"]),
        ";".join(e_misc(m) for m in a["after"]), e_pieces(a["root"]))


ROOTKIND = {"valid": "RootValid", "malformed": "RootMalformed", "undef": "RootUndefinedRef"}


# ---------------------------------------------------------------------------------------------- root elements
NSD = 'xmlns:D="DAV:"'
NSC = 'xmlns:C="urn:ietf:params:xml:ns:caldav"'


def root_for(method, text="", attr="", tail_pieces=None, tag_hint="x"):
    """The request element of `method` as pieces; `text` goes into an element's character data (a stored property for
    PROPPATCH / MKCOL / MKCALENDAR), `attr` into an attribute value, `tail_pieces` (a list of pieces) after `text`."""
    tp = tail_pieces or []
    a = (' v="%s"' % attr) if attr else ""
    if method == "PROPFIND":
        pre = '<D:propfind %s%s><D:prop><D:getetag/><D:displayname>%s' % (NSD, a, text)
        post = '</D:displayname></D:prop></D:propfind>'
    elif method == "PROPPATCH":
        pre = '<D:propertyupdate %s%s><D:set><D:prop><D:displayname>%s%s' % (NSD, a, tag_hint, text)
        post = '</D:displayname></D:prop></D:set></D:propertyupdate>'
    elif method == "REPORT":
        pre = ('<C:calendar-multiget %s %s%s><D:prop><D:getetag/></D:prop><D:href>/u/cal/e1.ics</D:href><D:href>/u/cal/%s'
               % (NSD, NSC, a, text))
        post = '</D:href></C:calendar-multiget>'
    elif method == "MKCOL":
        pre = ('<D:mkcol %s %s%s><D:set><D:prop><D:resourcetype><D:collection/><C:calendar/></D:resourcetype>'
               '<D:displayname>%s%s' % (NSD, NSC, a, tag_hint, text))
        post = '</D:displayname></D:prop></D:set></D:mkcol>'
    elif method == "MKCALENDAR":
        pre = '<C:mkcalendar %s %s%s><D:set><D:prop><D:displayname>%s%s' % (NSD, NSC, a, tag_hint, text)
        post = '</D:displayname></D:prop></D:set></C:mkcalendar>'
    else:
        raise ValueError(method)
    return [("s", pre)] + tp + [("s", post)]


def malformed_root(method, rng):
    good = flat(root_for(method, "t"))
    k = rng.randrange(6)
    if k == 0:
        return [("s", good[:rng.randrange(5, len(good) - 3)])]            # truncated
    if k == 1:
        return [("s", good.replace("</D:prop>", "</D:porp>", 1))]          # mismatched tag
    if k == 2:
        return [("s", good + "<trailing/>")]                               # junk after the root
    if k == 3:
        return [("s", good.replace('xmlns:D="DAV:"', "", 1))]              # unbound prefix
    cut = good.rfind("</")
    if k == 4:
        return [("s", good[:cut] + "\x01" + good[cut:])]                   # control character
    return [("s", good[:cut] + "a & b" + good[cut:])]                      # bare ampersand


# ---------------------------------------------------------------------------------------------- generator
XMLDECLS = [("pi", "xml", 'version="1.0"'), ("pi", "xml", 'version="1.0" encoding="utf-8"'),
            ("pi", "xml", "version='1.0' standalone='no'"), None]
WS = [" ", "\n", "\r\n", "\t", "  \n"]


def lit(text, single=False):
    if single and "'" in text:
        single = False
    assert ("'" if single else '"') not in text
    return (single, [("s", text)] if text else [])


def gen_before(rng, force_decl=None):
    d = rng.choice(XMLDECLS) if force_decl is None else force_decl
    out = [d] if d else []
    if d and rng.random() < 0.4:
        out.append(("space", rng.choice(WS)))
    if d and rng.random() < 0.3:
        out.append(("comment", rng.choice([" c ", ' <!DOCTYPE x [<!ENTITY e "v">]> ', " <!ENTITY z SYSTEM 'file:///etc/passwd'> ", ""])))
    if d and rng.random() < 0.15:
        out.append(("pi", "target", "some data"))
    return out


def filler_items(rng, n):
    out = []
    for _ in range(n):
        k = rng.randrange(6)
        if k == 0:
            out.append(("element", rng.choice(["x", "D:prop", "a.b"])))
        elif k == 1:
            out.append(("attlist", "x", "a", lit(rng.choice(["dflt", "!ENTITY q 'v'", "]>", ""]), rng.random() < 0.5)))
        elif k == 2:
            out.append(("notation", "n" + str(rng.randrange(3)), ("system", lit("urn:n"))))
        elif k == 3:
            out.append(("comment", rng.choice([" c ", ' <!ENTITY e "v"> ', " ]> ", " % p; "])))
        else:
            out.append(("space", rng.choice(WS)))
    return out


def mix(rng, core, extra):
    """insert the filler items at random positions, keeping the order of core"""
    out = list(core)
    for f in extra:
        out.insert(rng.randrange(len(out) + 1), f)
    return out


def gen_attack(rng, method, kind, decoy, n, force_decl=None):
    """One term of the grammar for `method`.  `decoy` = path of the decoy file, `n` a serial for names."""
    file_uri = "file://" + decoy
    http_uri = "http://127.0.0.1:9/c19-%d.dtd" % n
    uri = rng.choice([file_uri, file_uri, http_uri, "file://localhost" + decoy, "http://localhost:9/x?%d" % n])
    sq = rng.random() < 0.3
    name = rng.choice(["e", "xxe", "E1", "a.b", "_e"])
    fill = filler_items(rng, rng.choice([0, 0, 1, 3]))
    before = gen_before(rng, force_decl)
    after = [("space", rng.choice(WS))] if rng.random() < 0.3 else []
    ext = rng.choice([None, None, ("system", lit("urn:x")), ("public", lit("-//X//DTD Y//EN"), lit(file_uri, True))])
    where = rng.choice(["text", "text", "attr"])
    ref = "&%s;" % name

    def root(refs=ref):
        return root_for(method, refs if where == "text" else "", refs if where == "attr" else "", tag_hint="h%d" % n)

    rk = "valid"
    if kind == "ext_general":
        items = [("entity", ("external", name, ("system", lit(uri, sq))))]
        r = root()
    elif kind == "ext_public":
        items = [("entity", ("external", name, ("public", lit("-//C19//ENT//EN"), lit(uri, sq))))]
        r = root()
    elif kind == "ext_param":
        items = [("entity", ("pexternal", "p", ("system", lit(uri, sq)))), ("peref", "p")]
        r = root("")
    elif kind == "oob":
        inner = "<!ENTITY &#x25; ex SYSTEM 'http://127.0.0.1:9/?%file;'>"
        items = [("entity", ("pexternal", "file", ("system", lit(file_uri)))),
                 ("entity", ("pinternal", "eval", lit(inner))), ("peref", "eval"), ("peref", "ex")]
        r = root("")
    elif kind == "lol":
        d, k = rng.choice([(1, 1), (12, 10), (rng.randint(1, 12), rng.randint(1, 10)), (rng.randint(2, 6), rng.randint(2, 10))])
        items = [("entity", ("internal", "l0", lit("lol")))]
        for i in range(1, d + 1):
            items.append(("entity", ("internal", "l%d" % i, (rng.random() < 0.2, [("r", "&l%d;" % (i - 1), k)]))))
        name = "l%d" % d
        ref = "&%s;" % name
        r = root(ref)
        kind = "lol"
    elif kind == "quadratic":
        size = rng.choice([1000, 20000, 50000])
        m = rng.choice([10, 500, 2000])
        items = [("entity", ("internal", "a", (False, [("r", "A", size)])))]
        r = root_for(method, "", "", tail_pieces=[("r", "&a;", m)], tag_hint="h%d" % n)
    elif kind == "unparsed":
        items = [("notation", "nt", ("system", lit("urn:nt"))), ("entity", ("unparsed", name, ("system", lit(uri, sq)), "nt"))]
        r = root("")
    elif kind == "internal":
        items = [("entity", ("internal", name, lit(rng.choice(["v", "<b>x</b>", "&#60;", ""]), sq)))]
        r = root()
    elif kind == "pinternal":
        items = [("entity", ("pinternal", "p", lit("<!ELEMENT x ANY>"))), ("peref", "p")]
        r = root("")
    elif kind == "subset_mix":
        core = [("entity", ("internal", name, lit("v")))]
        fill = filler_items(rng, rng.randint(3, 8))
        items = core
        r = root()
    # ---- classes defusedxml's defaults accept (nothing is resolved): not rejected, still monitored
    elif kind == "bare_doctype":
        items = None
        ext = None
        r = root("")
    elif kind == "extid_only":
        items = None
        ext = rng.choice([("system", lit(uri, sq)), ("public", lit("-//X//Y//EN"), lit(uri, sq))])
        r = root("")
    elif kind == "subset_noent":
        items = []
        fill = filler_items(rng, rng.randint(1, 6))
        r = root("")
    elif kind == "doctype_undef":
        items = rng.choice([None, []])
        if items is None:
            fill = []
        ext = rng.choice([None, ("system", lit(uri, sq))])
        where = "text"
        r = root("&undefined%d;" % n)
        rk = "undef"
    elif kind == "extid_undef_attr":
        # an external subset is declared (never loaded) and the document is not standalone: a reference to an undeclared
        # entity inside an ATTRIBUTE VALUE is then not a well-formedness error; expat skips it (nothing is resolved)
        items = None
        ext = ("system", lit(uri, sq))
        where = "attr"
        r = root("x&undefined%d;y" % n)
    elif kind == "doctype_malformed":
        items = rng.choice([None, []])
        if items is None:
            fill = []
        r = malformed_root(method, rng)
        rk = "malformed"
    elif kind == "entity_malformed_root":
        items = [("entity", ("internal", name, lit("v")))]
        r = malformed_root(method, rng)
        rk = "malformed"
    # ---- control stream: no DOCTYPE
    elif kind == "valid":
        r = root_for(method, rng.choice(["", "t", "é", "a &amp; b", "<![CDATA[<!DOCTYPE x [<!ENTITY e 'v'>]>]]>"]), "",
                     tag_hint="h%d" % n)
        return dict(before=before, doctype=None, after=after, root=r, rootkind="valid", kind=kind)
    elif kind == "malformed":
        return dict(before=before, doctype=None, after=after, root=malformed_root(method, rng), rootkind="malformed", kind=kind)
    elif kind == "undef":
        r = root_for(method, "&nosuch;", "", tag_hint="h%d" % n)
        return dict(before=before, doctype=None, after=after, root=r, rootkind="undef", kind=kind)
    else:
        raise ValueError(kind)
    subset = None if items is None else mix(rng, items, fill)
    dt = dict(name=rng.choice(["x", "D:propfind", "doc"]), ext=ext, subset=subset)
    return dict(before=before, doctype=dt, after=after, root=r, rootkind=rk, kind=kind)


def lol_attack(method, d, k, n):
    """nested expansion of depth d and fan-out k with a fixed shape (amplifiers of the resource monitors)"""
    items = [("entity", ("internal", "l0", lit("lol")))]
    for i in range(1, d + 1):
        items.append(("entity", ("internal", "l%d" % i, (False, [("r", "&l%d;" % (i - 1), k)]))))
    return dict(before=[("pi", "xml", 'version="1.0"')], doctype=dict(name="x", ext=None, subset=items), after=[],
                root=root_for(method, "&l%d;" % d, "", tag_hint="a%d" % n), rootkind="valid", kind="lol-%d-%d" % (d, k))


HOSTILE_KINDS = ["ext_general", "ext_general", "ext_public", "ext_param", "oob", "lol", "lol", "quadratic", "unparsed",
                 "internal", "pinternal", "subset_mix", "entity_malformed_root"]
ACCEPTED_KINDS = ["bare_doctype", "extid_only", "subset_noent", "doctype_undef", "doctype_malformed", "extid_undef_attr"]
CONTROL_KINDS = ["valid", "valid", "malformed", "undef"]


# ---------------------------------------------------------------------------------------------- charset polyglots
# ASCII bytes that are a harmless document when read as utf-8 / latin-1 (the DOCTYPE sits inside a comment, the entity
# reference is plain text) and a hostile one when read with a codec that rewrites ASCII escapes (utf-7, unicode_escape,
# raw_unicode_escape): the escapes hide the end of the first comment, the start of the second one and the '&'.
import base64 as _b64


def _u7(t):
    return "+" + _b64.b64encode(t.encode("utf-16-be")).decode().rstrip("=") + "-"


TRANSFORMS = {
    "utf-7": _u7,
    "unicode_escape": lambda t: "".join("\\x%02x" % ord(c) for c in t),
    "raw_unicode_escape": lambda t: "".join("\\u%04x" % ord(c) for c in t),
}


def polyglot(method, codec, n, depth=2, fan=3):
    """(term of the grammar = the hostile reading, ASCII bytes, harmless reading)"""
    esc = TRANSFORMS[codec]
    items = [("entity", ("internal", "a", lit("XPND%d" % n)))]
    prev = "a"
    for i in range(depth):
        name = "b%d" % i
        items.append(("entity", ("internal", name, (False, [("r", "&%s;" % prev, fan)]))))
        prev = name
    a = dict(before=[("pi", "xml", 'version="1.0"'), ("space", "\n"), ("comment", " "), ("space", " ")],
             doctype=dict(name="r", ext=None, subset=items),
             after=[("space", " "), ("comment", " "), ("space", "\n")],
             root=root_for(method, "&%s;" % prev, "", tag_hint="p%d" % n), rootkind="valid", kind="polyglot-" + codec)
    hostile = render(a)
    # hide: the "-->" of the first comment, the "<!--" of the second, the '&' of the root element
    i = hostile.index("-->")
    j = hostile.rindex("<!--")
    k = hostile.index("&", hostile.index("]>"))
    assert i < j < k
    raw = (hostile[:i] + esc("-->") + hostile[i + 3:j] + esc("<!--") + hostile[j + 4:k] + esc("&") + hostile[k + 1:])
    data = raw.encode("ascii")
    assert data.decode(codec) == hostile, (codec, data.decode(codec)[:200])
    return a, data, raw
