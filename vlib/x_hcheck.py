"""Shared driver for the checks built on Model/Handlers.v (C01, C03, C08, C15):
generate seeded histories, run the real server, compare with the Coq model (responses after every request and
the final store), shrink a disagreement, and hand every step to the property's monitors."""
import json
import os

from vlib import x_handlers as xh

_ETAGS = None
EXTRA = ["Model/HandlersCanon.vo"]      # what the correspondence files import beyond the Props dependencies


def etags():
    global _ETAGS
    if _ETAGS is None:
        _ETAGS = xh.EtagTable()
    return _ETAGS


def corpus_cases(pid):
    """Minimised past failures (committed under corpus/<pid>/*.json) run first."""
    d = os.path.join(os.path.dirname(os.path.dirname(os.path.abspath(__file__))), "corpus", pid)
    out = []
    if os.path.isdir(d):
        for f in sorted(os.listdir(d)):
            if f.endswith(".json"):
                c = json.load(open(os.path.join(d, f)))
                out.append((detuple_world(c["world"]), detuple_hist(c["history"])))
    return out


def to_tuple(x):
    if isinstance(x, list):
        return tuple(to_tuple(e) for e in x)
    return x


def detuple_world(w):
    cfg, pols = w
    return (tuple(cfg), [(u, {to_tuple(eval(k)) if isinstance(k, str) else to_tuple(k): v for k, v in t.items()}) for u, t in pols])


def detuple_hist(h):
    def fix(r):
        k = r[0]
        if k == "RPut":
            return ("RPut", to_tuple(r[1]), r[2], fix_body(r[3]), fix_cond(r[4]), r[5])
        if k == "RDelete":
            return ("RDelete", to_tuple(r[1]), fix_cond(r[2]))
        if k == "RMove":
            return ("RMove", to_tuple(r[1]), r[2], to_tuple(r[3]), r[4])
        if k in ("RMkcol", "RMkcalendar", "RProppatch"):
            return (k, to_tuple(r[1]), fix_x(r[2]))
        if k == "RGet":
            return ("RGet", to_tuple(r[1]))
        if k == "RPropfind":
            return ("RPropfind", to_tuple(r[1]), r[2])
        if k == "RQuery":
            return ("RQuery", to_tuple(r[1]), r[2], None if r[3] is None else tuple(r[3]))
        return ("RMultiget", to_tuple(r[1]), r[2], [to_tuple(h) for h in r[3]])

    def fix_body(b):
        return (b[0],) if len(b) == 1 else (b[0], [tuple(o) for o in b[1]])

    def fix_cond(c):
        if len(c) == 1:
            return (c[0],)
        e = c[1]
        return (c[0], (e[0], tuple(e[1])) if len(e) > 1 else (e[0],))

    def fix_x(x):
        if len(x) == 1:
            return (x[0],)
        return (x[0], tuple(x[1]), [(k, v) for k, v in x[2]])
    return [(ui, fix(r)) for ui, r in h]


def world_json(w):
    cfg, pols = w
    return [list(cfg), [[u, {repr(k): v for k, v in t.items()}] for u, t in pols]]


def run_histories(ctx, n, hist_len=(5, 30), storage_types=("multifilesystem",), layouts=({},), gen=None,
                  monitor=None, tag="h", pid=None, compare_store=True, disagreement_is_violation=False, directed=True):
    """Returns the list of (case, outputs) evaluated.  Records obligations `correspondence:<tag>-responses`
    and `correspondence:<tag>-store`; calls monitor(world, hist, outs, runner) per history."""
    et = etags()
    rng = ctx.rng
    cases = []
    for world, hist in corpus_cases(pid or ctx.pid):
        cases.append((world, hist))
    n_corpus = len(cases)
    n_directed = 0
    if directed:
        # the handlers' decision tables, deterministically (first back-end / layout only)
        dc = xh.directed_cases()
        cases += dc
        n_directed = len(dc)
    ctx.count("histories:directed", n_directed)
    for _ in range(n):
        if gen is not None:
            world, hist = gen(rng, et)
        else:
            world = xh.gen_world(rng)
            hist = xh.gen_history(rng, rng.randrange(*hist_len), et)
        cases.append((world, hist))
    ctx.count("histories:corpus", n_corpus)
    results = []
    store_cases = []
    for ci, (world, hist) in enumerate(cases):
        ref = None
        is_directed = n_corpus <= ci < n_corpus + n_directed
        for st in (storage_types[:1] if is_directed else storage_types):
            for layout in (layouts[:1] if is_directed else layouts):
                runner = xh.Runner(et, storage_type=st, layout=layout)
                outs = runner.run(world, hist, want_store=True)
                if ref is None:
                    ref = (outs, runner.final, st, layout)
                    results.append(((world, hist), outs))
                    store_cases.append(((world, hist), runner.final))
                    if monitor:
                        monitor(world, hist, outs, runner)
                else:
                    ctx.count("backend-comparisons")
                    if outs != ref[0] or runner.final != ref[1]:
                        k = next((i for i, (a, b) in enumerate(zip(outs, ref[0])) if a != b), None)
                        ctx.violation("storage back-ends / cache layouts answer differently (%s %s vs %s %s) at step %s" % (
                            st, layout, ref[2], ref[3], k),
                            dict(world=world_json(world), history=hist, step=k,
                                 a=repr(outs[k]) if k is not None else None, b=repr(ref[0][k]) if k is not None else None),
                            signature=None)
        nontriv = any(o[0] in ("S201", "S204", "S200") for o in outs) and len(runner.final) > 1
        ctx.case(("hist", repr(hist), repr(world)), nontrivial=nontriv)
        for o in outs:
            ctx.count("status:" + o[0])
        for _, r in hist:
            ctx.count("req:" + r[0])
    if results:
        (w0, h0), o0 = results[min(len(results) - 1, n_corpus)]
        ctx.samples.append(dict(history=[repr(x) for x in h0[:8]], responses=[repr(x[0]) for x in o0[:8]]))
    bad = ctx.diff_cases(tag + "_resp", xh.COQ_HEADER, "run_case", results, xh.enc_case, xh.enc_cresps, "resps_eqb", shard=25)
    if bad is not None:
        ctx.obligation("correspondence:%s-responses" % tag, not bad,
                       "" if not bad else "model and implementation differ on %d of %d histories" % (len(bad), len(results)))
        for b in bad[:1]:
            explain(ctx, results[b], tag)
            if disagreement_is_violation and "disagreement" in ctx.extra:
                # C01: the model IS the specification (outcome class and payload of every request)
                d = ctx.extra["disagreement"]
                ctx.violation("request %d %s is answered %s; the ideal store predicts %s" % (
                    d["step"], d["request"], d["implementation"], " ".join(d["model"].split())[:200]),
                    dict(world=d["world"], history=d["history"], step=d["step"]))
    if compare_store:
        bad2 = ctx.diff_cases(tag + "_store", xh.COQ_HEADER, "run_case_store", store_cases, xh.enc_case, xh.enc_cstore,
                              "cstore_eqb", shard=25)
        if bad2 is not None:
            ctx.obligation("correspondence:%s-store" % tag, not bad2,
                           "" if not bad2 else "final stores differ on %d histories, first: %r" % (len(bad2), store_cases[bad2[0]][1]))
            if bad2 and not bad:
                (world, hist), fin = store_cases[bad2[0]]
                ctx.extra["store_disagreement"] = dict(world=world_json(world), history=[repr(h) for h in hist], impl_store=repr(fin),
                                                       model_store=ctx.coq_show(xh.COQ_HEADER, "run_case_store %s" % xh.enc_case((world, hist))))
    return results


def explain(ctx, res, tag):
    """Shrink a disagreeing history to the first differing step and record both answers."""
    (world, hist), outs = res
    for k in range(1, len(hist) + 1):
        b = ctx.diff_cases(tag + "_pfx", xh.COQ_HEADER, "run_case", [((world, hist[:k]), outs[:k])],
                           xh.enc_case, xh.enc_cresps, "resps_eqb")
        if b:
            model = ctx.coq_show(xh.COQ_HEADER, "nth %d (run_case %s) (S500, CPNone)" % (k - 1, xh.enc_case((world, hist[:k]))))
            ctx.extra["disagreement"] = dict(step=k - 1, request=repr(hist[k - 1]), implementation=repr(outs[k - 1]),
                                             model=model, world=world_json(world), history=[repr(h) for h in hist[:k]])
            ctx.log("model/implementation disagreement at step", k - 1, hist[k - 1], "impl:", outs[k - 1], "model:", model[:300])
            return


def unchanged_but_home(prev, dump, ui):
    """True when the directory dump equals the previous one, possibly plus the requesting user's new empty home."""
    if dump == prev:
        return True
    user = xh.USERS[ui]
    if not user:
        return False
    home = (xh.USER_NAME[user],)
    if any(p == home for p, *_ in prev):
        return False
    return dump == sorted(prev + [(home, "TNone", [], [])])
