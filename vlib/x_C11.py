"""C11 harness: run the REAL lock classes of Radicale under a scripted (cooperative) scheduler.

The real classes
    radicale.storage.multifilesystem_nolock.RwLock   (condition-variable lock)
    radicale.pathutils.RwLock                        (flock-based lock)
    radicale.storage.multifilesystem_nolock.LockDict (keyed FIFO lock)
are executed unchanged.  Only the names `threading`, `fcntl` and `open` in the namespaces of the two modules are
replaced by stand-ins:
  * `threading.Lock` -> CoopLock: every blocking acquire() and every release() is a yield point of the scheduler
    (acquire(blocking=False) -- used by Condition._is_owned -- is not);
  * `threading.Condition` -> CPython's own `threading.Condition` source, re-executed with `_allocate_lock` = CoopLock,
    so wait / wait_for / notify / notify_all are the real CPython code running over cooperative locks;
  * `fcntl.flock` -> a kernel table of (descriptor -> mode) shared by all simulated processes, a yield point that is
    enabled when the request is compatible; `open` -> a fake file whose close() is a yield point that drops the lock.
Worker threads are real Python threads; exactly one runs at a time (baton passing), so a schedule -- a list of
thread numbers -- determines the execution completely.  After every step the harness reads the real objects'
fields; that observation is what is compared with the Coq model's state (same encoding as `observe` in the .v files).
"""
import _thread
import collections
import os
import inspect
import sys
import threading as _real_threading
import time
import types


def _signal():
    """A binary semaphore, initially empty (raw lock: the hand-off is on the hot path)."""
    lk = _thread.allocate_lock()
    lk.acquire()
    return lk

_local = _real_threading.local()


class Deadlock(Exception):
    pass


class LogicalClock:
    """Time as the Condition code sees it (`_time`): it advances only when the scheduler lets a timed wait expire."""
    now = 0.0

    @classmethod
    def time(cls):
        return cls.now


class Scheduler:
    """Baton-passing scheduler.  Workers call yield_point(op) before every blocking primitive."""

    def __init__(self):
        self.workers = []          # Worker objects
        self.main_sem = _signal()
        self.locks = []            # every CoopLock created, in creation order

    def current(self):
        return getattr(_local, "worker", None)

    def yield_point(self, op):
        w = self.current()
        if w is None:
            return                 # main thread (constructors, observation): no scheduling
        if w.abort:
            raise Aborted()
        w.pending = op
        self.main_sem.release()    # hand the baton back
        w.sem.acquire()            # wait to be scheduled
        if w.abort:
            raise Aborted()
        w.pending = None
        w.last_op = op

    def start(self, bodies):
        for i, body in enumerate(bodies):
            w = Worker(self, i, body)
            self.workers.append(w)
        for w in self.workers:
            _thread.start_new_thread(w._run, ())
            self.main_sem.acquire()          # runs until its first yield point (or the end)

    def enabled(self, i):
        w = self.workers[i]
        if w.done or w.pending is None:
            return False
        return op_enabled(w.pending)

    def step(self, i):
        w = self.workers[i]
        assert self.enabled(i), "thread %d is not enabled" % i
        w.sem.release()
        self.main_sem.acquire()

    def all_done(self):
        return all(w.done for w in self.workers)

    def abort(self):
        """Let all blocked workers die (used when a run is abandoned)."""
        for w in self.workers:
            if not w.done:
                w.abort = True
                w.sem.release()
        for w in self.workers:
            if w.fin.acquire(True, 2):
                w.fin.release()


class Aborted(BaseException):
    pass


def _quiet_unraisable(args, _old=sys.unraisablehook):
    if isinstance(args.exc_value, Aborted):     # generators of abandoned runs being finalised
        return
    _old(args)


sys.unraisablehook = _quiet_unraisable


class Worker:
    def __init__(self, sched, idx, body):
        self.sched = sched
        self.idx = idx
        self.body = body
        self.sem = _signal()
        self.fin = _signal()
        self.pending = None
        self.last_op = None
        self.done = False
        self.abort = False
        self.error = None
        self.phase = "idle"
        self.mode = None
        self.seen = None
        self.seen_now = None
        self.my_lock = None
        self.fail = 0
        self.refused = 0
        self.timeouts = 0
        self.key = None

    def _run(self):
        _local.worker = self
        try:
            self.body(self)
        except Aborted:
            pass
        except BaseException as e:   # noqa: B902 -- recorded and reported as a violation by the caller
            self.error = e
        self.done = True
        self.pending = None
        self.fin.release()
        if not self.abort:
            self.sched.main_sem.release()


def op_enabled(op):
    kind = op[0]
    if kind == "acq":
        # a blocked acquire WITH a timeout can always move: the scheduler may let the time-out expire
        return (not op[1]._locked) or (len(op) > 2 and op[2] is not None)
    if kind == "flock":
        return bool(op[4]) or op[1].compatible_fd(op[2], op[3])     # an injected fault returns at once
    return True                     # rel, close


class CoopLock:
    """Stand-in for threading.Lock (a non-reentrant binary lock)."""
    sched = None                    # set per run
    private_for_workers = False     # CacheSystem: locks created by a worker are unreachable for other threads
                                    # (fields of a RwLock object local to one call): their operations commute with
                                    # everything and are not yield points (sound partial-order reduction)

    def __init__(self):
        self._locked = False
        self.owner = None
        w = CoopLock.sched.current() if CoopLock.sched else None
        self.creator = w.idx if w is not None else None
        self.acquired = 0
        self.private = CoopLock.private_for_workers and w is not None
        if CoopLock.sched is not None:
            CoopLock.sched.locks.append(self)
        if w is not None:
            w.my_lock = self        # the most recent lock created by this thread = its current waiter lock

    def acquire(self, blocking=True, timeout=-1):
        sched = CoopLock.sched
        w = sched.current() if sched else None
        if not blocking:
            if self._locked:
                return False
            self._locked = True
            self.owner = w.idx if w else None
            self.acquired += 1
            return True
        if w is None:
            if self._locked:
                raise Deadlock("main thread would block")
            self._locked = True
            self.owner = None
            self.acquired += 1
            return True
        timed = timeout if (timeout is not None and timeout >= 0) else None
        if not self.private:
            sched.yield_point(("acq", self, timed))
        if w.abort:
            raise Aborted()
        if self._locked and timed is not None:
            LogicalClock.now += timed          # scheduled while the lock is taken: the time-out expires
            w.timeouts += 1
            return False
        assert not self._locked
        self._locked = True
        self.owner = w.idx
        self.acquired += 1
        return True

    def release(self):
        sched = CoopLock.sched
        w = sched.current() if sched else None
        if w is not None:
            if not self.private:
                sched.yield_point(("rel", self))
            if w.abort:
                raise Aborted()
        if not self._locked:
            raise RuntimeError("release unlocked lock")
        self._locked = False
        self.owner = None

    def locked(self):
        return self._locked

    __enter__ = acquire

    def __exit__(self, *a):
        self.release()


_COND_CLASS = []


def make_condition_class():
    """CPython's threading.Condition, re-executed over CoopLock."""
    if _COND_CLASS:
        return _COND_CLASS[0]
    src = inspect.getsource(_real_threading.Condition)
    ns = {"_allocate_lock": CoopLock, "_deque": collections.deque, "_time": LogicalClock.time, "RLock": None}
    exec(compile(src, "<threading.Condition over CoopLock>", "exec"), ns)
    _COND_CLASS.append(ns["Condition"])
    return ns["Condition"]


class Kernel:
    """The kernel as far as flock is concerned: a directory (path -> inode) and the flock table keyed by the INODE an
    open file description refers to.  open(path) binds to the path's current inode (a fresh one if there is none);
    unlink(path) removes the directory entry, descriptions opened earlier keep their inode."""

    def __init__(self):
        self.paths = {}            # path -> inode, insertion order
        self.path_key = {}         # path -> key number of the thread that first opened it (for observation)
        self.next_ino = 0
        self.next_fd = 100
        self.fd_ino = {}
        self.fd_owner = {}
        self.held = {}             # fd -> (inode, mode), insertion order
        self.fd_path = {}
        self.forced = set()        # descriptors whose lock was granted by an injected kernel fault
        self.unlinked_held = []    # rule: a lock file that some live descriptor holds a flock on is never unlinked
        self.fileops = set()       # kinds of file operations seen on lock files
        self.norm = None           # optional path normalisation (deployments: several spellings of one folder)

    def bind(self, path):
        if self.norm is not None:        # identity of the FILE, not of its spelling
            path = self.norm(path)
        if path not in self.paths:
            self.paths[path] = self.next_ino
            self.next_ino += 1
        return self.paths[path]

    def compatible_fd(self, fd, mode):
        ino = self.fd_ino[fd]
        others = [m for f, (i, m) in self.held.items() if i == ino and f != fd]
        if mode == "w":
            return not others
        return all(m == "r" for m in others)

    def modes(self):
        return [m for (_, m) in self.held.values()]

    def path_conflict(self):
        """Per-path exclusion, stated on the kernel: two live descriptors that were opened through the SAME path and
        both hold a flock lock must be compatible (whatever inodes they ended up on)."""
        by_path = collections.defaultdict(list)
        for fd, (ino, m) in self.held.items():
            if fd not in self.forced:
                by_path[self.fd_path[fd]].append((fd, ino, m))
        for path, hs in by_path.items():
            if len(hs) > 1 and any(m == "w" for _, _, m in hs):
                return "lock file %r is held by %s at the same time" % (
                    os.path.basename(path), ", ".join("thread %s (inode %d, %s)" % (self.fd_owner[f], i, m) for f, i, m in hs))
        return None

    def holders_of_path(self, path):
        ino = self.paths.get(path)
        return [fd for fd, (i, _) in self.held.items() if i == ino]


class FakeFcntl:
    LOCK_SH = 1
    LOCK_EX = 2
    LOCK_UN = 8

    def __init__(self, kernel):
        self.kernel = kernel

    def flock(self, fd, cmd):
        sched = CoopLock.sched
        w = sched.current()
        mode = "w" if cmd == self.LOCK_EX else "r"
        self.kernel.fileops.add("flock")
        fault = getattr(w, "fail", 0) if w is not None else 0
        sched.yield_point(("flock", self.kernel, fd, mode, fault))
        if w is not None and w.abort:
            raise Aborted()
        if fault == 1:                       # the environment makes flock fail (ENOLCK, EIO, ...)
            w.fail = 0
            raise OSError(37, "No locks available")
        if fault == 2:                       # the kernel misbehaves once: grants although incompatible
            w.fail = 0
            self.kernel.forced.add(fd)
        else:
            assert self.kernel.compatible_fd(fd, mode)
        self.kernel.held[fd] = (self.kernel.fd_ino[fd], mode)


class FakeFile:
    def __init__(self, kernel, path):
        self.kernel = kernel
        self.path = path
        self.fd = kernel.next_fd
        kernel.next_fd += 1
        w = CoopLock.sched.current() if CoopLock.sched else None
        if w is not None and path not in kernel.path_key:
            kernel.path_key[path] = w.key
        kernel.fileops.add("open")
        kernel.fd_ino[self.fd] = kernel.bind(path)
        kernel.fd_path[self.fd] = path
        if os.path.isdir(os.path.dirname(path)):     # directory scans of the real code must see the lock file
            with open(path, "a"):
                pass
        kernel.fd_owner[self.fd] = w.idx if w is not None else None
        self.closed = False

    def fileno(self):
        return self.fd

    def close(self):
        sched = CoopLock.sched
        w = sched.current()
        self.kernel.fileops.add("close")
        sched.yield_point(("close", self.kernel, self.fd))
        if w is not None and w.abort:
            raise Aborted()
        self.kernel.held.pop(self.fd, None)
        self.closed = True

    def __enter__(self):
        return self

    def __exit__(self, *a):
        self.close()


class FakeOs:
    """Stand-in for the `os` module in radicale.storage.multifilesystem.lock: everything is the real os except the
    calls that would take a lock file away (remove / unlink / rename / replace), which act on the Kernel's directory
    and are yield points."""

    def __init__(self, kernel, real_os):
        self._kernel = kernel
        self._os = real_os

    def __getattr__(self, name):
        return getattr(self._os, name)

    def _is_lock(self, path):
        return path in self._kernel.paths or self._os.path.basename(str(path)).startswith(".Radicale.lock")

    def _unlink(self, path, kind):
        if not self._is_lock(path):
            return getattr(self._os, kind)(path)
        sched = CoopLock.sched
        w = sched.current()
        self._kernel.fileops.add(kind)
        sched.yield_point(("unlink", self._kernel, path))
        if w is not None and w.abort:
            raise Aborted()
        if path not in self._kernel.paths:
            raise FileNotFoundError(path)
        holders = self._kernel.holders_of_path(path)
        if holders:
            self._kernel.unlinked_held.append("%s of lock file %r while thread(s) %s hold a flock lock on it" % (
                kind, self._os.path.basename(path), sorted(set(self._kernel.fd_owner[f] for f in holders))))
        del self._kernel.paths[path]
        if self._os.path.lexists(path):
            self._os.remove(path)

    def remove(self, path, **k):
        return self._unlink(path, "remove")

    def unlink(self, path, **k):
        return self._unlink(path, "unlink")

    def _rename(self, src, dst, kind):
        if not (self._is_lock(src) or self._is_lock(dst)):
            return getattr(self._os, kind)(src, dst)
        sched = CoopLock.sched
        self._kernel.fileops.add(kind)
        sched.yield_point(("unlink", self._kernel, src))
        ino = self._kernel.paths.pop(src, None)
        if ino is None:
            raise FileNotFoundError(src)
        self._kernel.paths[dst] = ino

    def rename(self, src, dst, **k):
        return self._rename(src, dst, "rename")

    def replace(self, src, dst, **k):
        return self._rename(src, dst, "replace")


class Patched:
    """Context manager: stand-ins installed in the namespaces of the two Radicale modules."""

    def __init__(self, kernel=None):
        self.kernel = kernel

    def __enter__(self):
        from radicale import pathutils
        from radicale.storage import multifilesystem_nolock as nolock
        self.pathutils, self.nolock = pathutils, nolock
        fake = types.SimpleNamespace(Lock=CoopLock, Condition=make_condition_class())
        self.saved = (pathutils.threading, nolock.threading, getattr(pathutils, "fcntl", None),
                      pathutils.__dict__.get("open", None))
        pathutils.threading = fake
        nolock.threading = fake
        if self.kernel is not None:
            pathutils.fcntl = FakeFcntl(self.kernel)
            kernel = self.kernel
            def fake_open(path, mode="r", *a, **k):
                w = CoopLock.sched.current() if CoopLock.sched else None
                if w is not None and getattr(w, "open_fail", 0) and "/.Radicale.cache/" in str(path):
                    w.open_fail = 0              # injected fault: the process is out of file descriptors
                    kernel.fileops.add("open")
                    raise OSError(24, "Too many open files", str(path))
                return FakeFile(kernel, path)
            pathutils.open = fake_open
            from radicale.storage.multifilesystem import lock as lock_mod
            self.lock_mod = lock_mod
            self.saved_os = lock_mod.os
            lock_mod.os = FakeOs(kernel, lock_mod.os)
        return self

    def __exit__(self, *a):
        self.pathutils.threading, self.nolock.threading = self.saved[0], self.saved[1]
        if self.kernel is not None:
            self.lock_mod.os = self.saved_os
            self.pathutils.fcntl = self.saved[2]
            if self.saved[3] is None:
                self.pathutils.__dict__.pop("open", None)
            else:
                self.pathutils.open = self.saved[3]
        CoopLock.sched = None
        CoopLock.private_for_workers = False


SEEN = {None: 0, "r": 1, "w": 2, "": 3}


class Violation(Exception):
    def __init__(self, what):
        Exception.__init__(self, what)
        self.what = what


# ====================================================================================== the three systems
_COND_TMP = []


class CondSystem:
    """The real multifilesystem_nolock.RwLock; programs: per thread a list of (mode, nqueries)."""
    kind = "cond"

    def __init__(self, progs):
        self.progs = progs
        self.patch = Patched()
        self.patch.__enter__()
        self.sched = Scheduler()
        CoopLock.sched = self.sched
        # the lock object as the server builds it: Storage.__init__ of the nolock back-end with the default configuration
        import logging
        import tempfile
        from radicale import config
        logging.getLogger("radicale").setLevel(logging.CRITICAL)
        if not _COND_TMP:
            import atexit
            import shutil
            _COND_TMP.append(tempfile.mkdtemp(prefix="rv-c11cond-"))      # one folder per process, removed at exit
            atexit.register(shutil.rmtree, _COND_TMP[0], True)
        self.tmp = _COND_TMP[0]
        conf = config.load()
        conf.update({"storage": {"type": "multifilesystem_nolock", "filesystem_folder": self.tmp}}, "c11", privileged=True)
        LogicalClock.now = 0.0
        self.lock = self.patch.nolock.Storage(conf)._lock
        self.mutex = self.lock._lock
        self.sched.start([self._body(p) for p in progs])

    def close(self):
        self.sched.abort()
        self.patch.__exit__()

    def _body(self, prog):
        lock = self.lock

        def body(w):
            for mode, nq in prog:
                w.mode = mode
                w.phase = "acquire"
                w.my_lock = None
                w.seen_now = None
                cm = lock.acquire(mode)
                cm.__enter__()
                w.phase = "body"
                for _ in range(nq):
                    w.seen = w.seen_now = lock.locked
                w.phase = "release"
                cm.__exit__(None, None, None)
                w.phase = "idle"
        return body

    # ---- observation, same layout as RwLockCond.observe
    def pc(self, w):
        if w.done:
            return 0
        kind, lk = w.pending[0], w.pending[1]
        if lk is self.mutex:
            if kind == "acq":
                if w.phase == "acquire":
                    return 8 if (w.my_lock is not None and w.my_lock.acquired >= 2) else 1
                return 9
            if w.phase == "acquire":
                return 6 if (w.my_lock is not None and w.my_lock.acquired == 1 and w.last_op[1] is w.my_lock) else 4
            return 11 if w.phase == "body" else 15
        if kind == "acq":
            return 5 if lk.acquired == 0 else 7
        return 14

    def observe(self):
        lock, s = self.lock, self.sched
        waiters = [wl.creator for wl in lock._cond._waiters]
        out = [self.mutex.owner if self.mutex._locked else -1, lock._readers, 1 if lock._writer else 0, len(waiters)]
        out += waiters + [-2]
        for w in s.workers:
            ml = getattr(w, "my_lock", None)
            notified = 1 if (ml is not None and w.phase == "acquire" and ml.acquired >= 1 and not ml._locked) else 0
            pc = self.pc(w)
            out += [pc, 1 if s.enabled(w.idx) else 0, notified, 9 if pc == 11 else SEEN[w.seen]]
        return out

    # ---- the property, stated directly on the real object
    def monitor(self):
        lock, s = self.lock, self.sched
        for w in s.workers:
            if w.error is not None:
                raise Violation("thread %d raised %r" % (w.idx, w.error))
        body = [w for w in s.workers if w.phase == "body"]
        nw = sum(1 for w in body if w.mode == "w")
        nr = sum(1 for w in body if w.mode == "r")
        if nw > 1 or (nw == 1 and nr > 0):
            raise Violation("mutual exclusion: %d writers and %d readers inside the critical section" % (nw, nr))
        for w in body:
            if w.seen_now is not None and w.seen_now != w.mode:
                raise Violation("`locked` answered %r to a thread holding the lock in mode %r" % (w.seen_now, w.mode))
        if not self.mutex._locked:
            holders = [w for w in s.workers if w.phase == "body" or (w.phase == "release" and w.pending and w.pending[0] == "acq")]
            hr = sum(1 for w in holders if w.mode == "r")
            hw = sum(1 for w in holders if w.mode == "w")
            if lock._readers != hr or bool(lock._writer) != (hw == 1) or hw > 1:
                raise Violation("bookkeeping: _readers=%r _writer=%r but %d readers / %d writers hold the lock" % (
                    lock._readers, lock._writer, hr, hw))
            want = "r" if hr > 0 else ("w" if hw else "")
            got = lock.locked
            if got != want:
                raise Violation("`locked` returns %r while the lock is held %r" % (got, want))
            for wl in lock._cond._waiters:
                ww = s.workers[wl.creator]
                if wl._locked:
                    pred = (not lock._writer) and (ww.mode == "r" or lock._readers == 0)
                    if pred:
                        raise Violation("lost wake-up: thread %d waits un-notified for mode %r although the lock is free for it" % (
                            ww.idx, ww.mode))
        if not s.all_done() and not any(s.enabled(i) for i in range(len(s.workers))):
            raise Violation("deadlock: no thread can take a step, unfinished: %r" % [w.idx for w in s.workers if not w.done])


class FileSystem:
    """The real pathutils.RwLock, one instance per simulated process; progs: per thread (proc, [(mode, nq)])."""
    kind = "file"

    def __init__(self, progs):
        self.progs = progs
        self.kernel = Kernel()
        self.patch = Patched(self.kernel)
        self.patch.__enter__()
        self.sched = Scheduler()
        CoopLock.sched = self.sched
        nprocs = 1 + max([p for p, _ in progs] + [0])
        self.fault_mode = any(len(c) > 2 and c[2] == 2 for _, prog in progs for c in prog)
        self.locks = [self.patch.pathutils.RwLock("/nonexistent/.Radicale.lock") for _ in range(nprocs)]
        self.sched.start([self._body(p, prog) for p, prog in progs])

    def close(self):
        self.sched.abort()
        self.patch.__exit__()

    def _body(self, p, prog):
        lock = self.locks[p]

        fault_mode = self.fault_mode

        def body(w):
            w.proc = p
            for cyc in prog:
                mode, nq = cyc[0], cyc[1]
                fail = cyc[2] if len(cyc) > 2 else 0
                w.mode = mode
                w.phase = "acquire"
                w.seen_now = None
                w.fail = fail
                cm = lock.acquire(mode)
                try:
                    cm.__enter__()
                except RuntimeError:
                    if not (fail or fault_mode):
                        raise
                    w.refused += 1          # an expected refusal: the caller (a request) fails, the thread goes on
                    w.phase = "idle"
                    continue
                w.phase = "body"
                for _ in range(nq):
                    w.seen = w.seen_now = lock.locked
                w.phase = "release"
                cm.__exit__(None, None, None)
                w.phase = "idle"
        return body

    def pc(self, w):
        if w.done:
            return 14 if w.error is not None else 0
        kind = w.pending[0]
        if kind == "flock":
            return 1
        if kind == "close":
            return 15 if w.phase == "acquire" else 11
        if kind == "acq":
            return 2 if w.phase == "acquire" else 6
        if w.phase == "acquire":
            return 5
        return 8 if w.phase == "body" else 10

    def observe(self):
        s = self.sched
        held = self.kernel.modes()
        out = [held.count("r"), held.count("w")]
        for lk in self.locks:
            out += [lk._lock.owner if lk._lock._locked else -1, lk._readers, 1 if lk._writer else 0]
        out.append(-2)
        for w in s.workers:
            pc = self.pc(w)
            out += [pc, 1 if s.enabled(w.idx) else 0, 9 if pc == 8 else SEEN[w.seen]]
        return out

    def monitor(self):
        s = self.sched
        for w in s.workers:
            if w.error is not None:
                raise Violation("thread %d raised %r" % (w.idx, w.error))
        body = [w for w in s.workers if w.phase == "body"]
        nw = sum(1 for w in body if w.mode == "w")
        nr = sum(1 for w in body if w.mode == "r")
        if nw > 1 or (nw == 1 and nr > 0):
            raise Violation("mutual exclusion: %d writers and %d readers inside the critical section" % (nw, nr))
        for w in body:
            if w.seen_now is not None and w.seen_now != w.mode:
                raise Violation("`locked` answered %r to a thread holding the lock in mode %r" % (w.seen_now, w.mode))
        pc_ = self.kernel.path_conflict()
        if pc_:
            raise Violation(pc_)
        for p, lk in enumerate(self.locks):
            if lk._lock._locked:
                continue
            holders = [w for w in s.workers if getattr(w, "proc", None) == p and (
                w.phase == "body" or (w.phase == "release" and w.pending and w.pending[0] == "acq"))]
            hr = sum(1 for w in holders if w.mode == "r")
            hw = sum(1 for w in holders if w.mode == "w")
            if lk._readers != hr or bool(lk._writer) != (hw == 1) or hw > 1:
                raise Violation("bookkeeping of process %d: _readers=%r _writer=%r but %d readers / %d writers hold" % (
                    p, lk._readers, lk._writer, hr, hw))
            want = "r" if hr > 0 else ("w" if hw else "")
            if lk.locked != want:
                raise Violation("`locked` of process %d returns %r while held %r" % (p, lk.locked, want))
        if not s.all_done() and not any(s.enabled(i) for i in range(len(s.workers))):
            raise Violation("deadlock: no thread can take a step, unfinished: %r" % [w.idx for w in s.workers if not w.done])


# ---------------------------------------------------------------------------------- deployments: instances of one store
# A deployment = the [storage] configurations of several multifilesystem instances (processes) that serve ONE
# filesystem_folder.  A configuration is a JSON-friendly dict:
#   cache  "" | name            filesystem_cache_folder (a folder beside the data folder; "" = not configured)
#   sub    "000".."111"         use_cache_subfolder_for_item / _history / _synctoken
#   mtime  0 | 1                use_mtime_and_size_for_item_cache
#   umask  "" | "0077" | ...    folder_umask
#   spell  "" | "/" | "/." ...  suffix appended to the spelling of filesystem_folder (same folder, written differently)
CONF_DEFAULT = dict(cache="", sub="000", mtime=0, umask="", spell="")


def conf_norm(c):
    d = dict(CONF_DEFAULT)
    d.update(c or {})
    return d


def storage_options(base, c):
    """[storage] section of the instance `c` of the deployment living under `base` (creates the folders)."""
    c = conf_norm(c)
    o = {"type": "multifilesystem", "filesystem_folder": os.path.join(base, "data") + c["spell"], "_filesystem_fsync": "False",
         "use_cache_subfolder_for_item": str(c["sub"][0] == "1"), "use_cache_subfolder_for_history": str(c["sub"][1] == "1"),
         "use_cache_subfolder_for_synctoken": str(c["sub"][2] == "1"), "use_mtime_and_size_for_item_cache": str(bool(c["mtime"]))}
    # an installed store: the folders exist (with folder_umask set the constructor cannot create them itself: it calls
    # _makedirs_synced before it has parsed the umask)
    os.makedirs(os.path.join(base, "data", "collection-root"), exist_ok=True)
    os.makedirs(os.path.join(base, "data", "collection-cache"), exist_ok=True)
    if c["cache"]:
        o["filesystem_cache_folder"] = os.path.join(base, c["cache"])
        os.makedirs(os.path.join(base, c["cache"], "collection-cache"), exist_ok=True)
    if c["umask"]:
        o["folder_umask"] = c["umask"]
    return o


def base_deployments():
    """The legal ways two instances can differ while sharing the data folder (systematic part of the matrix)."""
    A = dict(cache="cache-a", sub="100")
    return [
        [{}, {}],                                                        # twice the default configuration
        [A, dict(cache="cache-b", sub="100")],                           # node-local cache folders (documented set-up)
        [A, dict(A)],                                                    # one shared cache folder
        [A, {}],                                                         # only one instance has a cache folder
        [dict(cache="cache-a", sub="111"), dict(cache="cache-b", sub="010", mtime=1)],
        [dict(cache="cache-a", sub="000"), dict(cache="cache-a", sub="101")],
        [dict(umask="0077"), dict(umask="0027", cache="cache-b")],
        [dict(spell="/"), dict(spell="/.", cache="cache-a", sub="100")],  # the same folder spelled differently
    ]


def random_conf(rng):
    return dict(cache=rng.choice(["", "cache-a", "cache-b", "cache-c"]), sub="".join(rng.choice("01") for _ in range(3)),
                mtime=rng.choice([0, 1]), umask=rng.choice(["", "", "0077", "0022"]), spell=rng.choice(["", "", "/", "/.", "/../data"]))


def real_lock_path(base, c):
    """The file the storage lock of instance `c` really opens and flock()s: the REAL Storage is built by the real
    constructor and its lock is taken once in mode r with recording stand-ins for open / flock in radicale.pathutils.
    Returns (path handed to open, filesystem_folder, filesystem_cache_folder) as the code sees them."""
    import logging
    from radicale import config, pathutils
    from radicale.storage import multifilesystem
    logging.getLogger("radicale").setLevel(logging.CRITICAL)
    conf = config.load()
    conf.update({"storage": storage_options(base, c)}, "c11", privileged=True)
    st = multifilesystem.Storage(conf)
    opened, flocked = [], []
    real_fcntl = pathutils.fcntl

    def rec_open(path, *a, **k):
        f = open(path, *a, **k)
        opened.append((f.fileno(), str(path)))
        return f

    class RecFcntl:
        def __getattr__(self, name):
            return getattr(real_fcntl, name)

        def flock(self, fd, cmd):
            flocked.append(fd)
            return real_fcntl.flock(fd, cmd)
    had_open = "open" in pathutils.__dict__
    saved_open = pathutils.__dict__.get("open")
    pathutils.open, pathutils.fcntl = rec_open, RecFcntl()
    try:
        with st.acquire_lock("r", "user"):
            pass
    finally:
        pathutils.fcntl = real_fcntl
        if had_open:
            pathutils.open = saved_open
        else:
            del pathutils.open
    paths = [path for fd, path in opened if fd in flocked]
    return (paths[0] if len(paths) == 1 else "<%d files flocked: %r>" % (len(paths), paths),
            conf.get("storage", "filesystem_folder"), conf.get("storage", "filesystem_cache_folder"))


class StoreSystem(FileSystem):
    """Several real multifilesystem.Storage objects (one per simulated process) built by the real constructor from the
    configurations of a deployment: all of them serve ONE filesystem_folder.  The lock under test is the object the
    server uses (`storage._lock`, entered through `storage.acquire_lock`); the Kernel keys the flock table by the FILE
    (normalised path) each instance opens.  progs: ("deploy", [(proc, [(mode, nq)])...], [conf of proc 0, ...]).
    Model: coq/Model/RwLockFile.v (one kernel lock for all processes), justified by Model/C11LockIdent.v."""
    kind = "store"

    def __init__(self, progs):
        import logging
        import tempfile
        from radicale import config
        logging.getLogger("radicale").setLevel(logging.CRITICAL)
        _, threads, confs = progs
        threads = [(p, [tuple(c) for c in prog]) for p, prog in threads]
        self.progs = threads
        self.confs = [conf_norm(c) for c in confs]
        self.tmp = tempfile.mkdtemp(prefix="rv-c11store-")
        self.kernel = Kernel()
        self.kernel.norm = os.path.realpath
        self.patch = Patched(self.kernel)
        self.patch.__enter__()
        self.sched = Scheduler()
        CoopLock.sched = self.sched
        self.fault_mode = False
        from radicale.storage import multifilesystem
        self.storages = []
        nprocs = 1 + max([p for p, _ in threads] + [0])
        assert nprocs <= len(self.confs)
        for p in range(nprocs):
            conf = config.load()
            conf.update({"storage": storage_options(self.tmp, self.confs[p])}, "c11", privileged=True)
            self.storages.append(multifilesystem.Storage(conf))
        self.locks = [st._lock for st in self.storages]
        self.sched.start([self._body(p, prog) for p, prog in threads])

    def close(self):
        import shutil
        FileSystem.close(self)
        shutil.rmtree(self.tmp, ignore_errors=True)

    def _body(self, p, prog):
        storage = self.storages[p]
        lock = storage._lock

        def body(w):
            w.proc = p
            for cyc in prog:
                mode, nq = cyc[0], cyc[1]
                w.mode = mode
                w.phase = "acquire"
                w.seen_now = None
                w.fail = 0
                cm = storage.acquire_lock(mode, "user")
                cm.__enter__()
                w.phase = "body"
                for _ in range(nq):
                    w.seen = w.seen_now = lock.locked
                w.phase = "release"
                cm.__exit__(None, None, None)
                w.phase = "idle"
        return body

    def monitor(self):
        k = self.kernel
        live = [(fd, ino, m) for fd, (ino, m) in k.held.items()]
        if len(live) > 1 and any(m == "w" for _, _, m in live):
            rel = lambda path: os.path.relpath(k.norm(path), k.norm(self.tmp))     # noqa: E731
            raise Violation("instances serving one filesystem_folder hold its storage lock at the same time: %s" % ", ".join(
                "thread %s of instance %d %r holds LOCK_%s on %s" % (
                    k.fd_owner[fd], self.sched.workers[k.fd_owner[fd]].proc, self.confs[self.sched.workers[k.fd_owner[fd]].proc],
                    "EX" if m == "w" else "SH", rel(k.fd_path[fd])) for fd, ino, m in live))
        FileSystem.monitor(self)


class DictSystem:
    """The real multifilesystem_nolock.LockDict; progs: per thread a list of keys."""
    kind = "dict"

    def __init__(self, progs):
        self.progs = progs
        self.patch = Patched()
        self.patch.__enter__()
        self.sched = Scheduler()
        CoopLock.sched = self.sched
        self.ld = self.patch.nolock.LockDict()
        self.mutex = self.ld._lock
        self.served = collections.defaultdict(list)    # key -> threads in the order they entered the body
        self.arrived = collections.defaultdict(list)   # key -> threads in the order their lock joined the deque
        self.sched.start([self._body(p) for p in progs])

    def close(self):
        self.sched.abort()
        self.patch.__exit__()

    def _body(self, prog):
        ld = self.ld

        def body(w):
            for key in prog:
                w.key = key
                w.phase = "acquire"
                w.my_lock = None
                cm = ld.acquire(key)
                cm.__enter__()
                w.phase = "body"
                self.served[key].append(w.idx)
                w.phase = "release"
                cm.__exit__(None, None, None)
                w.phase = "idle"
        return body

    def pc(self, w):
        if w.done:
            return 11 if w.error is not None else 0
        kind, lk = w.pending[0], w.pending[1]
        if lk is self.mutex:
            if kind == "acq":
                return 1 if w.phase == "acquire" else 6
            return 4 if w.phase == "acquire" else 9
        if kind == "acq":
            return 3 if lk.acquired == 0 else 5
        return 8

    def observe(self):
        s, ld = self.sched, self.ld
        out = [self.mutex.owner if self.mutex._locked else -1]
        try:
            for key in reversed(list(ld._dict.keys())):    # the model inserts new keys at the FRONT of its list
                dqv = ld._dict[key]
                out += [key, len(dqv)] + [wl.creator for wl in dqv]
        except (TypeError, AttributeError):
            # the private layout is not the one the model describes (per key a deque of waiter locks): the observation
            # is a value the model never produces (the correspondence then reports the difference) and the run goes on,
            # so that the layout-independent monitors still judge mutual exclusion, deadlock and errors
            self.opaque = True
            return [-7]
        out.append(-2)
        for w in s.workers:
            ml = getattr(w, "my_lock", None)
            unlocked = 1 if (ml is not None and w.phase in ("acquire",) and ml.acquired >= 1 and not ml._locked) else 0
            out += [self.pc(w), 1 if s.enabled(w.idx) else 0, unlocked]
        return out

    def monitor(self):
        s, ld = self.sched, self.ld
        for w in s.workers:
            if w.error is not None:
                raise Violation("thread %d raised %r" % (w.idx, w.error))
        # holders: threads between the end of acquire() and the start of the release's mutex section (a fact about THIS
        # implementation, whose release starts with the mutex: not used once the private layout is found to be another;
        # the layout-independent judgement is DictBBSystem's)
        holders = collections.defaultdict(list)
        for w in s.workers:
            if getattr(self, "opaque", False):
                break
            if w.phase == "release" and w.pending and w.pending[0] == "acq" and w.pending[1] is self.mutex:
                holders[w.key].append(w.idx)
        for key, hs in holders.items():
            if len(hs) > 1:
                raise Violation("key %r is held by threads %r at the same time" % (key, hs))
        if not self.mutex._locked and not getattr(self, "opaque", False):
            # dict entries exist exactly for the keys that some thread is using, and are never empty
            busy = set(w.key for w in s.workers if not w.done and w.phase in ("acquire", "release") and (
                w.phase == "release" or (w.pending and (w.pending[1] is not self.mutex))))
            for key, dqv in ld._dict.items():
                if not dqv:
                    raise Violation("empty deque left in the dict for key %r" % (key,))
                if key not in busy:
                    raise Violation("dict entry for idle key %r" % (key,))
            # a blocked thread is blocked by the same key only
            for w in s.workers:
                if w.pending and w.pending[0] == "acq" and w.pending[1] is not self.mutex and w.pending[1]._locked \
                        and w.pending[1].acquired >= 1:
                    dqv = ld._dict.get(w.key)
                    if dqv is None or w.pending[1] not in dqv or dqv[0] is w.pending[1]:
                        raise Violation("thread %d is parked for key %r without a same-key thread ahead of it" % (w.idx, w.key))
        if not s.all_done() and not any(s.enabled(i) for i in range(len(s.workers))):
            raise Violation("deadlock: no thread can take a step, unfinished: %r" % [w.idx for w in s.workers if not w.done])

    def note_arrivals(self):
        """FIFO: record the order in which waiter locks appear in the deques (called after every step)."""
        if getattr(self, "opaque", False):
            return
        for key, dqv in self.ld._dict.items():
            seen = self.arrived[key]
            for wl in dqv:
                tag = (wl.creator, id(wl))
                if tag not in seen:
                    seen.append(tag)

    def check_fifo(self):
        if getattr(self, "opaque", False):
            return
        for key, order in self.arrived.items():
            want = [t for t, _ in order]
            got = self.served[key]
            if got != want[:len(got)]:
                raise Violation("key %r: arrival order %r but served in order %r" % (key, want, got))


class DictBBSystem(DictSystem):
    """The real LockDict judged from outside (monitor only, no model comparison, valid for ANY implementation of the
    class): every thread pauses once inside the section (a scheduling point of its own), so two threads inside the
    section of one key are seen as such whatever the private bookkeeping looks like."""
    kind = "dictbb"

    def _body(self, prog):
        ld = self.ld

        def body(w):
            for key in prog:
                w.key = key
                w.phase = "acquire"
                cm = ld.acquire(key)
                cm.__enter__()
                w.phase = "body"
                self.served[key].append(w.idx)
                self.sched.yield_point(("body", key))
                w.phase = "release"
                cm.__exit__(None, None, None)
                w.phase = "idle"
        return body

    def observe(self):
        return [0]

    def note_arrivals(self):
        pass

    def check_fifo(self):
        pass

    def monitor(self):
        s = self.sched
        for w in s.workers:
            if w.error is not None:
                raise Violation("thread %d raised %r" % (w.idx, w.error))
        inside = collections.defaultdict(list)
        for w in s.workers:
            if not w.done and w.phase == "body":
                inside[w.key].append(w.idx)
        for key, hs in inside.items():
            if len(hs) > 1:
                raise Violation("threads %r are inside the section of key %r at the same time" % (hs, key))
        # a thread waiting for a key nobody is inside of and nobody else is about to enter must be able to move
        if not s.all_done() and not any(s.enabled(i) for i in range(len(s.workers))):
            raise Violation("deadlock: no thread can take a step, unfinished: %r" % [w.idx for w in s.workers if not w.done])


SYSTEMS = {"cond": CondSystem, "file": FileSystem, "dict": DictSystem, "dictbb": DictBBSystem, "store": StoreSystem}


def run_schedule(kind, progs, schedule, monitor=True, extend=False, choose=None):
    """Run `schedule` (list of thread numbers).  With extend=True continue (first enabled thread, or `choose`)
    until every thread is done.  Returns dict(schedule, trace, enabled_sets, violation)."""
    sysm = SYSTEMS[kind](progs)
    sched = sysm.sched
    n = len(sched.workers)
    trace = [sysm.observe()]
    enabled_sets = []
    done_sched = []
    violation = None
    try:
        if monitor:
            sysm.monitor()
        i = 0
        while True:
            en = [t for t in range(n) if sched.enabled(t)]
            if i < len(schedule):
                t = schedule[i]
                if t not in en:
                    trace.append([-9])
                    break
            elif extend and en:
                t = choose(en) if choose else en[0]
            else:
                break
            enabled_sets.append(en)
            sched.step(t)
            done_sched.append(t)
            i += 1
            trace.append(sysm.observe())
            if kind == "dict":
                sysm.note_arrivals()
            if monitor:
                sysm.monitor()
        if monitor and kind == "dict":
            sysm.check_fifo()
        if monitor and extend and not sched.all_done():
            raise Violation("run ended with unfinished threads %r" % [w.idx for w in sched.workers if not w.done])
    except Violation as v:
        violation = v.what
        fired = sum(w.timeouts for w in sched.workers)
        if fired:
            violation += " (after %d wait time-out(s) expired on the logical clock)" % fired
    finally:
        sysm.close()
    kern = getattr(sysm, "kernel", None)
    return dict(schedule=done_sched, trace=trace, enabled=enabled_sets, violation=violation,
                fileops=sorted(kern.fileops) if kern is not None else [])


def enumerate_schedules(kind, progs, limit=None, monitor=True):
    """Depth-first enumeration of ALL maximal schedules (stateless: each schedule is executed from scratch).
    Yields the result dict of every complete run.  Stops after `limit` runs when given."""
    prefix = []
    count = 0
    while True:
        r = run_schedule(kind, progs, prefix, monitor=monitor, extend=True)
        count += 1
        yield r
        if r["violation"] is not None:
            return
        if limit is not None and count >= limit:
            return
        sched, en = r["schedule"], r["enabled"]
        # backtrack: deepest position with an untried (larger) alternative
        k = len(sched) - 1
        nxt = None
        while k >= 0:
            alts = [t for t in en[k] if t > sched[k]]
            if alts:
                nxt = sched[:k] + [alts[0]]
                break
            k -= 1
        if nxt is None:
            return
        prefix = nxt


def random_schedule(kind, progs, rng, monitor=True):
    return run_schedule(kind, progs, [], monitor=monitor, extend=True, choose=lambda en: rng.choice(en))


class CompSystem:
    """Composition used by the server: the real multifilesystem_nolock.Storage (acquire_lock) and
    Collection._acquire_cache_lock.  progs: per thread a list of (mode, collection path, ns).
    Monitor only (no Coq model of the composition; theorem C11_locked_in_cs justifies the `locked == "w"` shortcut):
    two threads are never inside the cache section of the same (path, ns) at the same time."""
    kind = "comp"

    def __init__(self, progs):
        import logging
        import tempfile
        from radicale import config
        logging.getLogger("radicale").setLevel(logging.CRITICAL)
        self.progs = progs
        self.tmp = tempfile.mkdtemp(prefix="rv-c11comp-")
        self.patch = Patched()
        self.patch.__enter__()
        self.sched = Scheduler()
        CoopLock.sched = self.sched
        conf = config.load()
        conf.update({"storage": {"type": "multifilesystem_nolock", "filesystem_folder": self.tmp}}, "c11", privileged=True)
        self.storage = self.patch.nolock.Storage(conf)
        self.sched.start([self._body(p) for p in progs])

    def close(self):
        import shutil
        self.sched.abort()
        self.patch.__exit__()
        shutil.rmtree(self.tmp, ignore_errors=True)

    def _body(self, prog):
        storage, sched = self.storage, self.sched
        Coll = self.patch.nolock.Collection

        def body(w):
            for mode, path, ns in prog:
                w.mode = mode
                w.key = (path, ns)
                w.phase = "acquire"
                coll = Coll(storage, path)
                with storage.acquire_lock(mode, "user"):
                    w.phase = "storage"
                    with coll._acquire_cache_lock(ns):
                        w.phase = "cache"
                        sched.yield_point(("nop",))
                        w.phase = "storage"
                    w.phase = "release"
                w.phase = "idle"
        return body

    def observe(self):
        s = self.sched
        return [(w.phase, 1 if s.enabled(w.idx) else 0) for w in s.workers]

    def monitor(self):
        s = self.sched
        for w in s.workers:
            if w.error is not None:
                raise Violation("thread %d raised %r" % (w.idx, w.error))
        inside = collections.defaultdict(list)
        for w in s.workers:
            if w.phase == "cache":
                inside[w.key].append(w.idx)
        for key, ts in inside.items():
            if len(ts) > 1:
                raise Violation("threads %r are inside the cache section of %r at the same time" % (ts, key))
        st = [w for w in s.workers if w.phase in ("storage", "cache")]
        nw = sum(1 for w in st if w.mode == "w")
        if nw > 1 or (nw == 1 and len(st) > 1):
            raise Violation("storage lock: %d writers among %d holders" % (nw, len(st)))
        if not s.all_done() and not any(s.enabled(i) for i in range(len(s.workers))):
            raise Violation("deadlock: no thread can take a step, unfinished: %r" % [w.idx for w in s.workers if not w.done])


SYSTEMS["comp"] = CompSystem


CACHE_KEYS = {5: ("/u/c/", ""), 7: ("/u/c/", "x"), 9: ("/u/d/", "")}


class CacheSystem:
    """The per-collection cache lock of the FILE-LOCK back-end: the real
    radicale.storage.multifilesystem.Collection._acquire_cache_lock (CollectionPartLock) on a real
    multifilesystem.Storage, with the stand-ins for open / fcntl.flock (pathutils) and os.remove/unlink/rename
    (multifilesystem.lock) over a Kernel whose flock table is keyed by inode.
    progs: per thread a list of key numbers (CACHE_KEYS: collection path, ns); storage_mode None = the storage lock is
    not held by the caller, "r" = held in mode r (monitor only).  Model: coq/Model/FlockInode.v (unlinks = false)."""
    kind = "cache"

    def __init__(self, progs, storage_mode=None):
        import logging
        import tempfile
        from radicale import config
        logging.getLogger("radicale").setLevel(logging.CRITICAL)
        if progs and isinstance(progs[0], str):            # ("r", [[5], [5]]) form: storage lock held in mode r
            storage_mode, progs = progs
        self.progs = progs
        self.storage_mode = storage_mode
        self.tmp = tempfile.mkdtemp(prefix="rv-c11cache-")
        self.kernel = Kernel()
        self.patch = Patched(self.kernel)
        self.patch.__enter__()
        self.sched = Scheduler()
        CoopLock.sched = self.sched
        from radicale.storage import multifilesystem
        conf = config.load()
        conf.update({"storage": {"type": "multifilesystem", "filesystem_folder": self.tmp, "_filesystem_fsync": "False"}},
                    "c11", privileged=True)
        self.storage = multifilesystem.Storage(conf)
        self.Coll = multifilesystem.Collection
        self.mutex = self.storage._lock._lock
        CoopLock.private_for_workers = True
        self.sched.start([self._body(p) for p in progs])

    def close(self):
        import shutil
        self.sched.abort()
        self.patch.__exit__()
        shutil.rmtree(self.tmp, ignore_errors=True)

    def _body(self, prog):
        storage, sched, Coll, smode = self.storage, self.sched, self.Coll, self.storage_mode
        import contextlib

        def body(w):
            for cyc in prog:
                key, fault = (cyc, 0) if isinstance(cyc, int) else (cyc[0], cyc[1])
                path, ns = CACHE_KEYS[key]
                w.key = key
                w.phase = "acquire"
                w.open_fail = fault          # 1: open() of the cache lock file raises OSError (EMFILE) for this cycle
                coll = Coll(storage, path)
                try:
                    with (storage.acquire_lock(smode, "user") if smode else contextlib.nullcontext()):
                        with coll._acquire_cache_lock(ns):
                            w.phase = "cache"
                            sched.yield_point(("nop",))
                            w.phase = "release"
                except OSError:
                    if not fault:
                        raise
                    w.refused += 1           # the requester is refused with the OSError: it never enters the section
                w.phase = "idle"
        return body

    def pc(self, w):
        if w.done:
            return 0
        kind = w.pending[0]
        if kind == "acq":
            return 1
        if kind == "rel":
            return 2
        return {"flock": 4, "nop": 5, "unlink": 6, "close": 7}[kind]

    def observe(self):
        k, s = self.kernel, self.sched
        out = [self.mutex.owner if self.mutex._locked else -1]
        for path in reversed(list(k.paths)):
            out += [k.path_key.get(path) if k.path_key.get(path) is not None else 99, k.paths[path]]
        out.append(-2)
        for fd in reversed(list(k.held)):
            out += [k.fd_owner[fd], k.held[fd][0]]
        out.append(-3)
        for w in s.workers:
            out += [self.pc(w), 1 if s.enabled(w.idx) else 0]
        return out

    def monitor(self):
        s = self.sched
        for w in s.workers:
            if w.error is not None:
                raise Violation("thread %d raised %r" % (w.idx, w.error))
        inside = collections.defaultdict(list)
        for w in s.workers:
            if w.phase == "cache":
                inside[w.key].append(w.idx)
        for key, ts in inside.items():
            if len(ts) > 1:
                raise Violation("threads %r are inside the cache section of key %r %r at the same time (file-lock back-end)" % (
                    ts, key, CACHE_KEYS[key]))
        pc_ = self.kernel.path_conflict()
        if pc_:
            raise Violation(pc_)
        if not s.all_done() and not any(s.enabled(i) for i in range(len(s.workers))):
            raise Violation("deadlock: no thread can take a step, unfinished: %r" % [w.idx for w in s.workers if not w.done])


SYSTEMS["cache"] = CacheSystem


ITEM = ("BEGIN:VCALENDAR\r\nPRODID:-//v//EN\r\nVERSION:2.0\r\nBEGIN:VEVENT\r\nUID:%s\r\nSUMMARY:s\r\n"
        "DTSTART:20130901T180000Z\r\nDTEND:20130901T190000Z\r\nEND:VEVENT\r\nEND:VCALENDAR\r\n")


class SweepSystem:
    """The item-cache critical section of the file-lock back-end WITH stale entries present: readers call the real
    Collection._get(href) under the shared storage lock on items whose files were written behind the server's back (no
    cache entry) while the cache folder holds the entry of a deleted item and a left-over .Radicale.tmp-* directory:
    every reader misses, takes the per-collection cache lock and runs _clean_item_cache() inside the section.
    progs: per thread a list of item numbers.  Monitor only: a lock file that some live descriptor holds a flock on is
    never unlinked; per-path exclusion on the kernel's flock table; no exception; no deadlock."""
    kind = "sweep"

    def __init__(self, progs):
        import logging
        import pickle
        import tempfile
        from radicale import config
        logging.getLogger("radicale").setLevel(logging.CRITICAL)
        self.progs = progs
        self.tmp = tempfile.mkdtemp(prefix="rv-c11sweep-")
        self.kernel = Kernel()
        self.patch = Patched(self.kernel)
        self.patch.__enter__()
        from radicale.storage.multifilesystem import cache as cache_mod
        self.cache_mod, self.saved_cache_os = cache_mod, cache_mod.os
        cache_mod.os = FakeOs(self.kernel, cache_mod.os)
        self.sched = Scheduler()
        CoopLock.sched = self.sched
        from radicale.storage import multifilesystem
        conf = config.load()
        conf.update({"storage": {"type": "multifilesystem", "filesystem_folder": self.tmp, "_filesystem_fsync": "False"}},
                    "c11", privileged=True)
        self.storage = multifilesystem.Storage(conf)
        self.Coll = multifilesystem.Collection
        coll_dir = os.path.join(self.tmp, "collection-root", "u", "c")
        cache_dir = os.path.join(coll_dir, ".Radicale.cache", "item")
        os.makedirs(cache_dir)
        with open(os.path.join(coll_dir, ".Radicale.props"), "w") as f:
            f.write('{"tag": "VCALENDAR"}')
        for n in sorted(set(i for p in progs for i in p)):
            with open(os.path.join(coll_dir, "i%d.ics" % n), "w", newline="") as f:
                f.write(ITEM % ("i%d" % n))
        with open(os.path.join(cache_dir, "gone.ics"), "wb") as f:      # cache entry of a deleted item
            pickle.dump(("0" * 64, "gone", "etag", "text", "gone.ics", "VEVENT", 0, 1), f)
        os.makedirs(os.path.join(cache_dir, ".Radicale.tmp-left"))        # a writer's temporary directory
        CoopLock.private_for_workers = True
        self.sched.start([self._body(p) for p in progs])

    def close(self):
        import shutil
        self.sched.abort()
        self.cache_mod.os = self.saved_cache_os
        self.patch.__exit__()
        shutil.rmtree(self.tmp, ignore_errors=True)

    def _body(self, prog):
        storage, Coll = self.storage, self.Coll

        def body(w):
            for n in prog:
                w.key = 5
                w.phase = "acquire"
                with storage.acquire_lock("r", "user"):
                    coll = Coll(storage, "/u/c/")
                    item = coll._get("i%d.ics" % n, verify_href=False)
                    if item is None or item.uid != "i%d" % n:
                        raise RuntimeError("item i%d not served: %r" % (n, item))
                w.phase = "idle"
        return body

    def observe(self):
        return []

    def monitor(self):
        s, k = self.sched, self.kernel
        for w in s.workers:
            if w.error is not None:
                raise Violation("thread %d raised %r" % (w.idx, w.error))
        if k.unlinked_held:
            raise Violation("a held lock file is unlinked: " + k.unlinked_held[0])
        pc_ = k.path_conflict()
        if pc_:
            raise Violation(pc_)
        if not s.all_done() and not any(s.enabled(i) for i in range(len(s.workers))):
            raise Violation("deadlock: no thread can take a step, unfinished: %r" % [w.idx for w in s.workers if not w.done])


SYSTEMS["sweep"] = SweepSystem
