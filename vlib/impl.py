"""Driving the real Radicale (from /repo's working tree) in-process, the same way the test-suite does."""
import base64
import io
import logging
import os
import shutil
import sys
import tempfile
import wsgiref.util
import xml.etree.ElementTree as ET

REPO = os.environ.get("VERIF_REPO", "/repo")
if REPO not in sys.path:
    sys.path.insert(0, REPO)

import radicale  # noqa: E402
from radicale import app, config, xmlutils  # noqa: E402

assert os.path.abspath(radicale.__file__).startswith(os.path.abspath(REPO)), radicale.__file__
radicale.log.logger.setLevel(logging.CRITICAL)

NS = {"D": "DAV:", "C": "urn:ietf:params:xml:ns:caldav", "CR": "urn:ietf:params:xml:ns:carddav",
      "CS": "http://calendarserver.org/ns/", "ICAL": "http://apple.com/ns/ical/"}


class Server:
    """One Application over a fresh temporary storage folder."""

    def __init__(self, conf=None, folder=None, keep=False, fsync=False):
        self.own = folder is None
        self.folder = folder or tempfile.mkdtemp(prefix="rv-store-")
        self.keep = keep
        self.configuration = config.load()
        base = {"storage": {"filesystem_folder": self.folder, "_filesystem_fsync": "True" if fsync else "False"},
                "auth": {"delay": "0.0001"}, "logging": {"level": "critical"}}
        self.configuration.update(base, "verif", privileged=True)
        if conf:
            self.configuration.update(conf, "verif", privileged=True)
        self.application = app.Application(self.configuration)

    def reconfigure(self, conf):
        self.configuration.update(conf, "verif", privileged=True)
        self.application = app.Application(self.configuration)

    def close(self):
        if self.own and not self.keep:
            shutil.rmtree(self.folder, ignore_errors=True)

    def __enter__(self):
        return self

    def __exit__(self, *a):
        self.close()

    def request(self, method, path, data=None, login=None, environ=None, **headers):
        """Returns (status:int, headers:dict, body:bytes).  `headers` use WSGI names, e.g. HTTP_DEPTH='1'."""
        env = {k.upper(): v for k, v in headers.items()}
        if environ:
            env.update(environ)
        if login:
            env["HTTP_AUTHORIZATION"] = "Basic " + base64.b64encode(login.encode("utf-8")).decode()
        env["REQUEST_METHOD"] = method.upper()
        env["PATH_INFO"] = path
        if data is not None:
            b = data if isinstance(data, bytes) else data.encode("utf-8")
            env["wsgi.input"] = io.BytesIO(b)
            env.setdefault("CONTENT_LENGTH", str(len(b)))
        env["wsgi.errors"] = io.StringIO()
        wsgiref.util.setup_testing_defaults(env)
        out = {}

        def start_response(status_, headers_):
            out["status"] = int(status_.split()[0])
            out["headers"] = dict(headers_)
        answers = list(self.application(env, start_response))
        return out["status"], out["headers"], (b"".join(answers) if answers else b"")

    # conveniences
    def mkcol(self, path, **kw):
        return self.request("MKCOL", path, **kw)[0]

    def mkcalendar(self, path, **kw):
        return self.request("MKCALENDAR", path, **kw)[0]

    def mkaddressbook(self, path, **kw):
        body = ('<?xml version="1.0"?><D:mkcol xmlns:D="DAV:" xmlns:CR="urn:ietf:params:xml:ns:carddav">'
                '<D:set><D:prop><D:resourcetype><D:collection/><CR:addressbook/></D:resourcetype></D:prop></D:set></D:mkcol>')
        return self.request("MKCOL", path, data=body, **kw)[0]

    def put(self, path, data, **kw):
        return self.request("PUT", path, data=data, **kw)

    def propfind(self, path, depth="0", props=("D:getetag", "D:resourcetype"), **kw):
        body = ('<?xml version="1.0"?><D:propfind xmlns:D="DAV:" xmlns:C="urn:ietf:params:xml:ns:caldav" '
                'xmlns:CR="urn:ietf:params:xml:ns:carddav" xmlns:CS="http://calendarserver.org/ns/"><D:prop>'
                + "".join("<%s/>" % p for p in props) + "</D:prop></D:propfind>")
        st, h, b = self.request("PROPFIND", path, data=body, HTTP_DEPTH=depth, **kw)
        return st, (parse_multistatus(b) if st == 207 else {})


def parse_multistatus(body):
    """href -> int status | {human_tag: (status, element)}"""
    import defusedxml.ElementTree as DefusedET
    xml = DefusedET.fromstring(body)
    out = {}
    for response in xml.findall(xmlutils.make_clark("D:response")):
        href = response.find(xmlutils.make_clark("D:href")).text
        props = {}
        for propstat in response.findall(xmlutils.make_clark("D:propstat")):
            status = int(propstat.find(xmlutils.make_clark("D:status")).text.split(" ")[1])
            for el in propstat.findall("./%s/*" % xmlutils.make_clark("D:prop")):
                props[xmlutils.make_human_tag(el.tag)] = (status, el)
        status = response.find(xmlutils.make_clark("D:status"))
        out[href] = int(status.text.split(" ")[1]) if status is not None else props
    return out


def event(uid, summary="s", dtstart="20130901T180000Z", extra="", dtend="20130901T190000Z"):
    return ("BEGIN:VCALENDAR\r\nPRODID:-//verif//EN\r\nVERSION:2.0\r\nBEGIN:VEVENT\r\n"
            "UID:%s\r\nSUMMARY:%s\r\nDTSTART:%s\r\n%s%sEND:VEVENT\r\nEND:VCALENDAR\r\n" % (
                uid, summary, dtstart, ("DTEND:%s\r\n" % dtend) if dtend else "", extra))


def todo(uid, summary="t", extra=""):
    return ("BEGIN:VCALENDAR\r\nPRODID:-//verif//EN\r\nVERSION:2.0\r\nBEGIN:VTODO\r\n"
            "UID:%s\r\nSUMMARY:%s\r\n%sEND:VTODO\r\nEND:VCALENDAR\r\n" % (uid, summary, extra))


def contact(uid, fn="n"):
    return "BEGIN:VCARD\r\nVERSION:3.0\r\nUID:%s\r\nFN:%s\r\nN:%s;;;;\r\nEND:VCARD\r\n" % (uid, fn, fn)


def tree_dump(folder, with_content=True, skip_cache=False):
    """Canonical dump of a storage folder: sorted list of (relative path, kind, bytes|None)."""
    out = []
    for root, dirs, files in os.walk(folder):
        dirs.sort()
        rel = os.path.relpath(root, folder)
        if skip_cache and ".Radicale.cache" in rel.split(os.sep):
            continue
        if rel != ".":
            out.append((rel, "d", None))
        for f in sorted(files):
            if f.startswith(".Radicale.lock"):
                continue
            p = os.path.join(root, f)
            relf = os.path.normpath(os.path.join(rel, f))
            if skip_cache and ".Radicale.cache" in relf.split(os.sep):
                continue
            data = None
            if with_content:
                with open(p, "rb") as fh:
                    data = fh.read()
            out.append((relf, "f", data))
    return sorted(out)
