"""C10 request driver (run as a subprocess, optionally under strace).
usage: c10_driver.py <spec.json> <out.json>
spec: {folder, conf, adversary: bool, requests: [{method, path, data, login, headers, use_last_token}]}
Every request is preceded by os.stat('/rv-mark/req-<i>'); the instrumentation of vlib/x_c10.py records the
api-level and file-level event streams of each request."""
import json
import os
import re
import sys
import threading

sys.path.insert(0, os.path.dirname(os.path.dirname(os.path.dirname(os.path.abspath(__file__)))))
from vlib import impl, x_c10  # noqa: E402


def main():
    spec = json.load(open(sys.argv[1]))
    srv = impl.Server(conf=spec.get("conf"), folder=spec["folder"])
    storage = srv.application._storage
    rec = x_c10.Recorder(storage, spec["folder"], adversary=spec.get("adversary", False))
    rec.wrap_lock()
    rec.wrap_storage()
    rec.wrap_app(srv.application)
    rec.install_audit()
    if spec.get("watch_hook_group"):
        rec.watch_hook_group()
    res = []
    last_token = ""
    x_c10.mark("setup-done")
    for i, r in enumerate(spec["requests"]):
        x_c10.mark("req-%d" % i)
        if r["method"] == "_WIPECACHE":
            # not a request: the cache of a collection disappears (fresh cache / external clean-up), so that
            # the following readers fill it under the shared lock
            import shutil
            x_c10.mark("end")
            shutil.rmtree(os.path.join(spec["folder"], "collection-root", r["path"].strip("/"), ".Radicale.cache"),
                          ignore_errors=True)
            x_c10.mark("setup-done")
            res.append(dict(status=0, error=None, api=[], files=[], body=""))
            continue
        if r["method"] == "_CRASH":
            # not a request: ANOTHER server process (a fork of this one, same code, same configuration) dies in the
            # middle of the write request r["request"], right before its r["at"]-th file system mutation below the
            # storage folder; afterwards r["age"] seconds pass (every mtime below the folder moves into the past).
            # What the following requests find is whatever the real code leaves behind at that point.
            x_c10.mark("end")
            left = x_c10.crash_write(srv, spec["folder"], r["request"], r.get("at", 1), r.get("age", 0))
            x_c10.mark("setup-done")
            res.append(dict(status=0, error=None, api=[], files=[], body="", crash=left))
            continue
        if r["method"] == "_SLEEP":
            import time
            time.sleep(r.get("seconds", 0.5))       # gives a left-over of the hook time to act (strace sees it)
            res.append(dict(status=0, error=None, api=[], files=[], body=""))
            continue
        data = r.get("data")
        if r.get("use_last_token") and data:
            data = data.replace("@LAST", last_token)
        rec.begin()
        try:
            st, h, b = srv.request(r["method"], r["path"], data=data, login=r.get("login"), **r.get("headers", {}))
            err = None
        except BaseException as e:  # the driver must survive anything
            st, b, err = -1, b"", repr(e)
        api, files = rec.end()
        body = b.decode("utf-8", "replace") if isinstance(b, bytes) else str(b)
        m = re.search(r"<(?:\w+:)?sync-token[^>]*>([^<]+)<", body)
        if m:
            last_token = m.group(1)
        res.append(dict(status=st, error=err, api=api, files=files, body=body[:300]))
    x_c10.mark("end")
    json.dump(dict(results=res, pid=os.getpid(), main_tid=threading.get_native_id(),
                   adv_tid=rec.adversary.native_id if rec.adversary else None), open(sys.argv[2], "w"))


if __name__ == "__main__":
    main()
