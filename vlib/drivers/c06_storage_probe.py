"""C06 storage-level probe (failing-input search for the site table of translate/t_c06sites.py).

Runs the REAL multifilesystem storage of VERIF_REPO on a temporary folder and calls its PUBLIC methods directly with
hostile strings (what a handler could hand over if it forgot to sanitise): discover, create_collection, upload, delete,
get_multi, move, sync.  An audit hook records every path the interpreter hands to the operating system.  Reported:

  outside   a path that is lexically outside the storage folder and either below the probe's base directory (decoys),
            one of the absolute targets named by a payload, or given to a mutating call;
  reserved  a call with a client-chosen name that is not a safe file-system component (leading ".", trailing "~",
            separator, "..") that did not refuse: it returned an item / created, changed or removed a planted file.

usage: c06_storage_probe.py <spec.json> <out.json>     spec: {"base": dir, "seed": int, "n": int}
"""
import json
import os
import random
import sys

spec = json.load(open(sys.argv[1]))
BASE = os.path.realpath(spec["base"])
FOLDER = os.path.join(BASE, "storage")
ROOT = os.path.join(FOLDER, "collection-root")
rng = random.Random(spec["seed"])
sys.path.insert(0, os.environ.get("VERIF_REPO", "/repo"))

EVENT = ("BEGIN:VCALENDAR\r\nPRODID:-//v//EN\r\nVERSION:2.0\r\nBEGIN:VEVENT\r\nUID:%s\r\nSUMMARY:s\r\n"
         "DTSTART:20130901T180000Z\r\nDTEND:20130901T190000Z\r\nEND:VEVENT\r\nEND:VCALENDAR\r\n")

events = []
current = {"label": None}
ABS_TARGETS = [os.path.join(BASE, "decoy.txt"), "/etc/passwd", "/etc/hostname"]
MUTATING = {"os.remove", "os.rename", "os.mkdir", "os.rmdir", "os.utime", "os.chmod", "os.truncate", "os.link", "os.symlink",
            "shutil.rmtree", "shutil.move", "shutil.copyfile", "os.chown"}
WATCH = MUTATING | {"open", "os.listdir", "os.scandir", "os.stat"}     # os.stat is not audited by CPython; harmless


def inside(p):
    ap = os.path.normpath(p)
    return ap == FOLDER or ap.startswith(FOLDER + "/")


def audit(ev, args):
    if current["label"] is None or ev not in WATCH:
        return
    paths = []
    if ev == "open":
        if isinstance(args[0], (str, bytes)):
            mode = args[1] if len(args) > 1 and isinstance(args[1], str) else "r"
            paths.append((os.fsdecode(args[0]), any(c in (mode or "r") for c in "wax+")))
    elif ev in ("os.rename", "os.link", "os.symlink", "shutil.move", "shutil.copyfile"):
        for a in args[:2]:
            if isinstance(a, (str, bytes)):
                paths.append((os.fsdecode(a), True))
    else:
        if args and isinstance(args[0], (str, bytes)):
            paths.append((os.fsdecode(args[0]), ev in MUTATING))
    for p, mut in paths:
        if not os.path.isabs(p):
            p = os.path.join(os.getcwd(), p)
        ap = os.path.normpath(p)
        if inside(ap):
            continue
        if mut or ap.startswith(BASE + "/") or ap == BASE or ap in ABS_TARGETS:
            events.append(dict(kind="outside", call=ev, path=ap, during=current["label"]))


def snapshot():
    out = {}
    for top in (BASE,):
        for r, ds, fs in os.walk(top):
            for d in ds:
                out[os.path.join(r, d)] = "<dir>"
            for f in fs:
                p = os.path.join(r, f)
                try:
                    with open(p, "rb") as fh:
                        out[p] = fh.read()
                except OSError:
                    out[p] = "<unreadable>"
    return out


def reserved_component(c):
    return c == "" or "/" in c or c.startswith(".") or c.endswith("~")


def main():
    from radicale import config, storage
    from radicale import item as ritem
    import vobject
    os.makedirs(FOLDER)
    with open(os.path.join(BASE, "decoy.txt"), "w") as fh:
        fh.write("DECOY-CONTENT")
    os.makedirs(os.path.join(BASE, "decoydir"))
    with open(os.path.join(BASE, "decoydir", "e1.ics"), "w") as fh:
        fh.write(EVENT % "decoy")
    configuration = config.load()
    configuration.update({"storage": {"filesystem_folder": FOLDER, "_filesystem_fsync": "False"}}, "probe", privileged=True)
    st = storage.load(configuration)

    def mk(uid):
        return ritem.Item(collection_path="user/cal", vobject_item=vobject.readOne(EVENT % uid))

    with st.acquire_lock("w", "user"):
        st.create_collection("/user/")
        st.create_collection("/user/cal/", props={"tag": "VCALENDAR"})
        st.create_collection("/user/cal2/", props={"tag": "VCALENDAR"})
        col = next(iter(st.discover("/user/cal/")))
        col.upload("e1.ics", mk("e1"))
        col.upload("e2.ics", mk("e2"))
        list(col.sync())
    # planted internal / reserved files
    cal = os.path.join(ROOT, "user", "cal")
    planted = {os.path.join(cal, ".hidden.ics"): EVENT % "hidden", os.path.join(cal, "e1.ics~"): EVENT % "backup",
               os.path.join(ROOT, "user", ".secret"): "SECRET"}
    for p, c in planted.items():
        with open(p, "w") as fh:
            fh.write(c)
    sys.addaudithook(audit)

    up = "../" * rng.randrange(1, 6)
    hostile = ["../decoy.txt", "../../decoy.txt", "../../../decoy.txt", "../../../../decoy.txt", "../../../../../decoy.txt",
               up + "decoy.txt", up + "decoydir/e1.ics", os.path.join(BASE, "decoy.txt"), "/" + os.path.join(BASE, "decoy.txt"),
               "/etc/passwd", "..", ".", "", "/", "../cal2/x.ics", "sub/e9.ics", "../cal/e1.ics",
               ".Radicale.props", ".Radicale.cache", ".Radicale.cache/item/e1.ics", ".Radicale.lock", ".hidden.ics", "e1.ics~",
               ".Radicale.tmp-x", "../.secret", "e1.ics/..", "e1.ics/../.Radicale.props", "\x00", "a\x00b", "é.ics"]
    while len(hostile) < spec["n"]:
        parts = [rng.choice(["..", ".", "", "a", "e1.ics", ".Radicale.props", ".Radicale.cache", "item", "x~", ".h", "decoy.txt",
                             "decoydir", "user", "cal", BASE.strip("/")]) for _ in range(rng.randrange(1, 5))]
        hostile.append(("/" if rng.random() < 0.2 else "") + "/".join(parts))
    results = []

    def attempt(label, fn, name, expect_refusal):
        """run one public call; `name` is the client-chosen string"""
        before = snapshot() if expect_refusal else None
        current["label"] = label
        out, err = None, None
        try:
            out = fn()
        except BaseException as e:                      # noqa: any refusal is fine
            err = type(e).__name__
        current["label"] = None
        if os.environ.get("C06_PROBE_DEBUG") and not os.path.exists(os.path.join(ROOT, "user", "cal", ".hidden.ics")):
            print("GONE after", label, err, out); os._exit(3)
        if expect_refusal:
            after = snapshot()
            changed = sorted(p for p in set(before) | set(after)
                             if before.get(p) != after.get(p) and "/.Radicale.cache/" not in p and ".Radicale.lock" not in p
                             and not (inside(p) and os.path.basename(p) in ("e9.ics", "x.ics") and False))
            if err is None and out not in (None, [], (), False) and out != "refused":
                events.append(dict(kind="reserved", during=label, detail="not refused: %r" % (out,)))
            if changed:
                events.append(dict(kind="reserved", during=label, detail="files changed: %r" % changed[:4]))
        results.append((label, err))

    def with_lock(f):
        def g():
            with st.acquire_lock("w", "user"):
                return f()
        return g

    for h in hostile:
        def path_bad(p_):
            # what the storage does with a path: strip("/"), split("/"); every component must be a safe one
            sp = p_.strip("/")
            return bool(sp) and any(reserved_component(c) or c in (".", "..") for c in sp.split("/"))
        single_bad = reserved_component(h) or h in (".", "..")
        cal_col = lambda: next(iter(st.discover("/user/cal/")))

        def get_multi():
            r = list(cal_col().get_multi([h]))
            return "refused" if all(i is None for _h, i in r) else [(x, bool(i)) for x, i in r]

        def discover(path):
            def f():
                r = list(st.discover(path, "1"))
                return "refused" if not r else [getattr(x, "path", None) for x in r]
            return f

        def move():
            c = cal_col()
            it = next(iter(c.get_all()))
            st.move(it, c, h)
            return "moved"

        attempt("get_multi(%r)" % h, with_lock(get_multi), h, single_bad)
        attempt("upload(%r)" % h, with_lock(lambda: (cal_col().upload(h, mk("u9")), "uploaded")[1]), h, single_bad)
        attempt("delete(%r)" % h, with_lock(lambda: (cal_col().delete(h), "deleted")[1]), h, single_bad and h != "")
        attempt("move(->%r)" % h, with_lock(move), h, single_bad)
        attempt("discover(%r)" % ("user/cal/" + h), with_lock(discover("user/cal/" + h)), h, path_bad("user/cal/" + h))
        attempt("discover(%r)" % h, with_lock(discover(h)), h, path_bad(h))
        attempt("create_collection(%r)" % ("user/" + h), with_lock(lambda: (st.create_collection("user/" + h), "created")[1]), h,
                path_bad("user/" + h))
        attempt("sync(%r)" % h, with_lock(lambda: (cal_col().sync("http://radicale.org/ns/sync/" + h), "synced")[1]), h, True)
        # restore the two items for the next round
        with st.acquire_lock("w", "user"):
            c = cal_col()
            have = {i.href for i in c.get_all()}
            for n in ("e1.ics", "e2.ics"):
                if n not in have:
                    c.upload(n, mk(n[:2]))
    # decoys and planted files must be intact
    for p, c in list(planted.items()) + [(os.path.join(BASE, "decoy.txt"), "DECOY-CONTENT")]:
        try:
            ok = open(p, newline="").read() == c
        except OSError:
            ok = False
        if not ok:
            events.append(dict(kind="reserved" if inside(p) else "outside", during="(final state)", detail="%s changed or removed" % p))
    json.dump(dict(events=events, calls=len(results), hostile=len(hostile),
                   refused=sum(1 for _l, e in results if e is not None)), open(sys.argv[2], "w"))


main()
