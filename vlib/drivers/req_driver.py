"""Generic request driver (run as a subprocess, optionally under strace).
usage: req_driver.py <spec.json> <out.json>
spec: {folder, conf, requests: [{method, path, data, login, headers:{...}, mark}], fsync}
Before each request os.stat('/rv-mark/<mark>') is issued so the trace can be cut."""
import json
import os
import sys

sys.path.insert(0, os.path.dirname(os.path.dirname(os.path.dirname(os.path.abspath(__file__)))))
from vlib import impl  # noqa: E402


def mark(label):
    try:
        os.stat("/rv-mark/" + label)
    except OSError:
        pass


def main():
    spec = json.load(open(sys.argv[1]))
    srv = impl.Server(conf=spec.get("conf"), folder=spec["folder"], fsync=spec.get("fsync", False))
    res = []
    mark("setup-done")
    for i, r in enumerate(spec["requests"]):
        mark(r.get("mark", "r%d" % i))
        if r["method"] == "__WRITE__":          # plant a file below the storage folder (not a request)
            fp = os.path.join(spec["folder"], r["path"])
            os.makedirs(os.path.dirname(fp), exist_ok=True)
            with open(fp, "w", newline="") as fh:
                fh.write(r.get("data") or "")
            res.append(dict(status=0))
            continue
        try:
            data = r.get("data")
            if isinstance(data, dict) and "latin1" in data:
                data = data["latin1"].encode("latin-1")
            st, h, b = srv.request(r["method"], r["path"], data=data, login=r.get("login"),
                                   environ=r.get("environ"), **r.get("headers", {}))
            res.append(dict(status=st, headers=h, body=b.decode("utf-8", "replace")))
        except BaseException as e:  # the driver must survive anything
            res.append(dict(status=-1, error=repr(e)))
    mark("end")
    json.dump(res, open(sys.argv[2], "w"))


if __name__ == "__main__":
    main()
