#!/venv/bin/python
"""C11 monitor driver: one real PROCESS contending on the real flock-based radicale.pathutils.RwLock.

usage: c11_flock_driver.py LOCKFILE|STORAGE-OPTIONS-JSON STATEFILE GUARDFILE NCYCLES SEED NTHREADS
Every process owns one RwLock object shared by NTHREADS threads: RwLock(LOCKFILE), or -- when the first argument is a
JSON object -- the lock of the real Storage built by radicale.storage.load from these [storage] options, entered
through Storage.acquire_lock (one server instance of a deployment).  Inside each critical section the holder
registers itself in STATEFILE ("<readers> <writers>", protected by a separate flock on GUARDFILE) and checks that
nobody incompatible is registered, and that RwLock.locked reports the mode it holds.  Prints a JSON summary.
"""
import fcntl
import json
import os
import random
import sys
import threading
import time


def main():
    lockfile, statefile, guardfile = sys.argv[1:4]
    ncycles, seed, nthreads = int(sys.argv[4]), int(sys.argv[5]), int(sys.argv[6])
    from radicale import pathutils
    if lockfile.startswith("{"):
        import logging
        from radicale import config, storage
        logging.getLogger("radicale").setLevel(logging.CRITICAL)
        conf = config.load()
        conf.update({"storage": json.loads(lockfile)}, "c11", privileged=True)
        st = storage.load(conf)

        class StorageLock:
            def acquire(self, mode):
                return st.acquire_lock(mode, "user")
            locked = property(lambda self: st._lock.locked)
        lock = StorageLock()
    else:
        lock = pathutils.RwLock(lockfile)
    res = dict(overlaps=[], errors=[], cycles=0, r=0, w=0, locked_mismatch=[])
    res_lock = threading.Lock()

    def guarded(delta_r, delta_w, check_mode):
        with open(guardfile, "r+") as g:
            fcntl.flock(g.fileno(), fcntl.LOCK_EX)
            with open(statefile, "r+") as f:
                txt = f.read().split()
                nr, nw = int(txt[0]), int(txt[1])
                bad = None
                if check_mode == "w" and (nr or nw):
                    bad = "writer enters while %d readers / %d writers are inside" % (nr, nw)
                if check_mode == "r" and nw:
                    bad = "reader enters while %d writers are inside" % nw
                nr += delta_r
                nw += delta_w
                if nr < 0 or nw < 0:
                    bad = "negative occupancy %d %d" % (nr, nw)
                f.seek(0)
                f.truncate()
                f.write("%d %d" % (nr, nw))
            return bad

    def worker(tid):
        rng = random.Random(seed * 1000 + tid)
        for _ in range(ncycles):
            mode = "w" if rng.random() < 0.35 else "r"
            try:
                with lock.acquire(mode):
                    bad = guarded(1 if mode == "r" else 0, 1 if mode == "w" else 0, mode)
                    seen = lock.locked
                    if rng.random() < 0.3:
                        time.sleep(0.0005)
                    bad2 = guarded(-1 if mode == "r" else 0, -1 if mode == "w" else 0, None)
                with res_lock:
                    res["cycles"] += 1
                    res[mode] += 1
                    if bad or bad2:
                        res["overlaps"].append(bad or bad2)
                    if seen != mode:
                        res["locked_mismatch"].append("held %r, locked said %r" % (mode, seen))
            except Exception as e:   # noqa: B902
                with res_lock:
                    res["errors"].append(repr(e))
    ths = [threading.Thread(target=worker, args=(i,)) for i in range(nthreads)]
    for t in ths:
        t.start()
    for t in ths:
        t.join()
    res["final_locked"] = lock.locked
    print(json.dumps(res))


if __name__ == "__main__":
    sys.path.insert(0, os.environ.get("VERIF_REPO", "/repo"))
    main()
