"""Driver of C12 / C02 (run as a subprocess under strace).
usage: c12_driver.py <spec.json> <out.json>
spec: {folder, conf, fsync, request: {method, path, data, login, headers}, list_before: [dirs], list_after: [dirs],
       fsize: RLIMIT_FSIZE during the request (optional), followups: [requests],
       startup: the traced phase starts before the Application is constructed (optional)}
       request may be {api: create_collection, path, props, user} (direct storage call)
Marks (stat of /rv-mark/<label>) cut the trace: setup-done, req, end."""
import json
import os
import sys

sys.path.insert(0, os.path.dirname(os.path.dirname(os.path.dirname(os.path.abspath(__file__)))))
from vlib import impl  # noqa: E402


def mark(label):
    try:
        os.stat("/rv-mark/" + label)
    except OSError:
        pass


def listing(folder, dirs):
    out = {}
    for d in dirs:
        try:
            out[d] = os.listdir(os.path.join(folder, d))
        except OSError:
            out[d] = None
    return out


def main():
    spec = json.load(open(sys.argv[1]))
    out = {}
    if spec.get("startup"):
        # the start-up is part of the history: the Application is constructed inside the traced phase
        # (first start on a storage location that does not exist yet)
        mark("setup-done")
        out["before"] = {}
        mark("req")
    srv = impl.Server(conf=spec.get("conf"), folder=spec["folder"], fsync=spec.get("fsync", True))
    if not spec.get("startup"):
        mark("setup-done")
        out["before"] = listing(spec["folder"], spec.get("list_before", []))
    r = spec["request"]
    limit = None
    if spec.get("fsize"):
        # a real short write: the kernel writes up to the limit, then fails with EFBIG (SIGXFSZ ignored)
        import resource
        import signal
        signal.signal(signal.SIGXFSZ, signal.SIG_IGN)
        limit = resource.getrlimit(resource.RLIMIT_FSIZE)
        resource.setrlimit(resource.RLIMIT_FSIZE, (spec["fsize"], limit[1]))
    if not spec.get("startup"):
        mark("req")
    try:
        if r.get("api") == "create_collection":
            # the storage API called directly (a plugin / the handlers' own call with a missing parent chain)
            storage_ = srv.application._storage
            with storage_.acquire_lock("w", r.get("user", "")):
                storage_.create_collection(r["path"], props=r.get("props"))
            st, h = 201, {}
        else:
            st, h, b = srv.request(r["method"], r["path"], data=r.get("data"), login=r.get("login"), **r.get("headers", {}))
        out["status"] = st
        out["etag"] = h.get("ETag")
    except BaseException as e:
        out["status"] = -1
        out["error"] = repr(e)
    mark("end")
    if limit is not None:
        resource.setrlimit(resource.RLIMIT_FSIZE, limit)
    out["after"] = listing(spec["folder"], spec.get("list_after", []))
    if spec.get("followups"):
        out["followups"], errs = [], []
        for i, f in enumerate(spec["followups"]):
            mark("fu%d" % i)
            try:
                out["followups"].append(srv.request(f["method"], f["path"], data=f.get("data"), login=f.get("login"), **f.get("headers", {}))[0])
            except BaseException as e:
                out["followups"].append(-1)
                errs.append(repr(e))
        mark("fu%d" % len(spec["followups"]))
        if errs:
            out["followup_errors"] = errs
    json.dump(out, open(sys.argv[2], "w"))


if __name__ == "__main__":
    main()
