"""C05 socket driver: the REAL built-in server (radicale.server.serve) in this process, with a polluted process
environment, instrumented like the in-process gate rig (vlib.x_C05.GateRig).  usage: c05_socket_driver.py SPEC OUT
SPEC = {"pollution": {VAR: value}, "jobs": [{"cfg": ..., "requests": [{"method", "path", "headers": [[k, v]], "script": [[l, pw, r]],
        "rights_w": [...], "handler": ...}]}]}
OUT  = {"process_env": {...}, "jobs": [[{"status", "www", "location", "events", "environ", "exists"}]]}"""
import json
import os
import sys

spec = json.load(open(sys.argv[1]))
os.environ.update(spec["pollution"])          # before wsgiref is imported: it snapshots os.environ at import time

import http.client  # noqa: E402
import shutil  # noqa: E402
import socket  # noqa: E402
import tempfile  # noqa: E402
import threading  # noqa: E402
import time  # noqa: E402
import urllib.parse  # noqa: E402

sys.path.insert(0, os.path.dirname(os.path.dirname(os.path.dirname(os.path.abspath(__file__)))))
from vlib import x_C05 as X  # noqa: E402
from vlib import x_C05_plugins as plug  # noqa: E402
from radicale import config, server  # noqa: E402
import radicale  # noqa: E402

out = {"process_env": dict(os.environ), "jobs": []}
for job in spec["jobs"]:
    cfg = job["cfg"]
    folder = tempfile.mkdtemp(prefix="rv-c05s-")
    with socket.socket(socket.AF_INET, socket.SOCK_STREAM) as sock:
        sock.bind(("127.0.0.1", 0))
        host, port = sock.getsockname()
    configuration = config.load()
    conf = X.GateRig.conf_of(cfg)
    conf["server"].pop("_internal_server")
    conf["server"]["hosts"] = "%s:%d" % (host, port)
    conf["storage"] = {"filesystem_folder": folder, "_filesystem_fsync": "False"}
    conf["logging"] = {"level": "critical"}
    configuration.update(conf, "verif", privileged=True)
    rigs = []
    real_app = radicale.Application

    def make_app(c, _cfg=cfg, _folder=folder):
        rig = X.GateRig(_cfg, app=real_app(c), folder=_folder)
        rigs.append(rig)
        return rig.app
    server.Application = make_app
    a, b = socket.socketpair()
    th = threading.Thread(target=server.serve, args=(configuration, b), daemon=True)
    th.start()
    results = []
    try:
        for _ in range(200):
            if rigs:
                try:
                    socket.create_connection((host, port), timeout=1).close()
                    break
                except OSError:
                    pass
            time.sleep(0.05)
        rig = rigs[0]
        del rig.environs[:]
        for rq in job["requests"]:
            plug.STATE["script"] = {(l, pw): (plug.RAISE if r is None else r) for l, pw, r in rq["script"]}
            plug.STATE["rights_w"] = set(rq["rights_w"])
            rig.handler_kind = rq["handler"]
            exists = [u for u in rq["users"] if u and rig.home_exists(u)]
            del rig.events[:]
            del rig.environs[:]
            rig.discover_calls.clear()
            rig.in_request = True
            conn = http.client.HTTPConnection(host, port, timeout=20)
            conn.putrequest(rq["method"], rq["path"], skip_host=True, skip_accept_encoding=True)
            for k, v in rq["headers"]:
                conn.putheader(k, v)
            conn.endheaders()
            resp = conn.getresponse()
            resp.read()
            hd = dict(resp.getheaders())
            conn.close()
            rig.in_request = False
            loc = hd.get("Location")
            results.append(dict(status=resp.status, www=hd.get("WWW-Authenticate"),
                                location=None if loc is None else urllib.parse.unquote(loc),
                                events=[list(e) for e in rig.events], environ=rig.environs[-1] if rig.environs else None,
                                exists=exists))
    finally:
        a.close()
        th.join(20)
        server.Application = real_app
        shutil.rmtree(folder, ignore_errors=True)
    out["jobs"].append(results)
json.dump(out, open(sys.argv[2], "w"))
