#!/venv/bin/python
"""C11 monitor driver: "one lock object per process guards one storage folder" (multifilesystem_nolock back-end).

usage: c11_app_driver.py wsgi|serve FOLDER NREQ
  wsgi : two threads make their FIRST request through the WSGI entry point `radicale.application` at the same time, with
         an Application constructor slowed down by a rendez-vous (so that a missing / misplaced lock in
         radicale._get_application_instance lets both construct), then both keep sending write requests (MKCOL).
  serve: the real radicale.server.serve() with TWO listening sockets (127.0.0.1, two ephemeral ports); one client thread
         per socket sends write requests over HTTP.
Exclusion monitor: the storage hook runs inside the exclusive storage lock; it is `mkdir marker || echo OVERLAP >> log;
sleep; rmdir marker` -- mkdir is atomic, so any two writers inside together leave a line in the log.
Prints JSON: applications constructed, distinct storage lock objects, overlaps, statuses.
"""
import http.client
import io
import json
import os
import socket
import sys
import threading
import time
import wsgiref.util


def conf_text(folder, log, hosts=None):
    marker = os.path.join(folder, "marker")
    hook = "mkdir %s 2>/dev/null || echo OVERLAP >> %s; sleep 0.02; rmdir %s 2>/dev/null; true" % (marker, log, marker)
    txt = ("[storage]\ntype = multifilesystem_nolock\nfilesystem_folder = %s\nhook = %s\n"
           "[auth]\ntype = none\n[rights]\ntype = authenticated\n[logging]\nlevel = critical\n" % (
               os.path.join(folder, "store"), hook))
    if hosts:
        txt += "[server]\nhosts = %s\n" % hosts
    return txt


def main():
    mode, folder, nreq = sys.argv[1], sys.argv[2], int(sys.argv[3])
    os.makedirs(folder, exist_ok=True)
    log = os.path.join(folder, "overlap.log")
    res = dict(mode=mode, constructed=0, distinct_apps=0, distinct_locks=0, statuses={}, errors=[])
    apps = []
    apps_guard = threading.Lock()
    import radicale
    import radicale.server
    from radicale.app import Application as RealApplication

    if mode == "wsgi":
        cfg = os.path.join(folder, "config")
        with open(cfg, "w") as f:
            f.write(conf_text(folder, log))
        rendezvous = threading.Barrier(2)

        def slow_application(configuration):
            try:
                rendezvous.wait(timeout=0.4)        # passes only if two constructions are in progress together
            except threading.BrokenBarrierError:
                pass
            a = RealApplication(configuration)
            with apps_guard:
                apps.append(a)
            return a
        radicale.Application = slow_application     # the name _get_application_instance uses
        start = threading.Barrier(2)

        def client(i):
            try:
                start.wait(timeout=5)
                for k in range(nreq):
                    env = {"REQUEST_METHOD": "MKCOL", "PATH_INFO": "/t%d_%d/" % (i, k), "RADICALE_CONFIG": cfg,
                           "wsgi.input": io.BytesIO(b""), "CONTENT_LENGTH": "0"}
                    wsgiref.util.setup_testing_defaults(env)
                    env["REQUEST_METHOD"] = "MKCOL"
                    env["PATH_INFO"] = "/t%d_%d/" % (i, k)
                    env["wsgi.errors"] = io.StringIO()
                    out = {}
                    list(radicale.application(env, lambda s, h: out.setdefault("s", s)))
                    st = out.get("s", "?").split()[0]
                    with apps_guard:
                        res["statuses"][st] = res["statuses"].get(st, 0) + 1
            except Exception as e:   # noqa: B902
                res["errors"].append(repr(e))
        ths = [threading.Thread(target=client, args=(i,)) for i in range(2)]
        for t in ths:
            t.start()
        for t in ths:
            t.join(120)
    else:
        from radicale import config
        cfg = os.path.join(folder, "config")
        with open(cfg, "w") as f:
            f.write(conf_text(folder, log, "127.0.0.1:0, 127.0.0.1:0"))
        configuration = config.load([(cfg, False)])
        ports = []

        def counting_application(configuration_):
            a = RealApplication(configuration_)
            with apps_guard:
                apps.append(a)
            return a
        radicale.server.Application = counting_application
        real_set_app = radicale.server.ParallelHTTPServer.set_app

        def set_app(self, application):
            ports.append(self.server_address[1])
            return real_set_app(self, application)
        radicale.server.ParallelHTTPServer.set_app = set_app
        a_sock, b_sock = socket.socketpair()
        srv = threading.Thread(target=lambda: radicale.server.serve(configuration, b_sock), daemon=True)
        srv.start()
        t0 = time.time()
        while len(ports) < 2 and time.time() - t0 < 20:
            time.sleep(0.02)
        res["ports"] = len(ports)
        time.sleep(0.2)

        def client(i):
            try:
                for k in range(nreq):
                    c = http.client.HTTPConnection("127.0.0.1", ports[i % len(ports)], timeout=30)
                    c.request("MKCOL", "/t%d_%d/" % (i, k))
                    st = str(c.getresponse().status)
                    c.close()
                    with apps_guard:
                        res["statuses"][st] = res["statuses"].get(st, 0) + 1
            except Exception as e:   # noqa: B902
                res["errors"].append(repr(e))
        ths = [threading.Thread(target=client, args=(i,)) for i in range(2)]
        for t in ths:
            t.start()
        for t in ths:
            t.join(120)
        a_sock.close()
        srv.join(20)
    res["constructed"] = len(apps)
    res["distinct_apps"] = len(set(id(a) for a in apps))
    res["distinct_locks"] = len(set(id(a._storage._lock) for a in apps))
    res["overlaps"] = len(open(log).read().split()) if os.path.exists(log) else 0
    print(json.dumps(res))


if __name__ == "__main__":
    sys.path.insert(0, os.environ.get("VERIF_REPO", "/repo"))
    main()
