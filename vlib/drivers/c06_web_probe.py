"""C06 web probe: static pages below /.web are read only from the packaged web folder.

Drives the real Application of VERIF_REPO (web type internal) in-process with WSGI environs whose PATH_INFO carries encoded,
doubly encoded and mixed segments (what a WSGI server hands over when the '%' itself was encoded on the wire), GET and HEAD.
An audit hook records every path opened / listed while a request is served.  Reported (precise, so that lazy imports can
never be mistaken for an escape): a request is a violation if
  * it opened or listed a path outside the packaged web folder and the storage folder that is one of the request's ESCAPE
    TARGETS (the path suffix decoded 0..3 times and joined onto the web folder, normalised) or lies below the decoy folder, or
  * its response body contains the decoy content or equals the content of an escape target outside the web folder.

usage: c06_web_probe.py <spec.json> <out.json>     spec: {"base": dir, "seed": int, "n": int}
"""
import io
import json
import os
import random
import sys
from urllib.parse import unquote

spec = json.load(open(sys.argv[1]))
BASE = os.path.realpath(spec["base"])
rng = random.Random(spec["seed"])
sys.path.insert(0, os.environ.get("VERIF_REPO", "/repo"))

opened = []
recording = [False]


def audit(event, args):
    if recording[0] and event in ("open", "os.scandir", "os.listdir") and args and isinstance(args[0], (str, bytes)):
        opened.append((event, os.path.realpath(os.fsdecode(args[0]))))


def main():
    import radicale
    from radicale import app, config, log
    log.set_level("critical", False)
    folder = os.path.join(BASE, "storage")
    outside = os.path.join(BASE, "outside")
    os.makedirs(folder)
    os.makedirs(outside)
    decoy = os.path.join(outside, "decoy.txt")
    with open(decoy, "w") as fh:
        fh.write("DECOY-CONTENT-OUTSIDE-THE-WEB-FOLDER")
    configuration = config.load()
    configuration.update({"storage": {"filesystem_folder": folder, "_filesystem_fsync": "False"},
                          "auth": {"type": "none"}, "web": {"type": "internal"}}, "probe", privileged=True)
    application = app.Application(configuration)
    package_folder = os.path.realpath(os.path.dirname(radicale.__file__))
    web_folder = os.path.join(package_folder, "web", "internal_data")
    allowed = (web_folder + os.sep, os.path.realpath(folder) + os.sep)

    def inside(p):
        return p == web_folder or p.startswith(allowed)

    def request(method, path):
        environ = {"REQUEST_METHOD": method, "PATH_INFO": path, "SCRIPT_NAME": "", "SERVER_NAME": "localhost",
                   "SERVER_PORT": "80", "SERVER_PROTOCOL": "HTTP/1.1", "wsgi.url_scheme": "http",
                   "wsgi.input": io.BytesIO(b""), "wsgi.errors": sys.stderr, "CONTENT_LENGTH": "0", "HTTP_HOST": "localhost"}
        result = {}

        def start_response(status, response_headers):
            result["status"] = int(status.split()[0])
        del opened[:]
        recording[0] = True
        try:
            answer = b"".join(application(environ, start_response))
        finally:
            recording[0] = False
        return result.get("status"), answer, list(opened)

    sys.addaudithook(audit)
    for m in ("GET", "HEAD"):
        for p in ("/.web/", "/.web", "/.web/nothing-here", "/.web/css/", "/.web/index.html"):
            request(m, p)                                   # warm up

    depth = len(web_folder.strip("/").split("/"))
    dd = ["%2e%2e", "%2E%2E", "%252e%252e", "..", "%2e.", ".%2e", "%2e%2e%2f", "..%2f", "%2e%2e%2F%2e%2e", "%25252e%25252e"]
    inner = ["config.py", "pathutils.py", "web/__init__.py", "web/internal.py", "__init__.py"]
    paths = []
    for d in dd:
        for t in inner:
            paths.append("/.web/" + "/".join([d, d]) + "/" + t)
            paths.append("/.web/css/" + "/".join([d, d, d]) + "/" + t)
        for extra in (0, 1, 3):
            paths.append("/.web/" + "/".join([d] * (depth + extra)) + decoy)
            paths.append("/.web/" + "/".join([d] * (depth + extra)) + "/" + decoy.strip("/").replace("/", "%2f"))
        paths.append("/.web/" + d)
        paths.append("/.web/" + d + "/")
        paths.append("/.web/" + d + "/" + d + "/web/internal_data/index.html")
    paths += ["/.web/%2f" + decoy.strip("/"), "/.web/%2f%2f" + decoy.strip("/"), "/.web/a%2f..%2f..%2f..%2fconfig.py",
              "/.web/%2e%2e%2f%2e%2e%2fconfig.py", "/.web/css%2f..%2f..%2f..%2fconfig.py", "/.web/%2e", "/.web/%2e/index.html",
              "/.web/%00", "/.web/index.html%00", "/.web/%2e%2e%5c%2e%2e%5cconfig.py", "/.web/..%5c..%5cconfig.py"]
    segs = dd + ["css", "fn.js", "index.html", "infcloud", "%2e", "%2f", "a%2fb", "web", "internal_data", "config.py", "%20"]
    while len(paths) < spec["n"]:
        k = rng.randrange(1, 14)
        tail = rng.choice(inner + ["index.html", decoy.strip("/"), "", "css/main.css"])
        paths.append("/.web/" + "/".join(rng.choice(segs) for _ in range(k)) + ("/" + tail if tail else ""))
    events, statuses = [], {}
    for p in paths:
        suffix = p[len("/.web"):]
        targets = set()
        cur = suffix
        for _ in range(4):
            try:
                t = os.path.realpath(os.path.normpath(web_folder + "/" + cur.replace("\\", "/")))
                if not inside(t):
                    targets.add(t)
            except ValueError:
                pass
            cur = unquote(cur)
        for m in ("GET", "HEAD"):
            try:
                status, body, ops = request(m, p)
            except Exception as e:                       # an exception escaping the WSGI application is not an escape
                statuses["exception:" + type(e).__name__] = statuses.get("exception:" + type(e).__name__, 0) + 1
                continue
            statuses[str(status)] = statuses.get(str(status), 0) + 1
            bad = None
            for ev, op in ops:
                if not inside(op) and (op in targets or op.startswith(os.path.realpath(outside) + os.sep) or op == os.path.realpath(outside)):
                    bad = "%s of %s" % (ev, op)
                    break
            if bad is None and b"DECOY-CONTENT-OUTSIDE-THE-WEB-FOLDER" in body:
                bad = "the response carries the decoy content"
            if bad is None and status == 200 and body:
                for t in targets:
                    try:
                        if os.path.isfile(t) and open(t, "rb").read() == body:
                            bad = "the response is the content of %s" % t
                    except OSError:
                        pass
            if bad:
                events.append(dict(method=m, path=p, status=status, what=bad))
    json.dump(dict(events=events[:20], requests=2 * len(paths), statuses=statuses), open(sys.argv[2], "w"))


main()
