"""C20 driver -- runs the REAL radicale.server.serve() in a thread and plays event scripts against it.

usage: c20_driver.py <jobs.json> <out.json>        (PYTHONPATH must contain the Radicale tree under test)

Nothing in /repo is changed.  From the outside the driver substitutes, in the namespace of radicale.server:
  * `Application`  -> a subclass of the real Application whose do_PUT/do_GET/do_POST block on a per-connection
                      event (the real `_handle_request` gate, incl. the Content-Length check, runs unchanged);
  * `select`       -> a proxy of the select module whose select() records rlist / result and, in lock-step
                      mode, lets the loop proceed only when the script says `iter` (the real select does the work);
  * ParallelHTTPServer.__init__/get_request are wrapped to learn listeners, accepts and worker sockets.

job kinds:
  {"kind": "script", "cfg": {...}, "seed": n, "nops": k, "lockstep": bool, "script": [...] | null}
  {"kind": "gate", "cases": [...]}     direct WSGI calls of the same Application subclass (no sockets)

Every wait is condition-based with a generous deadline (DEADLINE); observations that something does NOT
happen use a short quiet period and can therefore only miss a defect on a slow machine, never invent one.
"""
import base64
import io
import json
import logging
import os
import random
import select as real_select
import shutil
import socket
import sys
import tempfile
import threading
import time
import traceback
import wsgiref.util

import radicale
from radicale import config, httputils
from radicale import server as rs
from radicale.app import Application

radicale.log.logger.setLevel(logging.CRITICAL)

DEADLINE = 20.0       # generous: only reached when something is really stuck
FAILED_SCRIPTS = 0    # per driver process: after 2 failing scripts the rest is skipped (enough replays, bounded time)
QUIET = 0.25          # quiet period for "does not happen" observations
MAXQ = 4              # queued (not accepted) connections per listener: below socketserver's listen(5)

CURRENT = None        # the Run in progress (one per process at a time)


class Inconclusive(Exception):
    pass


# ------------------------------------------------------------------------------------------ substitutions
class HarnessApp(Application):
    def _blocking(self, environ, base_prefix, path, user):
        run = CURRENT
        try:
            c = int(environ.get("HTTP_X_CONN", "-1"))
        except ValueError:
            c = -1
        if run is None:
            GATE_CALLS.append(c)
            return 200, {"Content-Type": "text/plain"}, "done-%d" % c
        run.handler_enter(c)
        try:
            if environ.get("REQUEST_METHOD", "").upper() in BODY_VERBS:
                # as the real handlers of these methods do; blocks in wsgi.input.read until Content-Length bytes
                # are there, a socket.timeout ends the handler (-> 500 by Application.__call__)
                httputils.read_raw_request_body(self.configuration, environ)
                run.body_read(c)
            ev = run.release_event(c)
            ev.wait(DEADLINE * 3)
        finally:
            run.handler_leave(c)
        return 200, {"Content-Type": "text/plain"}, "done-%d" % c


# EVERY method the application dispatches gets the blocking/recording handler
VERBS = sorted(n[3:] for n in dir(Application) if n.startswith("do_"))
for _v in VERBS:
    setattr(HarnessApp, "do_" + _v, HarnessApp._blocking)


GATE_CALLS = []
# methods whose (harness) handler reads the request body from the socket, as the real handlers of these methods do
BODY_VERBS = ("PUT", "PROPFIND", "PROPPATCH", "REPORT", "MKCOL", "MKCALENDAR")


class SelectProxy:
    def __getattr__(self, name):
        return getattr(real_select, name)

    def select(self, r, w, x, timeout=None):
        run = CURRENT
        if run is None or threading.current_thread() is not run.serve_thread:
            return real_select.select(r, w, x, timeout)
        return run.loop_select(r, w, x, timeout)


_orig_init = rs.ParallelHTTPServer.__init__
_orig_get_request = rs.ParallelHTTPServer.get_request


def _init(self, *a, **kw):
    _orig_init(self, *a, **kw)
    if CURRENT is not None:
        CURRENT.register_server(self)


def _get_request(self):
    run = CURRENT
    if run is None:
        return _orig_get_request(self)
    before = set(self.worker_sockets)
    t0 = time.monotonic()
    res = _orig_get_request(self)
    try:
        request, (addr, wsock) = res
        new = [s for s in self.worker_sockets if s not in before]
        c = run.on_accept(self, addr, new[0] if len(new) == 1 else None, t0)
        res = (request, (addr, CloseStamp(wsock, run, c)))
    except Exception:   # a changed get_request must not crash the driver
        run.note("get_request hook: " + traceback.format_exc())
    return res


class CloseStamp:
    """the thread's end of the worker socket pair; notes the time just BEFORE it is closed"""

    def __init__(self, sock, run, c):
        self._sock, self._run, self._c = sock, run, c

    def close(self):
        if self._c is not None and self._c not in self._run.t_closing:
            self._run.t_closing[self._c] = time.monotonic()
        return self._sock.close()

    def __getattr__(self, name):
        return getattr(self._sock, name)


rs.Application = HarnessApp
rs.select = SelectProxy()
rs.ParallelHTTPServer.__init__ = _init
rs.ParallelHTTPServer.get_request = _get_request


# ------------------------------------------------------------------------------------------ requests
def abstract_cl(s):
    """What `int(environ.get("CONTENT_LENGTH") or 0)` makes of the header value (None = header absent)."""
    if s is None or s == "":
        return ["absent"]
    try:
        return ["int", int(s)]
    except ValueError:
        return ["bad"]


def needs_body(m):
    """model field r_body: the handler reads the declared body from the socket"""
    if m.get("garbage") or not m.get("method"):
        return False
    a = abstract_cl(m.get("cl"))
    return m.get("verb", "PUT") in BODY_VERBS and a[0] == "int" and a[1] != 0


def owed_body(m, max_len):
    """number of body bytes the client owes: only for requests that will reach a body-reading handler"""
    if not needs_body(m):
        return 0
    z = abstract_cl(m.get("cl"))[1]
    plain = m["pref"] == "ok" and m["wk"] == "none" and m["auth"] != "fail"
    if plain and 0 < z <= 4096 and (max_len <= 0 or z <= max_len):
        return z
    return 0


def build_request(c, m):
    """m: {"garbage": true} | {"pref": "ok|badheader", "method": bool, "wk": "none|redirect|notfound",
    "auth": "anon|ok|fail", "cl": str|None}.  No body bytes are ever sent (nothing reads them)."""
    if m.get("garbage"):
        return b"NONSENSE\r\n\r\n"
    method = (m.get("verb") or "PUT") if m["method"] else "FROB"
    path = {"none": "/c%d" % c, "redirect": "/x/.well-known/caldav", "notfound": "/.well-known/foo"}[m["wk"]]
    lines = ["%s %s HTTP/1.1" % (method, path), "Host: localhost", "X-Conn: %d" % c]
    if m["pref"] == "badheader":
        lines.append("X-Script-Name: nolead")
    if m["auth"] == "ok":
        lines.append("Authorization: Basic " + base64.b64encode(b"good:pw").decode())
    elif m["auth"] == "fail":
        lines.append("Authorization: Basic " + base64.b64encode(b"good:wrong").decode())
    if m.get("cl") is not None:
        lines.append("Content-Length: " + m["cl"])
    return ("\r\n".join(lines) + "\r\n\r\n").encode("latin-1")


def parse_response(data, head=False):
    """-> (status or 0, complete: bool); head: answer to a HEAD request (Content-Length without body)"""
    if not data:
        return 0, False
    if not data.startswith(b"HTTP/"):
        # http.server answers a request line without version in HTTP/0.9 style: the error page only
        import re
        m = re.search(rb"Error code: (\d+)", data)
        return (int(m.group(1)) if m else 0), data.rstrip().endswith(b"</html>")
    head, sep, body = data.partition(b"\r\n\r\n")
    try:
        status = int(head.split(b"\r\n")[0].split()[1])
    except Exception:
        return 0, False
    if not sep:
        return status, False
    clen = None
    for line in head.split(b"\r\n")[1:]:
        k, _, v = line.partition(b":")
        if k.strip().lower() == b"content-length":
            try:
                clen = int(v.strip())
            except ValueError:
                pass
    return status, (clen is None or len(body) == clen or (head and not body))


# ------------------------------------------------------------------------------------------ clients
def is_head(cl):
    return bool(cl.sent) and not cl.sent.get("garbage") and cl.sent.get("method") and cl.sent.get("verb") == "HEAD"


class Client:
    def __init__(self, c, lis):
        self.c, self.lis = c, lis
        self.sock = None
        self.sent = None          # abstract request (head complete)
        self.partial = None       # (m, rest of the head) after a part of the head was sent
        self.owed = 0             # body bytes still to send
        self.body_done = False    # the handler has read the complete body
        self.tbody_emitted = False
        self.closed = False       # client closed without sending
        self.accepted = False
        self.acc_seq = None
        self.t_accept = None
        self.wsock = None         # entry of server.worker_sockets
        self.entered = False
        self.released = False
        self.read_emitted = False
        self.done = False         # worker socket known readable (thread finished)
        self.data = b""
        self.eof = False
        self.t_eof = None

    def pump(self, wait):
        """read what the server sent; returns True at EOF/reset"""
        if self.eof or self.sock is None:
            return self.eof
        end = time.monotonic() + wait
        while True:
            left = max(0.0, end - time.monotonic())
            r, _, _ = real_select.select([self.sock], [], [], left)
            if not r:
                return False
            try:
                b = self.sock.recv(65536)
            except (ConnectionResetError, BrokenPipeError, OSError):
                b = b""
            if not b:
                self.eof = True
                self.t_eof = time.monotonic()
                return True
            self.data += b


# ------------------------------------------------------------------------------------------ one run
def auth_section(t, folder, ht):
    """a configuration of auth back-end t that needs no external service: the external servers are unreachable, a login
    through such a back-end is refused at once -- but it has run the back-end's code"""
    a = {"type": t, "delay": "0"}
    a.update({"htpasswd": {"htpasswd_filename": ht, "htpasswd_encryption": "plain"},
              "imap": {"imap_host": "127.0.0.1:1", "imap_security": "none"},
              "ldap": {"ldap_uri": "ldap://127.0.0.1:1", "ldap_base": "dc=x"},
              "oauth2": {"oauth2_token_endpoint": "http://127.0.0.1:1/t"},
              "dovecot": {"dovecot_socket": os.path.join(folder, "no-such-socket")}}.get(t, {}))
    return a


class Run:
    def __init__(self, cfg, lockstep, rng):
        self.cfg, self.lockstep, self.rng = cfg, lockstep, rng
        self.lock = threading.Lock()
        self.servers = []            # in creation order = listener index
        self.ports = []
        self.clients = {}
        self.by_port = {}
        self.wsock_conn = {}         # worker socket -> conn id
        self.acc_seq = 0
        self.accept_log = []         # (sel_k, lis, c)
        self.t_closing = {}          # conn -> time just before its thread closed the worker socket
        self.sel_calls = []          # per select call: dict
        self.sel_k = -1
        self.parked = threading.Event()
        self.permits = threading.Semaphore(0)
        self.events, self.obs = [], []
        self.ops = []
        self.fail = []               # monitor failures (dicts)
        self.stray_timeout = None
        self.stray_reported = False
        self.notes = []
        self.in_handler = 0
        self.max_in_handler = 0
        self.max_worker_sockets = 0
        self.handler_calls = []
        self.release_events = {}
        self.stopped = False
        self.broke = False
        self.break_k = None
        self.returned_emitted = False
        self.serve_exc = None
        self.t_return = None
        self.final_workers = []
        self.stats = dict(iters=0, accepts=0, timeouts=0, too_large=0, handled=0, max_queue=0, quiet_checks=0)

    # ---- hooks (server side threads)
    def note(self, s):
        with self.lock:
            self.notes.append(s)

    def register_server(self, srv):
        self.servers.append(srv)
        self.ports.append(srv.socket.getsockname()[1])

    def release_event(self, c):
        with self.lock:
            return self.release_events.setdefault(c, threading.Event())

    def handler_enter(self, c):
        with self.lock:
            self.in_handler += 1
            self.max_in_handler = max(self.max_in_handler, self.in_handler)
            self.handler_calls.append(c)
            cl = self.clients.get(c)
            if cl is not None:
                cl.entered = True

    def body_read(self, c):
        with self.lock:
            cl = self.clients.get(c)
            if cl is not None:
                cl.body_done = True

    def handler_leave(self, c):
        with self.lock:
            self.in_handler -= 1

    def on_accept(self, srv, addr, wsock, t0):
        with self.lock:
            c = self.by_port.get(addr[1])
            lis = self.servers.index(srv)
            self.accept_log.append((self.sel_k, lis, c))
            self.stats["accepts"] += 1
            if c is not None:
                cl = self.clients[c]
                cl.accepted, cl.t_accept, cl.wsock = True, t0, wsock
                cl.acc_seq = self.acc_seq
                self.acc_seq += 1
                if wsock is not None:
                    self.wsock_conn[wsock] = c
            return c

    def classify(self, socks):
        ws, ls, st, other = [], [], False, 0
        for s in socks:
            if s is self.shutdown_out:
                st = True
            elif s in self.wsock_conn:
                ws.append(self.wsock_conn[s])
            else:
                for i, srv in enumerate(self.servers):
                    if s is srv.socket:
                        ls.append(i)
                        break
                else:
                    other += 1
        ws.sort(key=lambda c: self.clients[c].acc_seq)
        return ws, sorted(ls), st, other

    def loop_select(self, r, w, x, timeout):
        with self.lock:
            self.sel_k += 1
            k = self.sel_k
            ws, ls, st, other = self.classify(r)
            total_ws = sum(len(s.worker_sockets) for s in self.servers)
            self.max_worker_sockets = max(self.max_worker_sockets, total_ws)
            rec = dict(k=k, rl_ws=ws, rl_listen=ls, rl_stop=st, other=other, rlist=list(r), ret=None,
                       total_ws=total_ws)
            self.sel_calls.append(rec)
            # model assumption: serve() WAITS on these sockets (select without timeout, recv(1) in the finally block);
            # a timeout on them -- e.g. a changed process-wide socket default -- makes the shutdown path give up
            for sck in r:
                if sck in self.wsock_conn or sck is self.shutdown_out:
                    try:
                        to = sck.gettimeout()
                    except OSError:
                        to = None
                    if to is not None:
                        self.stray_timeout = max(self.stray_timeout or 0.0, to)
                        if not self.stray_reported:
                            self.stray_reported = True
                            self.fail.append(dict(
                                what="a socket serve() waits on (worker socket pair / shutdown socket) is not blocking: timeout "
                                     "%.1f s, process-wide socket default timeout = %r: the wait for a worker in the shutdown path "
                                     "gives up after that time" % (to, socket.getdefaulttimeout()),
                                conn=self.wsock_conn.get(sck), auth_type=self.cfg.get("auth_type", "htpasswd")))
        self.parked.set()
        if self.lockstep:
            self.permits.acquire()
        self.parked.clear()
        res = real_select.select(r, w, x, timeout)
        with self.lock:
            rw, rl, rst, _ = self.classify(res[0])
            rec["ret"] = dict(ws=rw, ls=rl, stop=rst)
            rec["t_ret"] = time.monotonic()
        return res

    # ---- life cycle
    def start(self):
        global CURRENT
        CURRENT = self
        self.folder = tempfile.mkdtemp(prefix="rv-c20-")
        ht = os.path.join(self.folder, "htpasswd")
        with open(ht, "w") as f:
            f.write("good:pw\n")
        conf = config.load()
        conf.update({
            "server": {"hosts": ",".join(["127.0.0.1:0"] * self.cfg["listeners"]),
                       "max_connections": str(self.cfg["max_conn"]),
                       "timeout": repr(float(self.cfg["timeout"])),
                       "max_content_length": str(self.cfg["max_len"])},
            "storage": {"filesystem_folder": os.path.join(self.folder, "coll")},
            "auth": {"type": "htpasswd", "htpasswd_filename": ht, "htpasswd_encryption": "plain", "delay": "0"},
            "logging": {"level": "critical"}}, "verif", privileged=True)
        if self.cfg.get("real_app"):
            conf.update({"auth": {"type": "none"}}, "verif", privileged=True)
        if self.cfg.get("auth_type"):
            conf.update({"auth": auth_section(self.cfg["auth_type"], self.folder, ht)}, "verif", privileged=True)
        if self.cfg.get("ssl"):
            static = os.path.join(os.path.dirname(radicale.__file__), "tests", "static")
            conf.update({"server": {"ssl": "True", "certificate": os.path.join(static, "cert.pem"),
                                    "key": os.path.join(static, "key.pem")}}, "verif", privileged=True)
        self.shutdown_in, self.shutdown_out = socket.socketpair()

        def target():
            try:
                rs.serve(conf, self.shutdown_out)
            except BaseException as e:   # noqa
                self.serve_exc = repr(e)
            self.t_return = time.monotonic()
            self.parked.set()            # wake a waiter
        self.serve_thread = threading.Thread(target=target, daemon=True, name="serve")
        self.serve_thread.start()
        if not self.wait_for(lambda: self.sel_calls or self.t_return is not None):
            raise Inconclusive("server did not start")
        if self.serve_exc or len(self.servers) != self.cfg["listeners"]:
            raise Inconclusive("server start failed: %r %d" % (self.serve_exc, len(self.servers)))
        rec = self.sel_calls[0]
        self.emit("LBuild", [], [["ORlist", rec["rl_ws"], self.listen_flag(rec)]])

    def listen_flag(self, rec):
        n = len(rec["rl_listen"])
        if n not in (0, len(self.servers)) or rec["other"] or not rec["rl_stop"]:
            self.fail.append(dict(what="rlist has an unexpected composition", rec=self.rec_json(rec)))
        return n > 0

    @staticmethod
    def rec_json(rec):
        return {k: v for k, v in rec.items() if k != "rlist"}

    def wait_for(self, cond, deadline=DEADLINE, step=0.002):
        if self.fail:
            deadline = min(deadline, 2.0)      # something already failed: do not spend more time on this script
        end = time.monotonic() + deadline
        while not cond():
            if time.monotonic() > end:
                return False
            time.sleep(step)
            step = min(step * 1.5, 0.05)
        return True

    def cleanup(self):
        global CURRENT
        # let everything go
        for ev in list(self.release_events.values()):
            ev.set()
        for c in list(self.clients):
            self.release_event(c).set()
        try:
            self.shutdown_in.close()
        except OSError:
            pass
        for _ in range(1000):
            self.permits.release()
        for cl in self.clients.values():
            try:
                if cl.sock is not None:
                    cl.sock.close()
            except OSError:
                pass
        self.serve_thread.join(1 if self.fail else 10)
        CURRENT = None
        shutil.rmtree(self.folder, ignore_errors=True)

    def pump(self, cl, wait=DEADLINE):
        return cl.pump(min(wait, 2.0) if self.fail else wait)

    # ---- model log
    def emit(self, ev, args, obs):
        self.events.append([ev] + list(args))
        self.obs.extend(obs)

    def worker_ready(self, cl, wait=0.0):
        if cl.wsock is None:
            return False
        try:
            r, _, _ = real_select.select([cl.wsock], [], [], wait)
        except (OSError, ValueError):
            return True     # closed by the loop: it was reaped, hence finished
        return bool(r)

    # ---- environment facts
    def queued(self, lis):
        return [cl for cl in self.clients.values() if cl.lis == lis and not cl.accepted]

    def silent(self):
        """accepted clients the server waits for: nothing / a part of the head sent, or head sent and body outstanding"""
        return [cl for cl in self.clients.values() if cl.accepted and not cl.done and not cl.closed and
                (cl.sent is None or cl.owed > 0)]

    def body_silent(self, cl):
        return cl.sent is not None and cl.owed > 0

    def loop_parked(self):
        return self.parked.is_set() and self.serve_thread.is_alive() and self.t_return is None

    def iter_enabled(self):
        if self.broke or not self.loop_parked():
            return False
        rec = self.sel_calls[-1]
        if rec["ret"] is not None:
            return False
        try:
            r, _, _ = real_select.select(rec["rlist"], [], [], 0)
        except (OSError, ValueError):
            return True
        return bool(r)

    # ---- operations
    def op_connect(self, lis):
        c = len(self.clients)
        cl = Client(c, lis)
        s = socket.socket(socket.AF_INET, socket.SOCK_STREAM)
        s.settimeout(DEADLINE)
        s.bind(("127.0.0.1", 0))
        with self.lock:
            self.clients[c] = cl
            self.by_port[s.getsockname()[1]] = c
        s.connect(("127.0.0.1", self.ports[lis]))
        cl.sock = s
        self.stats["max_queue"] = max(self.stats["max_queue"], len(self.queued(lis)))
        self.emit("EConnect", [lis], [["ONewConn", c]])

    def op_partial(self, c, m):
        cl = self.clients[c]
        head = build_request(c, m)
        k = max(1, min(len(head) - 4, len(head) // 2))
        cl.partial = (m, head[k:])
        try:
            cl.sock.sendall(head[:k])
        except OSError as e:
            self.note("send to %d failed: %r" % (c, e))
        self.emit("EPartial", [c], [])

    def op_send(self, c, m, full):
        cl = self.clients[c]
        data = build_request(c, m)
        if cl.partial is not None:
            m, data = cl.partial
            cl.partial = None
        cl.owed = owed_body(m, self.cfg["max_len"])
        if not cl.owed:
            full = True
        m = dict(m, full=bool(full), body=needs_body(m))
        cl.sent = m
        if full and cl.owed:
            data += b"x" * cl.owed
            cl.owed = 0
        try:
            cl.sock.sendall(data)
        except OSError as e:
            self.note("send to %d failed: %r" % (c, e))
        self.emit("ESend", [c, m, bool(full)], [])
        if cl.accepted:
            self.settle_read(cl)
        return m, bool(full)

    def op_body(self, c, part=False):
        cl = self.clients[c]
        if part:
            # silence in the MIDDLE of the body: one more byte, the body stays incomplete (no model event)
            try:
                cl.sock.sendall(b"x")
            except OSError as e:
                self.note("send to %d failed: %r" % (c, e))
            cl.owed -= 1
            return
        try:
            cl.sock.sendall(b"x" * cl.owed)
        except OSError as e:
            self.note("send to %d failed: %r" % (c, e))
        cl.owed = 0
        self.emit("EBody", [c], [])
        if cl.accepted:
            self.settle_read(cl)

    def op_close(self, c):
        cl = self.clients[c]
        cl.closed = True
        cl.sock.close()
        cl.sock = None
        self.emit("EClose", [c], [])
        if cl.accepted:
            self.settle_read(cl)

    def settle_body(self, cl):
        """inside the handler: the complete body has arrived -> the thread reads it"""
        if cl.tbody_emitted or cl.done or not cl.entered or not cl.sent or not cl.sent.get("body") or cl.owed > 0:
            return
        if not self.wait_for(lambda: cl.body_done or self.worker_ready(cl)):
            self.fail.append(dict(what="handler never gets the complete request body", conn=cl.c))
            raise Inconclusive("stuck")
        if cl.body_done:
            cl.tbody_emitted = True
            self.emit("TBody", [cl.c], [["OBodyRead", cl.c]])

    def in_handler_proper(self, cl):
        return cl.entered and cl.read_emitted and not cl.released and not cl.done and \
            (not cl.sent.get("body") or cl.tbody_emitted)

    def settle_read(self, cl):
        """the thread of an accepted connection consumes what the client did"""
        if cl.done:
            return
        if cl.read_emitted:
            self.settle_body(cl)
            return
        if not self.wait_for(lambda: cl.entered or self.worker_ready(cl)):
            self.fail.append(dict(what="request of an accepted connection is never read", conn=cl.c))
            raise Inconclusive("stuck")
        if cl.read_emitted:
            return
        cl.read_emitted = True
        if cl.entered and not self.worker_ready(cl):
            self.emit("TRead", [cl.c], [["OEnter", cl.c]])
            self.settle_body(cl)
            return
        if cl.entered and self.body_silent(cl) and 0 < float(self.cfg["timeout"]) < 5:
            # entered the handler, waited for the body, and the socket timeout has fired already
            self.emit("TRead", [cl.c], [["OEnter", cl.c]])
            self.timeout_seen(cl)
            return
        cl.done = True
        if cl.closed:
            self.emit("TRead", [cl.c], [["OEofSeen", cl.c]])
            return
        self.pump(cl)
        st, complete = parse_response(cl.data, is_head(cl))
        if cl.entered:
            # the worker socket was closed although the handler has not been released
            self.emit("TRead", [cl.c], [["OEnter", cl.c]])
            self.fail.append(dict(what="worker reported finished while its request is inside the handler", conn=cl.c))
            return
        self.emit("TRead", [cl.c], [["OAnswer", cl.c, st]])
        if st == 413:
            self.stats["too_large"] += 1
        if not complete:
            self.fail.append(dict(what="incomplete response", conn=cl.c, status=st, data=cl.data[:200].decode("latin-1")))

    def op_release(self, c):
        cl = self.clients[c]
        cl.released = True
        self.release_event(c).set()
        if not self.wait_for(lambda: self.worker_ready(cl)):
            self.fail.append(dict(what="released handler never finishes its connection", conn=c))
            raise Inconclusive("stuck")
        cl.done = True
        self.pump(cl)
        st, complete = parse_response(cl.data, is_head(cl))
        self.stats["handled"] += 1
        self.emit("ERelease", [c], [["OHandlerDone", c]])
        if st != 200 or not complete or not cl.eof:
            self.fail.append(dict(what="request in flight did not get a complete response", conn=c, status=st,
                                  complete=complete, eof=cl.eof, after_shutdown=self.broke))

    def op_stop(self):
        self.stopped = True
        self.shutdown_in.close()
        self.emit("EStop", [], [])

    def timeout_seen(self, cl):
        cl.done = True
        self.stats["timeouts"] += 1
        body = self.body_silent(cl)
        if body:
            self.stats["body_timeouts"] = self.stats.get("body_timeouts", 0) + 1
            self.emit("TTimeout", [cl.c], [["OBodyTimedOut", cl.c]])
        else:
            self.emit("TTimeout", [cl.c], [["OTimedOut", cl.c]])
        T = float(self.cfg["timeout"])
        if T <= 0:
            self.fail.append(dict(what="silent connection dropped although no timeout is configured", conn=cl.c))
            return
        self.pump(cl)
        if body:
            st, complete = parse_response(cl.data, is_head(cl))
            if st != 500 or not complete:
                self.fail.append(dict(what="connection silent with the body outstanding: expected the 500 of the aborted "
                                           "handler", conn=cl.c, status=st, complete=complete))
        elif cl.data:
            self.fail.append(dict(what="silent connection got data", conn=cl.c, data=cl.data[:100].decode("latin-1")))
        if cl.t_eof is not None and cl.t_accept is not None and cl.t_eof < cl.t_accept + T - 0.02:
            self.fail.append(dict(what="silent connection dropped before the timeout", conn=cl.c,
                                  after=cl.t_eof - cl.t_accept, timeout=T))

    def op_wait_timeouts(self):
        T = float(self.cfg["timeout"])
        for cl in sorted(self.silent(), key=lambda x: x.acc_seq):
            if cl.sent is not None and not cl.read_emitted:
                self.settle_read(cl)
                if cl.done:
                    continue
            if not self.wait_for(lambda: self.worker_ready(cl), deadline=T + 15.0):
                phase = ("head complete, body outstanding" if self.body_silent(cl) else
                         "inside the request head" if cl.partial else "nothing sent")
                self.fail.append(dict(what="silent connection is never dropped (timeout %.2fs; silent phase: %s): it keeps "
                                           "its slot" % (T, phase), conn=cl.c, request=cl.sent))
                raise Inconclusive("stuck")
            self.timeout_seen(cl)

    def op_iter(self):
        rec = self.sel_calls[-1]
        prev_ws = list(rec["rl_ws"])
        self.stats["iters"] += 1
        n_acc = len(self.accept_log)
        self.permits.release()
        if not self.wait_for(lambda: rec["ret"] is not None):
            raise Inconclusive("select did not return although a descriptor was ready")
        ret = rec["ret"]
        for c in ret["ws"]:
            cl = self.clients[c]
            if not cl.done:
                if cl in self.silent():
                    self.timeout_seen(cl)          # spontaneous socket timeout, placed before the select
                else:
                    cl.done = True
                    self.fail.append(dict(what="worker socket readable but its thread is not finished", conn=c,
                                          entered=cl.entered, released=cl.released))
        self.emit("LSelect", [], [["ORset", ret["ws"], ret["ls"], ret["stop"]]])
        if ret["stop"]:
            self.broke = True
            self.break_k = rec["k"]
            # the loop leaves through `break`; give a wrong accept the chance to show
            self.serve_thread.join(0.05)
            self.final_workers = [c for c in prev_ws]
            self.emit("LBody", [None], [["OBreak"]])
            return
        if not self.wait_for(lambda: (self.parked.is_set() and self.sel_calls[-1] is not rec) or self.t_return is not None):
            self.fail.append(dict(what="loop body did not come back to select", k=rec["k"]))
            raise Inconclusive("stuck")
        if self.t_return is not None:
            self.fail.append(dict(what="serve() returned without a shutdown request", exc=self.serve_exc))
            raise Inconclusive("returned")
        nxt = self.sel_calls[-1]
        accs = self.accept_log[n_acc:]
        live = set()
        for srv in self.servers:
            for s in list(srv.worker_sockets):
                if s in self.wsock_conn:
                    live.add(self.wsock_conn[s])
        reaped = [c for c in prev_ws if c not in live]
        obs = [["OReaped", reaped]]
        acc = None
        for (_, lis, c) in accs:
            obs.append(["OAccepted", lis, -1 if c is None else c])
            acc = lis
        self.emit("LBody", [acc], obs)
        self.emit("LBuild", [], [["ORlist", nxt["rl_ws"], self.listen_flag(nxt)]])
        for (_, lis, c) in accs:
            if c is not None:
                cl = self.clients[c]
                if cl.sent is not None or cl.closed:
                    self.settle_read(cl)

    def check_returned(self):
        """after the break: has serve() returned?  emits the finally-block events at the moment it is seen"""
        if self.returned_emitted or not self.broke:
            return
        if self.t_return is None:
            return
        self.returned_emitted = True
        early = [c for c in self.final_workers if self.t_closing.get(c) is None or self.t_closing[c] > self.t_return]
        for c in self.final_workers:
            cl = self.clients[c]
            if c not in early and not cl.done and cl in self.silent():
                self.timeout_seen(cl)      # its socket timeout fired before serve() returned
        for c in self.final_workers:
            self.emit("LFinal", [], [["OWaited", c]])
        self.emit("LClose", [], [["OReturned"]])
        if early:
            self.fail.append(dict(what="serve() returned while accepted connections were still being processed",
                                  conns=early))
        if self.serve_exc:
            self.fail.append(dict(what="serve() raised", exc=self.serve_exc))

    def quiet_check(self):
        """serve() must not return while an accepted connection is unfinished"""
        pending = [c for c in self.final_workers if not self.clients[c].done]
        if self.broke and pending and not self.returned_emitted:
            self.stats["quiet_checks"] += 1
            self.serve_thread.join(QUIET)
            self.check_returned()

    # ---- choosing operations
    def enabled_ops(self, phase):
        ops = []
        short = 0 < float(self.cfg["timeout"]) < 5
        n = len(self.clients)
        if not self.broke and n < self.cfg["nmax"]:
            for lis in range(len(self.servers)):
                if len(self.queued(lis)) < MAXQ:
                    ops.append(["connect", lis])
        for cl in self.clients.values():
            if cl.sent is None and not cl.closed and not cl.done:
                if cl.accepted and short:
                    continue               # would race with the real timer; such a client stays silent
                if not cl.accepted and self.broke:
                    continue
                ops.append(["send", cl.c])
                if cl.partial is None:
                    ops.append(["close", cl.c])
                    ops.append(["partial", cl.c])
            if cl.sent is not None and cl.owed > 0 and not cl.done and not (cl.accepted and short) and \
                    not (not cl.accepted and self.broke):
                ops.append(["body", cl.c])
                if cl.owed > 1:
                    ops.append(["bodypart", cl.c])
            if self.in_handler_proper(cl):
                ops.append(["release", cl.c])
        if not self.stopped:
            ops.append(["stop"])
        if self.iter_enabled():
            ops += [["iter"]] * 3
        if short and self.silent():
            ops.append(["wait_timeouts"])
        return ops

    def gen_msg(self):
        rng, ml = self.rng, self.cfg["max_len"]
        if rng.random() < 0.04:
            return {"garbage": True}
        if rng.random() < 0.4:
            # a method whose handler reads the body, declaring a small body within the limit
            z = rng.choice([1, 2, 5, 9]) if ml <= 0 else rng.choice([1, ml, max(1, ml // 2)])
            m = {"pref": "ok", "method": True, "wk": "none", "auth": rng.choice(["anon", "anon", "ok"]), "cl": str(z),
                 "verb": rng.choice(BODY_VERBS)}
            return m
        r = rng.random()
        if r < 0.45:
            cl = None if rng.random() < 0.5 else str(rng.choice([0, 1, max(ml - 1, 0), ml]))
        elif r < 0.85:
            cl = str(rng.choice([ml + 1, ml + 1, ml + 2, 2 * ml + 7, 10 ** 12, 1]))
        else:
            cl = rng.choice(["-1", "-%d" % (ml + 5), "abc", "1_0", " 7", "+%d" % (ml + 1), "0x10", "", "00%d" % (ml + 1)])
        m = {"pref": "ok", "method": True, "wk": "none", "auth": "anon", "cl": cl, "verb": rng.choice(VERBS)}
        a = abstract_cl(cl)
        if m["verb"] in BODY_VERBS and a[0] == "int" and a[1] > 4096 and (ml <= 0 or a[1] <= ml):
            m["cl"] = "3"       # a body-reading handler must not be left waiting for gigabytes
        r = rng.random()
        if r < 0.08:
            m["pref"] = "badheader"
        elif r < 0.16:
            m["method"] = False
        elif r < 0.24:
            m["wk"] = rng.choice(["redirect", "notfound"])
        r = rng.random()
        if r < 0.15:
            m["auth"] = "ok"
        elif r < 0.3:
            m["auth"] = "fail"
        return m

    def do(self, op):
        self.ops.append(op)
        k = op[0]
        if k == "connect":
            self.op_connect(op[1])
        elif k == "send":
            if len(op) < 3:
                op.append(self.gen_msg())
            if len(op) < 4:
                op.append(self.rng.random() < 0.5)
            op[2], op[3] = self.op_send(op[1], op[2], op[3])
        elif k == "partial":
            if len(op) < 3:
                m = self.gen_msg()
                while m.get("garbage"):
                    m = self.gen_msg()
                op.append(m)
            self.op_partial(op[1], op[2])
        elif k == "body":
            self.op_body(op[1])
        elif k == "bodypart":
            self.op_body(op[1], part=True)
        elif k == "close":
            self.op_close(op[1])
        elif k == "release":
            self.op_release(op[1])
        elif k == "stop":
            self.op_stop()
        elif k == "iter":
            self.op_iter()
        elif k == "wait_timeouts":
            self.op_wait_timeouts()
        self.check_returned()

    def op_ok(self, op):
        """is a scripted op (replay) possible now?"""
        en = self.enabled_ops("replay")
        return any(e[:2] == op[:2] for e in en)

    def play(self, nops, script):
        rng = self.rng
        if script is not None:
            for op in script:
                op = list(op)
                if self.op_ok(op):
                    self.do(op)
                    if op[0] == "iter" and self.broke:
                        self.quiet_check()
                else:
                    self.notes.append("replay: op %r not enabled, skipped" % (op,))
        else:
            p_stop = rng.choice([0.0, 0.0, 0.03, 0.1])
            for _ in range(nops):
                ops = self.enabled_ops("random")
                ops = [o for o in ops if o[0] != "stop" or rng.random() < p_stop]
                if not ops:
                    break
                # prefer arrivals early so that more clients than slots exist; clients rather send than hang up
                w = [3 if (o[0] == "connect" and len(self.clients) < self.cfg["nmax"] // 2 + 1) or o[0] == "send" else 1
                     for o in ops]
                op = rng.choices(ops, weights=w)[0]
                self.do(list(op))
                if op[0] == "iter" and self.broke:
                    self.quiet_check()
            if not self.stopped and rng.random() < 0.5:
                # shutdown while things are in flight
                self.do(["stop"])
        self.wrap_up()

    def wrap_up(self):
        """drive everything to the end: every connected client is served (if not stopped), then shutdown"""
        rng = self.rng
        short = 0 < float(self.cfg["timeout"]) < 5
        guard = 0
        while not self.broke and not self.stopped:
            guard += 1
            if guard > 400:
                self.fail.append(dict(what="wrap-up does not terminate"))
                raise Inconclusive("stuck")
            todo = [cl for cl in self.clients.values() if not cl.done]
            if not todo:
                break
            acted = False
            for cl in todo:
                if self.in_handler_proper(cl):
                    self.do(["release", cl.c])
                    acted = True
                elif cl.sent is None and not cl.closed and not (cl.accepted and short):
                    if cl.partial is not None or rng.random() < 0.7:
                        self.do(["send", cl.c])
                    else:
                        self.do(["close", cl.c])
                    acted = True
                elif cl.sent is not None and cl.owed > 0 and not (cl.accepted and short):
                    self.do(["body", cl.c])
                    acted = True
            if short and self.silent():
                self.do(["wait_timeouts"])
                acted = True
            if self.iter_enabled():
                self.do(["iter"])
                acted = True
            if not acted:
                waiting = [cl.c for cl in self.clients.values() if not cl.accepted]
                self.fail.append(dict(
                    what="connected clients are never served although nothing is in flight (loop does not poll the listeners or lost a slot)",
                    waiting=waiting, unfinished=[cl.c for cl in todo],
                    rlist=self.rec_json(self.sel_calls[-1])))
                break
        if not self.stopped:
            self.do(["stop"])
        if not self.broke:
            if not self.wait_for(self.iter_enabled, deadline=DEADLINE):
                self.fail.append(dict(what="shutdown request is not noticed by the loop"))
                raise Inconclusive("stuck")
            self.do(["iter"])
            self.quiet_check()
        # after the break: finish what is in flight
        guard = 0
        while True:
            guard += 1
            todo = [c for c in self.final_workers if not self.clients[c].done]
            if not todo or guard > 100:
                break
            self.quiet_check()
            for c in todo:
                cl = self.clients[c]
                if cl.entered and not cl.read_emitted:
                    self.settle_read(cl)
                if cl.done:
                    continue
                if self.in_handler_proper(cl):
                    self.do(["release", c])
                elif cl.sent is None and not cl.closed and not short:
                    self.do(["send", c] if (cl.partial is not None or rng.random() < 0.6) else ["close", c])
                elif cl.sent is not None and cl.owed > 0 and not short:
                    self.do(["body", c])
                elif cl.sent is not None or cl.closed:
                    self.settle_read(cl)
            if short and self.silent():
                self.do(["wait_timeouts"])
        if not self.wait_for(lambda: self.t_return is not None, deadline=DEADLINE):
            self.fail.append(dict(what="serve() does not return after shutdown although every connection finished"))
            raise Inconclusive("stuck")
        self.check_returned()
        self.final_monitors()

    def final_monitors(self):
        mc = self.cfg["max_conn"]
        if mc > 0 and self.max_in_handler > mc:
            self.fail.append(dict(what="more requests inside the handler than max_connections",
                                  max_in_handler=self.max_in_handler, max_connections=mc))
        if mc > 0 and self.max_worker_sockets > mc:
            self.fail.append(dict(what="more connections in flight than max_connections",
                                  worker_sockets=self.max_worker_sockets, max_connections=mc))
        for (k, lis, c) in self.accept_log:
            if self.break_k is not None and k >= self.break_k:
                self.fail.append(dict(what="connection accepted after the shutdown request was seen", conn=c))
                self.obs.append(["OAccepted", lis, -1 if c is None else c])
        expect_calls = [cl.c for cl in self.clients.values() if cl.entered]
        for cl in self.clients.values():
            if cl.sent and not cl.sent.get("garbage") and cl.accepted:
                a = abstract_cl(cl.sent.get("cl"))
                ml = self.cfg["max_len"]
                if a[0] == "int" and ml > 0 and a[1] > ml:
                    if cl.c in self.handler_calls:
                        self.fail.append(dict(what="handler invoked for a request whose declared length exceeds max_content_length",
                                              conn=cl.c, declared=a[1], max_content_length=ml))
                    plain = cl.sent["pref"] == "ok" and cl.sent["method"] and cl.sent["wk"] == "none"
                    st, _ = parse_response(cl.data, is_head(cl))
                    if plain and cl.done and st != 413:
                        self.fail.append(dict(what="oversized request not answered with 413", conn=cl.c, status=st,
                                              declared=a[1], max_content_length=ml))
        # slots: with a limit, queued clients must have been accepted once earlier ones finished (checked by wrap_up)


def run_script(job):
    global FAILED_SCRIPTS
    if FAILED_SCRIPTS >= 2:
        return dict(skipped=True, seed=job["seed"], cfg=job["cfg"])
    if not job.get("lockstep", True):
        return run_free(job)
    rng = random.Random(job["seed"])
    run = Run(job["cfg"], job.get("lockstep", True), rng)
    res = dict(seed=job["seed"], cfg=job["cfg"], inconclusive=None)
    try:
        run.start()
        run.play(job.get("nops", 30), job.get("script"))
    except Inconclusive as e:
        res["inconclusive"] = str(e)
    except Exception:
        res["inconclusive"] = "driver error: " + traceback.format_exc()
        res["driver_error"] = True
    finally:
        try:
            run.cleanup()
        except Exception:
            pass
    res.update(ops=run.ops, events=run.events, obs=run.obs, fail=run.fail, notes=run.notes, stats=run.stats,
               max_in_handler=run.max_in_handler, max_worker_sockets=run.max_worker_sockets,
               n_clients=len(run.clients), stopped_early=run.break_k)
    if run.fail:
        FAILED_SCRIPTS += 1
    return res


# ------------------------------------------------------------------------------------------ free-running mode
def run_free(job):
    """No gating of the loop: client threads, handler hold times and the shutdown run on real timers.
    Only direct monitors of the property are evaluated (the model is not involved)."""
    global FAILED_SCRIPTS
    rng = random.Random(job["seed"])
    cfg = job["cfg"]
    run = Run(cfg, False, rng)
    res = dict(seed=job["seed"], cfg=cfg, inconclusive=None, free=True)
    T = float(cfg["timeout"])
    short = 0 < T < 5
    mc, ml = cfg["max_conn"], cfg["max_len"]
    n = rng.randint(mc + 1, mc + MAXQ) if mc > 0 else rng.randint(3, 8)
    plans = []
    for c in range(n):
        kind = rng.choice(["fast", "fast", "fast", "slow", "silent", "closer", "parthead", "headonly", "partbody"])
        plans.append(dict(c=c, lis=rng.randrange(cfg["listeners"]), kind=kind, offset=rng.random() * 0.2,
                          delay=rng.random() * 0.15, hold=rng.choice([0.0, 0.02, 0.1, 0.25]), m=None))
    stop_at = rng.choice([None, None, rng.random() * 0.6])
    try:
        run.start()
        run.events, run.obs = [], []

        def releaser(c, hold):
            ev = run.release_event(c)
            threading.Timer(hold, ev.set).start()
        run.free_hold = {p["c"]: p["hold"] for p in plans}
        orig_enter = run.handler_enter

        def enter(c):
            orig_enter(c)
            releaser(c, run.free_hold.get(c, 0.0))
        run.handler_enter = enter

        def client(p):
            try:
                time.sleep(p["offset"])
                cl = Client(p["c"], p["lis"])
                s_ = socket.socket(socket.AF_INET, socket.SOCK_STREAM)
                s_.settimeout(DEADLINE)
                s_.bind(("127.0.0.1", 0))
                with run.lock:
                    run.clients[p["c"]] = cl
                    run.by_port[s_.getsockname()[1]] = p["c"]
                s_.connect(("127.0.0.1", run.ports[p["lis"]]))
                cl.sock = s_
                kind = p["kind"]
                if kind == "slow" and not short:
                    time.sleep(p["delay"])
                if kind in ("fast", "slow"):
                    cl.sent = p["m"]
                    s_.sendall(build_request(p["c"], p["m"]) + b"x" * owed_body(p["m"], ml))
                elif kind in ("headonly", "partbody"):
                    # head complete, body outstanding (wholly / all but the last byte), then silence;
                    # without a short timeout the rest follows after a pause
                    cl.sent = p["m"]
                    z = owed_body(p["m"], ml)
                    cl.owed = z if kind == "headonly" else 1
                    s_.sendall(build_request(p["c"], p["m"]) + b"x" * (z - cl.owed))
                    if not short:
                        time.sleep(p["delay"] + 0.1)
                        s_.sendall(b"x" * cl.owed)
                        cl.owed = 0
                elif kind == "parthead":
                    head = build_request(p["c"], p["m"])
                    s_.sendall(head[:len(head) // 2])
                    cl.partial = True
                    if not short:
                        time.sleep(p["delay"] + 0.1)
                        cl.sent = p["m"]
                        s_.sendall(head[len(head) // 2:] + b"x" * owed_body(p["m"], ml))
                elif kind == "closer" or (kind == "silent" and not short):
                    time.sleep(p["delay"] if kind == "closer" else 0.3)
                    if not short or kind == "closer" and not cl.accepted:
                        cl.closed = True
                        s_.shutdown(socket.SHUT_WR)
                cl.pump(DEADLINE + T)
            except Exception as e:   # connection refused/reset after shutdown is expected
                p["error"] = repr(e)
        for p in plans:
            p["m"] = run.gen_msg()
            if p["kind"] in ("headonly", "partbody"):
                z = 6 if ml <= 0 else min(ml, 6)
                if z < 2 and p["kind"] == "partbody":
                    p["kind"] = "headonly"
                p["m"] = {"pref": "ok", "method": True, "wk": "none", "auth": "anon", "cl": str(z),
                          "verb": rng.choice(BODY_VERBS)}
            elif p["kind"] == "parthead":
                while p["m"].get("garbage"):
                    p["m"] = run.gen_msg()
        threads = [threading.Thread(target=client, args=(p,), daemon=True) for p in plans]
        t0 = time.monotonic()
        for t in threads:
            t.start()
        if stop_at is not None:
            time.sleep(stop_at)
        else:
            t_end = time.monotonic() + DEADLINE + T + 2
            for t in threads:
                t.join(max(0.0, t_end - time.monotonic()))
            if any(t.is_alive() for t in threads):
                run.fail.append(dict(what="free-running: clients are not all served although no shutdown was requested",
                                     unserved=[p["c"] for p, t in zip(plans, threads) if t.is_alive()]))
        run.stopped = True
        run.shutdown_in.close()
        if not run.wait_for(lambda: run.t_return is not None, deadline=DEADLINE + T):
            run.fail.append(dict(what="free-running: serve() does not return after shutdown"))
        t_end = time.monotonic() + (1 if run.fail else 5)
        for t in threads:
            t.join(max(0.0, t_end - time.monotonic()))
        # ---- monitors
        k_stop = None
        for rec in run.sel_calls:
            n_ws = len(rec["rl_ws"])
            want = mc <= 0 or n_ws < mc
            if (len(rec["rl_listen"]) > 0) != want or len(rec["rl_listen"]) not in (0, len(run.servers)):
                run.fail.append(dict(what="free-running: listeners polled with %d connections in flight, max_connections=%d"
                                     % (n_ws, mc) if len(rec["rl_listen"]) else
                                     "free-running: listeners not polled although a slot is free", rec=run.rec_json(rec)))
                break
            if rec["ret"] and rec["ret"]["stop"] and k_stop is None:
                k_stop = rec["k"]
        run.break_k = k_stop
        for cl in run.clients.values():
            cl.done = cl.eof
        if k_stop is not None and run.sel_calls[-1]["k"] != k_stop:
            run.fail.append(dict(what="free-running: the loop went on after select reported the shutdown socket"))
        run.final_monitors()
        if run.t_return is not None:
            early = [c for c, cl in run.clients.items() if cl.accepted and
                     (run.t_closing.get(c) is None or run.t_closing[c] > run.t_return)]
            if early:
                run.fail.append(dict(what="serve() returned while accepted connections were still being processed",
                                     conns=early))
        for c, cl in run.clients.items():
            if not cl.accepted:
                continue
            st, complete = parse_response(cl.data, is_head(cl))
            body_silent = short and cl.sent is not None and cl.owed > 0
            if c in run.handler_calls and (st != (500 if body_silent else 200) or not complete):
                run.fail.append(dict(what="request in flight did not get a complete response" if not body_silent else
                                     "connection silent with the body outstanding: expected the 500 of the aborted handler",
                                     conn=c, status=st, complete=complete, free=True))
            if body_silent and cl.t_eof is not None and cl.t_accept is not None:
                run.stats["body_timeouts"] = run.stats.get("body_timeouts", 0) + 1
                if cl.t_eof < cl.t_accept + T - 0.02:
                    run.fail.append(dict(what="silent connection dropped before the timeout", conn=c,
                                         after=cl.t_eof - cl.t_accept, timeout=T))
            if short and cl.sent is None and not cl.closed and cl.t_eof is not None and cl.t_accept is not None:
                run.stats["timeouts"] += 1
                if cl.t_eof < cl.t_accept + T - 0.02 or cl.data:
                    run.fail.append(dict(what="silent connection dropped before the timeout", conn=c,
                                         after=cl.t_eof - cl.t_accept, timeout=T))
            if not cl.eof and cl.sock is not None:
                phase = ("head complete, body outstanding" if cl.sent is not None and cl.owed > 0 else
                         "inside the request head" if cl.partial else "nothing sent" if cl.sent is None else "request sent")
                run.fail.append(dict(what="free-running: accepted connection never finished (client: %s): it keeps its slot"
                                     % phase, conn=c, request=cl.sent))
        res["plans"] = plans
        res["stop_at"] = stop_at
    except Inconclusive as e:
        res["inconclusive"] = str(e)
    except Exception:
        res["inconclusive"] = "driver error: " + traceback.format_exc()
        res["driver_error"] = True
    finally:
        try:
            run.cleanup()
        except Exception:
            pass
    res.update(fail=run.fail, notes=run.notes, stats=run.stats, max_in_handler=run.max_in_handler,
               max_worker_sockets=run.max_worker_sockets, n_clients=len(run.clients), stopped_early=run.break_k,
               n_selects=len(run.sel_calls), n_accepts=len(run.accept_log))
    if run.fail:
        FAILED_SCRIPTS += 1
    return res


# ------------------------------------------------------------------------------------------ gate (direct WSGI)
def run_gate(job):
    out = []
    apps = {}
    folder = tempfile.mkdtemp(prefix="rv-c20g-")
    ht = os.path.join(folder, "htpasswd")
    with open(ht, "w") as f:
        f.write("good:pw\n")
    try:
        for case in job["cases"]:
            key = (case["internal"], case["max_len"])
            if key not in apps:
                conf = config.load()
                conf.update({"server": {"max_content_length": str(case["max_len"]),
                                        "_internal_server": "True" if case["internal"] else "False"},
                             "storage": {"filesystem_folder": os.path.join(folder, "coll")},
                             "auth": {"type": "htpasswd", "htpasswd_filename": ht, "htpasswd_encryption": "plain",
                                      "delay": "0"},
                             "logging": {"level": "critical"}}, "verif", privileged=True)
                apps[key] = HarnessApp(conf)
            app = apps[key]
            m = case["m"]
            env = {"REQUEST_METHOD": (m.get("verb") or "PUT") if m["method"] else "FROB",
                   "PATH_INFO": {"none": "/c1", "redirect": "/x/.well-known/carddav/", "notfound": "/a/.well-known/x"}[m["wk"]],
                   "HTTP_X_CONN": "1", "wsgi.errors": io.StringIO(), "wsgi.input": io.BytesIO(b"")}
            if m["pref"] == "badheader":
                env["HTTP_X_SCRIPT_NAME"] = "nolead"
            elif m["pref"] == "badscript":
                env["SCRIPT_NAME"] = "nolead"
            if m["auth"] == "ok":
                env["HTTP_AUTHORIZATION"] = "Basic " + base64.b64encode(b"good:pw").decode()
            elif m["auth"] == "fail":
                env["HTTP_AUTHORIZATION"] = "Basic " + base64.b64encode(b"good:wrong").decode()
            if m.get("cl") is not None:
                env["CONTENT_LENGTH"] = m["cl"]
            wsgiref.util.setup_testing_defaults(env)
            if m["pref"] != "badscript":
                env["SCRIPT_NAME"] = ""
            got = {}

            def start_response(status_, headers_):
                got["status"] = int(status_.split()[0])
            del GATE_CALLS[:]
            try:
                list(app(env, start_response))
            except Exception as e:
                got["status"] = -1
                got["error"] = repr(e)
            out.append(dict(status=got.get("status", -1), invoked=bool(GATE_CALLS), cl_abs=abstract_cl(m.get("cl"))))
    finally:
        shutil.rmtree(folder, ignore_errors=True)
    return dict(results=out)


def run_neglen(job):
    """Witness of C20_size_bound_strong_refuted on the REAL application (real do_PUT): a PUT with
    `Content-Length: -1` and a body larger than max_content_length; how many body bytes does the handler read?"""
    global CURRENT
    from radicale import httputils
    folder = tempfile.mkdtemp(prefix="rv-c20n-")
    conf = config.load()
    conf.update({"server": {"hosts": "127.0.0.1:0", "max_content_length": str(job["max_len"]), "timeout": "5"},
                 "storage": {"filesystem_folder": os.path.join(folder, "coll")}, "auth": {"type": "none"},
                 "logging": {"level": "critical"}}, "verif", privileged=True)
    ports, sizes = [], []
    orig_read = httputils.read_raw_request_body

    def counting_read(configuration, environ):
        r = orig_read(configuration, environ)
        sizes.append(len(r))
        return r

    class Probe:
        serve_thread = None

        def register_server(self, srv):
            ports.append(srv.socket.getsockname()[1])
    out = dict(declared=job["declared"], sent=job["body"], max_len=job["max_len"])
    a, b = socket.socketpair()
    saved = rs.Application
    try:
        rs.Application = Application
        httputils.read_raw_request_body = counting_read
        CURRENT = Probe()
        t = threading.Thread(target=rs.serve, args=(conf, b), daemon=True)
        t.start()
        end = time.monotonic() + DEADLINE
        while not ports and time.monotonic() < end:
            time.sleep(0.01)
        CURRENT = None
        s = socket.create_connection(("127.0.0.1", ports[0]), timeout=DEADLINE)
        s.sendall(("PUT /u/c.ics HTTP/1.1\r\nHost: x\r\nAuthorization: Basic dTpw\r\nContent-Length: %s\r\n\r\n"
                   % job["declared"]).encode())
        try:
            s.sendall(b"x" * job["body"])
            s.shutdown(socket.SHUT_WR)
        except OSError:
            pass
        data = b""
        try:
            while True:
                chunk = s.recv(65536)
                if not chunk:
                    break
                data += chunk
        except OSError:
            pass
        out["status"] = parse_response(data)[0]
        out["bytes_read_by_handler"] = sizes
    except Exception:
        out["error"] = traceback.format_exc()
    finally:
        CURRENT = None
        rs.Application = saved
        httputils.read_raw_request_body = orig_read
        a.close()
        shutil.rmtree(folder, ignore_errors=True)
    return out


# ------------------------------------------------------------------------------------------ real handlers x size check
class CountingInput(io.BytesIO):
    """wsgi.input that counts what is read from it"""

    def __init__(self, data):
        super().__init__(data)
        self.nread = 0

    def read(self, *a):
        b = super().read(*a)
        self.nread += len(b)
        return b

    def readline(self, *a):
        b = super().readline(*a)
        self.nread += len(b)
        return b


def store_snapshot(folder):
    snap = {}
    for root, dirs, files in os.walk(folder):
        dirs[:] = [d for d in dirs if d != ".Radicale.cache"]
        rel = os.path.relpath(root, folder)
        snap[rel + "/"] = None
        for f in files:
            if f.startswith(".Radicale.lock"):
                continue
            with open(os.path.join(root, f), "rb") as fh:
                snap[os.path.join(rel, f)] = fh.read()
    return snap


MKCAL = (b'<?xml version="1.0" encoding="UTF-8" ?><C:mkcalendar xmlns:D="DAV:" xmlns:C="urn:ietf:params:xml:ns:caldav">'
         b'<D:set><D:prop><D:displayname>x</D:displayname></D:prop></D:set></C:mkcalendar>')
MKCOL = (b'<?xml version="1.0" encoding="UTF-8" ?><D:mkcol xmlns:D="DAV:"><D:set><D:prop><D:displayname>y</D:displayname>'
         b'</D:prop></D:set></D:mkcol>')
EVENT = (b"BEGIN:VCALENDAR\r\nVERSION:2.0\r\nPRODID:-//x//EN\r\nBEGIN:VEVENT\r\nUID:%s\r\nDTSTART:20250101T100000Z\r\n"
         b"DTEND:20250101T110000Z\r\nSUMMARY:s\r\nEND:VEVENT\r\nEND:VCALENDAR\r\n")
PROPPATCH = (b'<?xml version="1.0"?><D:propertyupdate xmlns:D="DAV:"><D:set><D:prop><D:displayname>z</D:displayname></D:prop>'
             b'</D:set></D:propertyupdate>')
PROPFIND = b'<?xml version="1.0"?><D:propfind xmlns:D="DAV:"><D:allprop/></D:propfind>'
REPORT = (b'<?xml version="1.0"?><C:calendar-query xmlns:D="DAV:" xmlns:C="urn:ietf:params:xml:ns:caldav"><D:prop><D:getetag/>'
          b'</D:prop><C:filter><C:comp-filter name="VCALENDAR"/></C:filter></C:calendar-query>')


def real_requests():
    """one mutating / reading request per method the REAL application dispatches: (method, path, body, extra env)"""
    return [
        ("PUT", "/u/cal/new.ics", EVENT % b"new", {"CONTENT_TYPE": "text/calendar"}),
        ("MKCALENDAR", "/u/newcal/", MKCAL, {}),
        ("MKCOL", "/u/newcol/", MKCOL, {}),
        ("MOVE", "/u/cal/e1.ics", b"", {"HTTP_DESTINATION": "http://127.0.0.1/u/cal/moved.ics", "HTTP_HOST": "127.0.0.1"}),
        ("DELETE", "/u/cal/e1.ics", b"", {}),
        ("PROPPATCH", "/u/cal/", PROPPATCH, {}),
        ("PROPFIND", "/u/cal/", PROPFIND, {"HTTP_DEPTH": "1"}),
        ("REPORT", "/u/cal/", REPORT, {}),
        ("GET", "/u/cal/e1.ics", b"", {}),
        ("HEAD", "/u/cal/e1.ics", b"", {}),
        ("OPTIONS", "/u/cal/", b"", {}),
        ("POST", "/u/cal/", b"x", {}),
        ("FROB", "/u/cal/", b"", {}),
    ]


def run_realgate(job):
    """The REAL Application (real do_* handlers) with _internal_server = True and a small max_content_length:
    every dispatched method x declared Content-Length.  Reported per case: status, bytes read from wsgi.input,
    whether the store changed.  The same requests with an honest length under a large limit show that they are
    not trivially inert."""
    from radicale import httputils
    out = []
    ml = job["max_len"]
    known = set(VERBS)
    missing = sorted(known - {r[0] for r in real_requests()})
    for big_limit in (False, True):
        folder = tempfile.mkdtemp(prefix="rv-c20r-")
        try:
            conf = config.load()
            conf.update({"server": {"max_content_length": str(10 ** 8 if big_limit else ml), "_internal_server": "True"},
                         "storage": {"filesystem_folder": os.path.join(folder, "coll")},
                         "auth": {"type": "none"}, "logging": {"level": "critical"}}, "verif", privileged=True)
            app = Application(conf)
            reads = []
            orig_read = httputils.read_raw_request_body

            def call(method, path, body, extra, declared):
                env = {"REQUEST_METHOD": method, "PATH_INFO": path, "wsgi.errors": io.StringIO(),
                       "HTTP_AUTHORIZATION": "Basic " + base64.b64encode(b"u:p").decode()}
                env.update(extra)
                inp = CountingInput(body + b" " * 4096)
                env["wsgi.input"] = inp
                if declared is not None:
                    env["CONTENT_LENGTH"] = declared
                wsgiref.util.setup_testing_defaults(env)
                env["SCRIPT_NAME"] = ""
                got = {}

                def start_response(status_, headers_):
                    got["status"] = int(status_.split()[0])
                try:
                    list(app(env, start_response))
                except Exception as e:
                    got["status"] = -1
                    got["error"] = repr(e)
                return got.get("status", -1), inp.nread

            def prepare():
                shutil.rmtree(os.path.join(folder, "coll", "collection-root"), ignore_errors=True)
                call("MKCALENDAR", "/u/cal/", MKCAL, {}, str(len(MKCAL)) if big_limit or len(MKCAL) <= ml else None)
                call("PUT", "/u/cal/e1.ics", EVENT % b"e1", {"CONTENT_TYPE": "text/calendar"},
                     str(len(EVENT % b"e1")) if big_limit or len(EVENT % b"e1") <= ml else None)
            if big_limit:
                # non-vacuity: with an honest length and a large limit the requests do what they say
                for (method, path, body, extra) in real_requests():
                    prepare()
                    before = store_snapshot(folder)
                    st, nread = call(method, path, body, extra, str(len(body)) if body else None)
                    out.append(dict(method=method, declared="honest", limit="large", status=st, nread=nread,
                                    store_changed=store_snapshot(folder) != before))
                continue
            # the store is prepared under a large limit, then the small limit applies
            conf_big = config.load()
            conf_big.update({"server": {"max_content_length": str(10 ** 8), "_internal_server": "True"},
                             "storage": {"filesystem_folder": os.path.join(folder, "coll")},
                             "auth": {"type": "none"}, "logging": {"level": "critical"}}, "verif", privileged=True)
            app_small, app_big = app, Application(conf_big)
            for (method, path, body, extra) in real_requests():
                for declared in job["declared"]:
                    app = app_big
                    shutil.rmtree(os.path.join(folder, "coll", "collection-root"), ignore_errors=True)
                    call("MKCALENDAR", "/u/cal/", MKCAL, {}, str(len(MKCAL)))
                    call("PUT", "/u/cal/e1.ics", EVENT % b"e1", {"CONTENT_TYPE": "text/calendar"}, str(len(EVENT % b"e1")))
                    before = store_snapshot(folder)
                    app = app_small
                    st, nread = call(method, path, body, extra, declared)
                    out.append(dict(method=method, declared=declared, limit=ml, status=st, nread=nread,
                                    store_changed=store_snapshot(folder) != before, cl_abs=abstract_cl(declared)))
        finally:
            shutil.rmtree(folder, ignore_errors=True)
    return dict(results=out, verbs=VERBS, verbs_without_request=missing)


# ------------------------------------------------------------------------------------------ silence in every phase, real application
def run_silent(job):
    """Free-running, the REAL Application (real do_* handlers), plain http or ssl = True, few slots: for every phase in
    which a client can go silent -- (tls) TCP connect without handshake, (tls) after the handshake, before the request
    line, inside the head, head complete + Content-Length: N + no body, partial body -- the silent client must be dropped
    by the socket timeout (not before it, within timeout + MARGIN), the well-behaved client queued behind it must then be
    served, and finally a shutdown with a silent client in flight must return."""
    global FAILED_SCRIPTS
    import ssl as ssl_mod
    cfg = dict(job["cfg"])
    use_ssl = bool(cfg.get("ssl"))
    cfg["real_app"] = True
    T = float(cfg["timeout"])
    MARGIN = 15.0
    run = Run(cfg, False, random.Random(job.get("seed", 0)))
    res = dict(cfg=cfg, inconclusive=None, silent=True, seed=job.get("seed", 0), phases=job["phases"])
    steps = []
    ctxc = ssl_mod.create_default_context()
    ctxc.check_hostname = False
    ctxc.verify_mode = ssl_mod.CERT_NONE
    counter = [0]

    def tcp_client():
        c = counter[0]
        counter[0] += 1
        cl = Client(c, 0)
        s_ = socket.socket(socket.AF_INET, socket.SOCK_STREAM)
        s_.settimeout(DEADLINE + T + MARGIN)
        s_.bind(("127.0.0.1", 0))
        with run.lock:
            run.clients[c] = cl
            run.by_port[s_.getsockname()[1]] = c
        s_.connect(("127.0.0.1", run.ports[0]))
        cl.sock = s_
        return cl

    def tls(cl):
        if use_ssl:
            cl.sock = ctxc.wrap_socket(cl.sock, server_hostname="localhost")

    def wait_drop(cl, what, t_last):
        """the silent client must see its connection closed: not before the timeout, not later than timeout + MARGIN"""
        if not run.wait_for(lambda: cl.accepted, deadline=T + MARGIN + DEADLINE):
            run.fail.append(dict(what="silent-client scenario: client (%s) is never accepted" % what, conn=cl.c))
            return False
        cl.sock.settimeout(T + MARGIN)
        data, dropped = b"", False
        try:
            while True:
                chunk = cl.sock.recv(65536)
                if not chunk:
                    dropped = True
                    break
                data += chunk
        except socket.timeout:
            dropped = False
        except (ssl_mod.SSLError, OSError):
            dropped = True
        now = time.monotonic()
        if not dropped:
            run.fail.append(dict(
                what="client silent in phase '%s' is never dropped (timeout %.1fs%s): it keeps its slot, the next client is not "
                     "served" % (what, T, ", ssl" if use_ssl else ""), conn=cl.c))
            return False
        answer = parse_response(data)[0]
        steps.append(dict(phase=what, dropped_after=round(now - max(cl.t_accept, t_last), 3), answer=answer))
        if answer not in (0, 408, 500):
            # the handler answered without waiting for the rest (e.g. an access check before the body is read):
            # the client was not waited for, nothing to time out
            steps[-1]["answered_without_waiting"] = True
        elif now < cl.t_accept + T - 0.05:
            run.fail.append(dict(what="client silent in phase '%s' dropped before the timeout" % what,
                                 after=now - cl.t_accept, timeout=T))
        return True

    def real_client(out):
        try:
            cl = tcp_client()
            tls(cl)
            cl.sock.sendall(b"GET / HTTP/1.1\r\nHost: localhost\r\n\r\n")
            data = b""
            while True:
                chunk = cl.sock.recv(65536)
                if not chunk:
                    break
                data += chunk
            out["status"], out["complete"] = parse_response(data)
        except Exception as e:
            out["error"] = repr(e)

    def silent_client(phase):
        """returns (client, time of its last byte)"""
        cl = tcp_client()
        kind, _, verb = phase.partition(":")
        verb = verb or "PUT"
        if kind == "tcp-no-handshake":
            return cl, time.monotonic()
        tls(cl)                       # blocks until the server side took part: the connection has been accepted
        path = ("/u/x.ics" if verb == "PUT" else "/u/new%d/" % cl.c if verb in ("MKCALENDAR", "MKCOL") else "/u/")
        head = ("%s %s HTTP/1.1\r\nHost: localhost\r\nAuthorization: Basic dTpw\r\nContent-Type: text/xml\r\n"
                "Content-Length: 200\r\n\r\n" % (verb, path)).encode()
        if kind in ("nothing", "after-handshake"):
            pass
        elif kind == "in-head":
            cl.sock.sendall(head[:len(head) // 2])
        elif kind == "head-no-body":
            cl.sock.sendall(head)
        elif kind == "partial-body":
            cl.sock.sendall(head + b"<" * 120)
        else:
            raise ValueError(phase)
        return cl, time.monotonic()

    saved_app = rs.Application
    try:
        rs.Application = Application          # the real one; serve() builds it during start()
        try:
            run.start()
        finally:
            rs.Application = saved_app
        for phase in job["phases"]:
            if run.fail:
                break
            if use_ssl and phase != "tcp-no-handshake":
                # the TLS handshake needs the server thread: it completes only once the connection is accepted
                box = {}
                th = threading.Thread(target=lambda: box.update(r=silent_client(phase)), daemon=True)
                th.start()
                th.join(DEADLINE)
                if "r" not in box:
                    run.fail.append(dict(what="silent-client scenario: TLS handshake of the client does not complete", phase=phase))
                    break
                a, t_last = box["r"]
            else:
                a, t_last = silent_client(phase)
            run.wait_for(lambda: a.accepted)
            bres = {}
            tb = threading.Thread(target=real_client, args=(bres,), daemon=True)
            tb.start()
            ok = wait_drop(a, phase, t_last)
            tb.join((T + MARGIN + DEADLINE) if ok else 2.0)
            steps.append(dict(phase=phase, next_client=dict(bres)))
            if ok and (tb.is_alive() or not bres.get("status") or not bres.get("complete")):
                run.fail.append(dict(what="the client queued behind the silent one (phase '%s') is not served" % phase,
                                     result=dict(bres)))
        if not run.fail:
            # shutdown with a silent client (first phase) in flight
            e_, _ = silent_client("tcp-no-handshake" if use_ssl else job["phases"][-1])
            run.wait_for(lambda: e_.accepted)
            t_stop = time.monotonic()
            run.stopped = True
            run.shutdown_in.close()
            if not run.wait_for(lambda: run.t_return is not None, deadline=T + MARGIN):
                run.fail.append(dict(what="serve() does not return after shutdown: a silent client in flight blocks it"))
            else:
                steps.append(dict(shutdown_returned_after=round(run.t_return - t_stop, 3)))
                if run.t_closing.get(e_.c) is None or run.t_closing[e_.c] > run.t_return:
                    run.fail.append(dict(what="serve() returned while accepted connections were still being processed",
                                         conns=[e_.c]))
        mc = cfg["max_conn"]
        if mc > 0 and run.max_worker_sockets > mc:
            run.fail.append(dict(what="more connections in flight than max_connections", worker_sockets=run.max_worker_sockets))
    except Inconclusive as e:
        res["inconclusive"] = str(e)
    except Exception:
        res["inconclusive"] = "driver error: " + traceback.format_exc()
        res["driver_error"] = True
    finally:
        rs.Application = saved_app
        try:
            run.cleanup()
        except Exception:
            pass
    res.update(fail=run.fail, notes=run.notes, steps=steps, n_accepts=len(run.accept_log), serve_exc=run.serve_exc)
    if run.fail:
        FAILED_SCRIPTS += 1
    return res


# ------------------------------------------------------------------------------------------ every auth back-end x login x shutdown
def run_authsweep(job):
    """Free-running.  The server is configured with auth back-end job["auth_type"] (external servers unreachable).
    History: (1) a client makes a login attempt (the back-end's code runs), (2) another client's request enters the
    (blocking) handler, (3) shutdown is signalled, (4) the request stays in flight for `hold` seconds -- 1 s, or longer
    than any timeout observed on the sockets serve() waits on --, (5) the handler returns.  Required: serve() is still
    waiting at (4), the request gets its complete response, serve() returns without an exception."""
    global FAILED_SCRIPTS
    cfg = dict(job["cfg"])
    t = cfg["auth_type"]
    run = Run(cfg, False, random.Random(job.get("seed", 0)))
    res = dict(cfg=cfg, inconclusive=None, authsweep=True, seed=job.get("seed", 0))
    steps = []
    saved_default = socket.getdefaulttimeout()

    def client(c, headers):
        cl = Client(c, 0)
        s_ = socket.socket(socket.AF_INET, socket.SOCK_STREAM)
        s_.settimeout(DEADLINE)
        s_.bind(("127.0.0.1", 0))
        with run.lock:
            run.clients[c] = cl
            run.by_port[s_.getsockname()[1]] = c
        s_.connect(("127.0.0.1", run.ports[0]))
        cl.sock = s_
        cl.sent = {"verb": "GET", "method": True}
        s_.sendall(("GET /c%d HTTP/1.1\r\nHost: localhost\r\nX-Conn: %d\r\n%s\r\n" % (c, c, headers)).encode())
        return cl
    try:
        try:
            run.start()
        except Inconclusive as e:
            if run.serve_exc and "requires" in run.serve_exc:
                res["unavailable"] = run.serve_exc      # the module of this back-end is not installed
                return res
            raise e
        run.release_event(0).set()
        # (1) login attempts: a refused and (for back-ends that accept it) a good one
        for i, cred in enumerate((b"good:pw", b"good:wrong")):
            c = client(i, "Authorization: Basic %s\r\nRemote-User: good\r\nX-Remote-User: good\r\n" %
                       base64.b64encode(cred).decode())
            run.release_event(i).set()
            c.pump(DEADLINE)
            steps.append(dict(login=cred.decode(), status=parse_response(c.data)[0]))
            if not c.eof:
                run.fail.append(dict(what="authsweep(%s): login attempt gets no answer" % t))
        # (2) a request enters the handler and stays there
        r = client(2, "")
        if not run.wait_for(lambda: r.entered):
            run.fail.append(dict(what="authsweep(%s): anonymous request never reaches the handler" % t,
                                 status=parse_response(r.data)[0]))
            raise Inconclusive("not entered")
        # (3) shutdown
        run.stopped = True
        t_stop = time.monotonic()
        run.shutdown_in.close()
        run.wait_for(lambda: run.sel_calls and run.sel_calls[-1]["ret"] is not None and run.sel_calls[-1]["ret"]["stop"])
        hold = 1.0 if not run.stray_timeout else min(run.stray_timeout + 1.5, 20.0)
        steps.append(dict(hold=hold, stray_timeout=run.stray_timeout, default_timeout=socket.getdefaulttimeout()))
        # (4) serve() must wait for the request in flight
        run.serve_thread.join(hold)
        if run.t_return is not None:
            run.fail.append(dict(
                what="auth type %s, after a login attempt: serve() left its shutdown path %.1f s after the shutdown request "
                     "while a request was still in flight (%s)" % (t, run.t_return - t_stop, run.serve_exc or "returned"),
                exception=run.serve_exc))
        # (5) the handler returns
        run.release_event(2).set()
        r.pump(DEADLINE)
        st, complete = parse_response(r.data)
        steps.append(dict(inflight_status=st, complete=complete))
        if st != 200 or not complete:
            run.fail.append(dict(what="auth type %s: request in flight at shutdown did not get a complete response" % t, status=st))
        if not run.wait_for(lambda: run.t_return is not None):
            run.fail.append(dict(what="auth type %s: serve() does not return after shutdown" % t))
        elif run.serve_exc:
            run.fail.append(dict(what="auth type %s: serve() raised %s in its shutdown path" % (t, run.serve_exc)))
        elif run.t_closing.get(2) is None or run.t_closing[2] > run.t_return:
            run.fail.append(dict(what="serve() returned while accepted connections were still being processed", conns=[2]))
    except Inconclusive as e:
        if not run.fail:
            res["inconclusive"] = str(e)
    except Exception:
        res["inconclusive"] = "driver error: " + traceback.format_exc()
        res["driver_error"] = True
    finally:
        try:
            run.cleanup()
        except Exception:
            pass
        socket.setdefaulttimeout(saved_default)
    res.update(fail=run.fail, notes=run.notes, steps=steps, serve_exc=run.serve_exc)
    if run.fail:
        FAILED_SCRIPTS += 1
    return res


# ------------------------------------------------------------------------------------------ exit signals, real process
def run_signals(job):
    """`python -m radicale` as a child process (nothing substituted).  job: {"inflight": bool, "signals": ["TERM", "HUP", ...],
    "gap": seconds between the signals (0 = back to back)}.
    With a request in flight (PUT whose body trickles: head + half of the body sent) the exit signals are delivered; then:
    after the first one the server says "Stopping Radicale" and a client that connects afterwards is never served; the
    process must still be there while the request is in flight, whatever further signals arrive; when the rest of the body
    arrives the request is answered completely; the process then exits with status 0."""
    import re
    import signal as sig
    import subprocess
    fail, steps = [], []
    folder = tempfile.mkdtemp(prefix="rv-c20s-")
    env = dict(os.environ)
    env.pop("RADICALE_CONFIG", None)
    cmd = [sys.executable, "-m", "radicale", "--config", "", "--server-hosts", "127.0.0.1:0",
           "--storage-filesystem-folder", os.path.join(folder, "coll"), "--auth-type", "none",
           "--logging-level", "info", "--server-timeout", "60", "--server-max-connections", "4"]
    out = dict(job=job, inconclusive=None)
    proc = None
    lines = []
    try:
        proc = subprocess.Popen(cmd, env=env, stdout=subprocess.DEVNULL, stderr=subprocess.PIPE, cwd=folder)

        def reader():
            for raw in proc.stderr:
                lines.append((time.monotonic(), raw.decode("utf-8", "replace")))
        threading.Thread(target=reader, daemon=True).start()

        def wait_line(pat, deadline):
            end = time.monotonic() + deadline
            while time.monotonic() < end:
                for (_, l) in list(lines):
                    m = re.search(pat, l)
                    if m:
                        return m
                if proc.poll() is not None and not any(re.search(pat, l) for _, l in lines):
                    time.sleep(0.05)
                    if not any(re.search(pat, l) for _, l in lines):
                        return None
                time.sleep(0.01)
            return None
        m = wait_line(r"Listening on '127\.0\.0\.1:(\d+)'", 60)
        if not m or not wait_line(r"Radicale server ready", 60):
            out["inconclusive"] = "server process did not start: " + "".join(l for _, l in lines)[-400:]
            return out
        port = int(m.group(1))
        body = (EVENT % b"sig")
        a = None
        if job["inflight"]:
            a = socket.create_connection(("127.0.0.1", port), timeout=DEADLINE)
            a.sendall(("PUT /u/e.ics HTTP/1.1\r\nHost: x\r\nAuthorization: Basic dTpw\r\nContent-Type: text/calendar\r\n"
                       "Content-Length: %d\r\n\r\n" % len(body)).encode() + body[:len(body) // 2])
            time.sleep(0.3)          # the worker reads the head and blocks on the rest of the body
        late = None
        for i, name in enumerate(job["signals"]):
            if proc.poll() is not None:
                break
            try:
                proc.send_signal(getattr(sig, "SIG" + name))
            except ProcessLookupError:
                break
            steps.append(dict(signal=name))
            if i == 0 and job["inflight"]:
                if not wait_line(r"Stopping Radicale", DEADLINE):
                    fail.append(dict(what="signals: the first exit signal (SIG%s) is not noticed by the accept loop" % name))
                    break
                # a client that arrives after the shutdown was noticed must never be served
                try:
                    late = socket.create_connection(("127.0.0.1", port), timeout=5)
                    late.sendall(b"GET / HTTP/1.1\r\nHost: x\r\n\r\n")
                except OSError:
                    late = None
            if job.get("gap"):
                time.sleep(job["gap"])
        if job["inflight"]:
            time.sleep(0.3)          # quiet period: a process that gave up the request in flight is gone by now
            gone = proc.poll()
            if gone is not None:
                fail.append(dict(what="signals: after the exit signals %s the process exited (status %s) while a request was in "
                                      "flight" % ("+".join("SIG" + n for n in job["signals"]), gone)))
            try:
                a.sendall(body[len(body) // 2:])
            except OSError as e:
                steps.append(dict(send_rest_failed=repr(e)))
            a.settimeout(DEADLINE)
            data = b""
            try:
                while True:
                    chunk = a.recv(65536)
                    if not chunk:
                        break
                    data += chunk
            except OSError as e:
                steps.append(dict(recv_failed=repr(e)))
            st, complete = parse_response(data)
            steps.append(dict(inflight_answer=st, complete=complete))
            if st != 201 or not complete:
                fail.append(dict(what="signals: the request in flight during %s did not get its complete response (status %s)"
                                      % ("+".join("SIG" + n for n in job["signals"]), st), data=data[:120].decode("latin-1")))
        try:
            code = proc.wait(DEADLINE + 10)
        except subprocess.TimeoutExpired:
            code = None
            fail.append(dict(what="signals: the process does not exit after %s" % "+".join("SIG" + n for n in job["signals"])))
        steps.append(dict(exit_status=code))
        if code not in (0, None):
            fail.append(dict(what="signals: exit status %s after %s (expected 0: clean shutdown)" % (
                code, "+".join("SIG" + n for n in job["signals"])), stderr="".join(l for _, l in lines)[-300:]))
        if late is not None:
            late.settimeout(5)
            ldata = b""
            try:
                while True:
                    chunk = late.recv(65536)
                    if not chunk:
                        break
                    ldata += chunk
            except OSError:
                pass
            steps.append(dict(late_client_bytes=len(ldata)))
            if ldata:
                fail.append(dict(what="signals: a client that connected after the shutdown was noticed has been served",
                                 data=ldata[:80].decode("latin-1")))
    except Exception:
        out["inconclusive"] = "driver error: " + traceback.format_exc()
        out["driver_error"] = True
    finally:
        if proc is not None and proc.poll() is None:
            proc.kill()
        shutil.rmtree(folder, ignore_errors=True)
    out.update(fail=fail, steps=steps)
    return out


def main():
    jobs = json.load(open(sys.argv[1]))
    out = []
    for job in jobs:
        try:
            if job["kind"] == "script":
                out.append(run_script(job))
            elif job["kind"] == "neglen":
                out.append(run_neglen(job))
            elif job["kind"] == "realgate":
                out.append(run_realgate(job))
            elif job["kind"] == "silent":
                out.append(run_silent(job))
            elif job["kind"] == "signals":
                out.append(run_signals(job))
            elif job["kind"] == "authsweep":
                out.append(run_authsweep(job))
            else:
                out.append(run_gate(job))
        except BaseException:
            out.append(dict(inconclusive="driver crashed: " + traceback.format_exc(), driver_error=True))
    with open(sys.argv[2], "w") as f:
        json.dump(out, f)
    sys.stdout.flush()
    os._exit(0)


if __name__ == "__main__":
    main()
