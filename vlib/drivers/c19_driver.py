"""C19 request driver (run as a subprocess under strace).
usage: c19_driver.py <spec.json> <out.json>
spec: {folder, conf, secret, limits:{as_bytes, alarm_s}, requests:[{method, path, b64, ctype, user, mark, aux}]}
Around each request os.stat('/rv-mark/q<mark>') and os.stat('/rv-mark/a<mark>') are issued so that the trace can be cut
into "during the request" and "harness bookkeeping" (store dump).  Per request: status, response headers, response
body, wall time, peak RSS before / after (ru_maxrss, kB), sha256 of the canonical store dump after the request, and
whether the decoy secret occurs in the response or anywhere in the store."""
import base64
import hashlib
import json
import os
import resource
import signal
import sys
import logging
import time
import tracemalloc

sys.path.insert(0, os.path.dirname(os.path.dirname(os.path.dirname(os.path.abspath(__file__)))))
from vlib import impl  # noqa: E402


def mark(label):
    try:
        os.stat("/rv-mark/" + label)
    except OSError:
        pass


class Alarm(BaseException):
    pass


def on_alarm(signum, frame):
    raise Alarm()


def dump(folder, secret):
    d = impl.tree_dump(folder)
    h, hnc = hashlib.sha256(), hashlib.sha256()
    leak = False
    for rel, kind, data in d:
        nc = ".Radicale.cache" not in rel.split(os.sep)
        h.update(repr((rel, kind)).encode())
        if nc:
            hnc.update(repr((rel, kind)).encode())
        if data is not None:
            h.update(hashlib.sha256(data).digest())
            if nc:
                hnc.update(hashlib.sha256(data).digest())
            if secret and secret in data:
                leak = True
    return h.hexdigest(), leak, [rel for rel, _, _ in d], hnc.hexdigest()


class Counting(logging.Handler):
    """log volume per request: what a stream handler would have written"""

    def __init__(self):
        super().__init__()
        self.bytes = 0
        self.largest = 0
        self.secret = b""
        self.leak = False

    def emit(self, record):
        try:
            m = record.getMessage()
            if record.exc_info:
                m += "\n" + logging.Formatter().formatException(record.exc_info)
        except Exception as e:  # never let the measurement break the request
            m = repr(e)
        n = len(m.encode("utf-8", "replace"))
        self.bytes += n
        self.largest = max(self.largest, n)
        if self.secret and self.secret in m.encode("utf-8", "replace"):
            self.leak = True


def main():
    spec = json.load(open(sys.argv[1]))
    lim = spec.get("limits", {})
    if lim.get("as_bytes"):
        resource.setrlimit(resource.RLIMIT_AS, (lim["as_bytes"], lim["as_bytes"]))
    signal.signal(signal.SIGALRM, on_alarm)
    secret = spec.get("secret", "").encode()
    conf = spec.get("conf") or {}
    counting = None
    if spec.get("mode") == "debug":
        # the configuration dimension: everything the [logging] section can switch on
        conf = dict(conf)
        conf["logging"] = {"level": "debug", "request_content_on_debug": "True", "response_content_on_debug": "True",
                           "bad_put_request_content": "True", "request_header_on_debug": "True", "backtrace_on_debug": "True"}
        # ... read off the configuration schema of the tree under test: every boolean option of the section is switched on
        # (an option this list does not know yet is part of the dimension too)
        import radicale.config
        for opt, desc in radicale.config.DEFAULT_CONFIG_SCHEMA.get("logging", {}).items():
            if desc.get("type") is bool:
                conf["logging"][opt] = "True"
    srv = impl.Server(conf=conf, folder=spec["folder"])
    if spec.get("measure"):
        counting = Counting()
        counting.secret = secret
        import radicale.log
        radicale.log.logger.addHandler(counting)
        radicale.log.logger.propagate = False
        if spec.get("mode") == "debug":
            radicale.log.logger.setLevel(logging.DEBUG)
        tracemalloc.start()
    res = []
    mark("setup-done")
    last_paths = None
    for i, r in enumerate(spec["requests"]):
        data = base64.b64decode(r["b64"]) if r.get("b64") is not None else None
        hdrs = {}
        if r.get("ctype"):
            hdrs["CONTENT_TYPE"] = r["ctype"]
        if r.get("user"):
            hdrs["HTTP_X_REMOTE_USER"] = r["user"]
        hdrs.update(r.get("headers") or {})
        out = dict(mark=r["mark"])
        if spec.get("fresh"):
            # reference run of the history rule: a new Application instance (same storage folder) for every request
            srv = impl.Server(conf=conf, folder=spec["folder"])
        if counting is not None:
            counting.bytes = counting.largest = 0
            counting.leak = False
            tracemalloc.reset_peak()
            cur0 = tracemalloc.get_traced_memory()[0]
        rss0 = resource.getrusage(resource.RUSAGE_SELF).ru_maxrss
        mark("q" + r["mark"])
        t0 = time.monotonic()
        c0 = time.process_time()
        signal.alarm(int(lim.get("alarm_s", 30)))
        try:
            st, h, b = srv.request(r["method"], r["path"], data=data, **hdrs)
            out.update(status=st, headers=h, body=b.decode("latin-1"))
        except Alarm:
            out.update(status=-2, error="alarm: request did not finish in %ss" % lim.get("alarm_s", 30))
        except MemoryError:
            out.update(status=-3, error="MemoryError (address-space limit)")
        except BaseException as e:  # the driver must survive anything
            out.update(status=-1, error=repr(e))
        finally:
            signal.alarm(0)
        out["dt"] = time.monotonic() - t0
        out["cpu"] = time.process_time() - c0
        if counting is not None:
            out["alloc_peak"] = max(0, tracemalloc.get_traced_memory()[1] - cur0)
            out["log_bytes"] = counting.bytes
            out["log_largest"] = counting.largest
            out["log_leak"] = counting.leak
        mark("a" + r["mark"])
        out["rss0"] = rss0
        out["rss1"] = resource.getrusage(resource.RUSAGE_SELF).ru_maxrss
        hx, leak, paths, hnc = dump(spec["folder"], secret)
        out["dump"] = hx
        out["dump_nc"] = hnc
        out["store_leak"] = leak
        if last_paths is not None and paths != last_paths:
            out["paths_added"] = sorted(set(paths) - set(last_paths))[:10]
            out["paths_removed"] = sorted(set(last_paths) - set(paths))[:10]
        last_paths = paths
        out["resp_leak"] = bool(secret) and (secret in out.get("body", "").encode("latin-1") or
                                             secret in json.dumps(out.get("headers", {})).encode())
        res.append(out)
    mark("end")
    json.dump(res, open(sys.argv[2], "w"))


if __name__ == "__main__":
    main()
