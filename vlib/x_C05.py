"""C05 helpers, part 1: the request gate.  Drives the real Application (vlib.impl.Server) with a raw
WSGI environ, a scripted auth back-end / rights back-end (vlib.x_C05_plugins) and scripted handlers
(do_* replaced on the instance, recording their arguments), and encodes cases for Model/C05Run.v."""
import base64
import io
import os
import urllib.parse

from vlib import core, impl
from vlib import x_C05_plugins as plug
from vlib.core import enc_bool, enc_opt, enc_list, enc_Z

from radicale import httputils, pathutils  # noqa: E402  (vlib.impl put the repo on sys.path)

def enc_str(s):
    """Python str -> pystr term; printable ASCII goes through the (fast to parse) string notation."""
    if s and all(32 <= ord(c) < 127 and c != '"' for c in s):
        return '(str "%s")' % s
    return core.enc_str(s)


PLUGIN = "vlib.x_C05_plugins"
METHODS = ["DELETE", "GET", "HEAD", "MKCALENDAR", "MKCOL", "MOVE", "OPTIONS", "POST", "PROPFIND", "PROPPATCH", "PUT", "REPORT"]
KINDS = {"none": "ANone", "denyall": "ADenyAll", "remote_user": "ARemoteUser",
         "http_x_remote_user": "AXRemoteUser", PLUGIN: "AOther"}
HANDLER_KINDS = ["na", "na_copy", "ok", "multi", "forbidden", "raise"]
HRESP = {"na": "HNotAllowed", "na_copy": "HNotAllowed", "ok": "(HResp 200)", "multi": "(HResp 207)",
         "forbidden": "(HResp 403)", "raise": "HRaise"}

HEADER = """From Coq Require Import List NArith ZArith Bool String.
Import ListNotations.
Require Import RV.Lib.PyStr RV.Model.Path RV.Model.C05Text RV.Model.LoginMap RV.Model.Gate RV.Model.Htpasswd RV.Model.C05Run.
Open Scope N_scope.
"""


class GateRig:
    """One real Application for one configuration, instrumented from outside."""

    @staticmethod
    def conf_of(cfg):
        return {"auth": {"type": cfg["kind"], "lc_username": str(cfg["lc"]), "uc_username": str(cfg["uc"]),
                         "strip_domain": str(cfg["sd"]), "cache_logins": "False", "delay": "0.00001"},
                "rights": {"type": PLUGIN},
                "server": {"_internal_server": str(cfg["internal"]), "max_content_length": str(cfg["max_len"]),
                           "script_name": cfg["script_name"]}}

    def __init__(self, cfg, app=None, folder=None):
        """app=None: an in-process Application over a fresh folder (vlib.impl.Server); otherwise instrument the given
        Application (the one radicale.server.serve() created, see vlib/drivers/c05_socket_driver.py)."""
        self.cfg = cfg
        if app is None:
            self.srv = impl.Server(self.conf_of(cfg))
            app = self.srv.application
        else:
            class _Srv:
                pass
            self.srv = _Srv()
            self.srv.folder, self.srv.configuration, self.srv.close = folder, app.configuration, lambda: None
        self.app = app
        self.events = plug.STATE["events"]
        self.environs = []
        orig_handle = app._handle_request

        def rec_handle(environ):
            self.environs.append({k: v for k, v in environ.items() if isinstance(v, str)})
            return orig_handle(environ)
        app._handle_request = rec_handle
        self.handler_kind = "ok"
        if cfg["kind"] != PLUGIN:
            orig_login = app._auth._login

            def rec_login(login, password):
                self.events.append(("backend", login, password))
                return orig_login(login, password)
            app._auth._login = rec_login
        orig_create = app._storage.create_collection

        def rec_create(href, items=None, props=None):
            try:
                r = orig_create(href, items, props)
            except ValueError:
                self.events.append(("home", href, False))
                raise
            self.events.append(("home", href, True))
            return r
        app._storage.create_collection = rec_create
        # the principal look-ups of the gate: the first (r lock) is silent, the second (w lock, re-check) is an event;
        # `race_user` simulates another request creating the principal collection between the two
        orig_discover = app._storage.discover
        self.discover_calls = {}
        self.race_user = None

        def rec_discover(path, depth="0", *a, **kw):
            n = self.discover_calls[path] = self.discover_calls.get(path, 0) + 1
            if n == 2 and self.in_request:
                if self.race_user is not None and path == "/%s/" % self.race_user:
                    os.makedirs(os.path.join(self.root(), self.race_user), exist_ok=True)
                found = next(iter(orig_discover(path, depth, *a, **kw)), None) is not None
                self.events.append(("recheck", path, found))
            return orig_discover(path, depth, *a, **kw)
        app._storage.discover = rec_discover
        self.in_request = False
        for m in METHODS:
            setattr(app, "do_" + m, self._handler(m))

    def _handler(self, m):
        def h(environ, base_prefix, path, user):
            self.events.append(("dispatch", m, base_prefix, path, user))
            k = self.handler_kind
            if k == "na":
                return httputils.NOT_ALLOWED
            if k == "na_copy":
                return (403, (("Content-Type", "text/plain"),), "Access to the requested resource forbidden.")
            if k == "forbidden":
                return httputils.FORBIDDEN
            if k == "raise":
                raise RuntimeError("scripted handler failure")
            if k == "multi":
                return 207, {"Content-Type": "text/xml"}, "<x/>"
            return 200, {"Content-Type": "text/plain"}, "ok"
        return h

    def close(self):
        self.srv.close()

    def root(self):
        return os.path.join(self.srv.folder, "collection-root")

    def home_exists(self, user):
        if not pathutils.is_safe_path_component(user):
            return False       # the gate never asks the storage about such a name
        with self.app._storage.acquire_lock("r"):
            return next(iter(self.app._storage.discover("/%s/" % user, depth="1")), None) is not None

    def call(self, env):
        env = dict(env)
        env["wsgi.input"] = io.BytesIO(b"")
        env["wsgi.errors"] = io.StringIO()
        out = {}

        def start_response(status_, headers_):
            out["status"] = int(status_.split()[0])
            out["headers"] = dict(headers_)
        self.discover_calls.clear()
        self.in_request = True
        try:
            list(self.app(env, start_response))
        finally:
            self.in_request = False
        return out["status"], out["headers"]


def ext_decode(configuration, ctype, payload):
    """The external function basic_decode of Model/Gate.v, answered by the real libraries."""
    try:
        raw = base64.b64decode(payload.encode("ascii"))
        return httputils.decode_request(configuration, {"CONTENT_TYPE": ctype} if ctype else {}, raw)
    except Exception:
        return None


def clen_class(v):
    try:
        return ("num", int(v or 0))
    except ValueError:
        return ("invalid",)


# ------------------------------------------------------------------------------------ generator
LOGINS = ["alice", "Bob", "bob@example.com", "ÉMILE", "straße", "a/b", "..", ".", ".x", "x~", "ALICE@EX.COM",
          "ǆ", "İ", "@dom", "a@b@c", "user name", ".Radicale.cache", "émile@dom", "ß", "carol", "dave", "x" * 40]
PWS = ["pw", "", "p:w", "pässword", ":", "secret with space", "x" * 30]
PATHS = ["/", "", "/alice/", "/alice/cal/e.ics", "/.well-known/caldav", "/.well-known/carddav", "/.well-known/caldav/",
         "/a/.well-known/carddav//", "/.well-known", "/x/.well-known", "/.well-known/", "/.well-known/other", "/x/.well-known/y",
         "/.well-knownx", "/.well-known/caldavx", "/x.well-known/caldav", "/pfx/alice/", "/pfx", "/pfx/.well-known/caldav",
         "/sn/alice/", "/../.well-known/caldav", "/.well-known/./caldav", "/.well-known//carddav", "/.web/", "/pfxalice/"]
ODD_METHODS = ["FOO", "", "DO", "TRACE", "CONNECT", "PATCH", "get", "Propfind", "mkcol", "PROPFıND", "poſt", "put ", "GET\n", "OPTıONS", "ǅ"]
CTYPES = [None, None, None, "text/xml; charset=utf-8", "text/xml; charset=iso8859-1", "text/xml;charset=bogus", "text/plain; charset=utf-16",
          "application/xml", "", "text/xml; charset=ascii"]
CLENS = [None, None, None, "", "0", "50", "100", "101", "99999999999", "abc", "-5", " 7 ", "1_0", "1e3", "100000000", "100000001"]


OTHER_ID_KEYS = ["HTTP_REMOTE_USER", "HTTP_X_FORWARDED_USER", "HTTP_X_USER", "HTTP_USER", "HTTP_AUTHENTICATED_USER",
                 "HTTP_X_AUTHENTICATED_USER", "HTTP_X_WEBAUTH_USER", "HTTP_X_AUTH_USER", "HTTP_X_REMOTE_USERNAME", "HTTP_X_REMOTE_USER_",
                 "HTTP_FROM", "REMOTE_IDENT", "AUTH_USER", "LOGON_USER", "REDIRECT_REMOTE_USER", "USER", "LOGNAME"]
CONFIGURED_KEY = {"remote_user": "REMOTE_USER", "http_x_remote_user": "HTTP_X_REMOTE_USER"}
IDENTITY_KEYS = OTHER_ID_KEYS + list(CONFIGURED_KEY.values())
ID_VALUES = ["admin", "root", "alice", "mallory", "Bob"]
# the login is the EXACT value of the configured variable (only the configured lower/upper/strip_domain applies): lists, blanks,
# empty elements must not be interpreted
ODD_ID_VALUES = ["mallory,alice", " alice ", "a,,b", ",", "alice, bob", "\talice", "alice ", ", alice", "alice;bob", "alice bob", " ",
                 "Alice@Example.com, root", ",root"]


def b64(b):
    return base64.b64encode(b).decode("ascii")


def gen_authorization(rng):
    """Returns the header value or None, and the shape label."""
    login, pw = rng.choice(LOGINS), rng.choice(PWS)
    shape = rng.choice(["missing"] * 4 + ["valid"] * 14 + ["latin1", "spaces", "nospace", "nbsp", "lower",
                        "other-scheme", "bare", "bare-space", "bad-b64", "bad-padding", "junk-inside", "no-colon",
                        "empty-login", "empty-both", "non-ascii-header", "bad-utf8", "basicx"])
    good = b64(("%s:%s" % (login, pw)).encode("utf-8"))
    if shape == "missing":
        return None, shape
    if shape == "valid":
        return "Basic " + good, shape
    if shape == "latin1":
        try:
            return "Basic " + b64(("%s:%s" % (login, pw)).encode("latin-1")), shape
        except UnicodeEncodeError:
            return "Basic " + good, "valid"
    if shape == "spaces":
        return "Basic  \t " + good + rng.choice(["  ", "\t", " \n"]), shape
    if shape == "nospace":
        return "Basic" + good, shape
    if shape == "nbsp":
        return "Basic" + rng.choice([" ", " ", "\u0085", "\x1f", "​"]) + good + rng.choice(["", "　"]), shape
    if shape == "lower":
        return rng.choice(["basic ", "BASIC ", "bASIC "]) + good, shape
    if shape == "other-scheme":
        return rng.choice(["Bearer abc", "Digest username=\"alice\"", "Negotiate " + good, "Bas", " Basic " + good]), shape
    if shape == "bare":
        return "Basic", shape
    if shape == "bare-space":
        return "Basic   ", shape
    if shape == "bad-b64":
        return "Basic " + rng.choice(["!!!", "a", "ab", "abc", "=", "====", "a===", "%%%%"]), shape
    if shape == "bad-padding":
        return "Basic " + good.rstrip("=")[:-1 if len(good.rstrip("=")) % 4 == 0 else None] + rng.choice(["", "="]), shape
    if shape == "junk-inside":
        k = rng.randrange(len(good) + 1)
        return "Basic " + good[:k] + rng.choice(["@@", " ", "\n", "-", "_", "!"]) + good[k:], shape
    if shape == "no-colon":
        return "Basic " + b64(login.encode("utf-8")), shape
    if shape == "empty-login":
        return "Basic " + b64((":" + pw).encode("utf-8")), shape
    if shape == "empty-both":
        return "Basic " + b64(b":"), shape
    if shape == "non-ascii-header":
        return "Basic " + good[:4] + rng.choice(["é", "ß", "≠"]) + good[4:], shape
    if shape == "bad-utf8":
        return "Basic " + b64(b"\xff\xfe" + login.encode("utf-8") + b":" + pw.encode("utf-8")), shape
    return "Basicx" + good, "basicx"


def gen_config(rng):
    kind = rng.choice(["none", "denyall", "remote_user", "http_x_remote_user", PLUGIN, PLUGIN, PLUGIN, PLUGIN])
    case = rng.choice(["", "", "lc", "uc"])
    internal = rng.random() < 0.5
    return dict(kind=kind, lc=case == "lc", uc=case == "uc", sd=rng.random() < 0.4,
                script_name=rng.choice(["", "", "/pfx", "/pfx/deep"]), internal=internal,
                max_len=rng.choice([100, 100, 0, 100000000, 1]))


def candidates(s):
    out = []
    for x in (s, s.lower(), s.upper()):
        for y in (x, x.split("@")[0]):
            if y not in out:
                out.append(y)
    return out


def gen_case(rng, rig):
    cfg = rig.cfg
    env = {}
    r = rng.random()
    method = rng.choice(METHODS) if r < 0.8 else rng.choice(ODD_METHODS)
    env["REQUEST_METHOD"] = method
    p = rng.choice(PATHS) if rng.random() < 0.3 else rng.choice(["/", "/alice/", "/alice/cal/"])
    if p != "" or rng.random() < 0.5:
        env["PATH_INFO"] = p
    if rng.random() < 0.3:
        for k in rng.sample(["HTTP_X_FORWARDED_FOR", "HTTP_X_FORWARDED_HOST", "HTTP_X_FORWARDED_PROTO", "HTTP_X_FORWARDED_SERVER"],
                            rng.randint(1, 2)):
            env[k] = rng.choice(["10.0.0.1", "proxy", "", "https"])
    if rng.random() < 0.25:
        env["HTTP_X_SCRIPT_NAME"] = rng.choice(["/sn", "sn", "/sn/", "", "/", "//", "/pfx", "/sn//"])
    if rng.random() < 0.25:
        env["SCRIPT_NAME"] = rng.choice(["", "/s", "s", "/s//", "/", "/pfx"])
    a, shape = gen_authorization(rng)
    if a is not None:
        env["HTTP_AUTHORIZATION"] = a
    ct = rng.choice(CTYPES)
    if ct is not None:
        env["CONTENT_TYPE"] = ct
    if rng.random() < 0.35 or cfg["kind"] == "remote_user" and rng.random() < 0.8:
        env["REMOTE_USER"] = rng.choice(LOGINS + ["", "mallory", "root"] + ODD_ID_VALUES)
    if rng.random() < 0.35 or cfg["kind"] == "http_x_remote_user" and rng.random() < 0.8:
        env["HTTP_X_REMOTE_USER"] = rng.choice(LOGINS + ["", "mallory", "root"] + ODD_ID_VALUES)
    # other identity-looking variables / client headers: no back-end may take the user from them
    if rng.random() < 0.35:
        for k in rng.sample(OTHER_ID_KEYS, rng.randint(1, 3)):
            env[k] = rng.choice(ID_VALUES)
    conf_key = CONFIGURED_KEY.get(cfg["kind"])
    if conf_key and rng.random() < 0.3:
        # the gateway did not authenticate the request; the client sends look-alike headers
        if rng.random() < 0.5:
            env.pop(conf_key, None)
        else:
            env[conf_key] = ""
        for k in rng.sample(OTHER_ID_KEYS + [x for x in CONFIGURED_KEY.values() if x != conf_key], rng.randint(1, 3)):
            env[k] = rng.choice(ID_VALUES)
    cl = rng.choice(CLENS)
    if cl is not None:
        env["CONTENT_LENGTH"] = cl
    # ---- the external parties' answers
    conf = rig.srv.configuration
    auth_raw = env.get("HTTP_AUTHORIZATION", "")
    payload = auth_raw[5:].strip()
    decode = []
    login_seen, pw_seen = [], []
    if auth_raw.startswith("Basic") and payload.isascii():
        text = ext_decode(conf, env.get("CONTENT_TYPE", ""), payload)
        decode.append((env.get("CONTENT_TYPE", ""), payload, text))
        if text is not None and ":" in text:
            login_seen.append(text.split(":", 1)[0])
            pw_seen.append(text.split(":", 1)[1])
    for k in IDENTITY_KEYS:
        if k in env and env[k] not in login_seen:
            login_seen.append(env[k])     # (also makes the look-alike names candidates for rights / existing principals)
    pw_seen.append("")
    strings = [method] + login_seen
    upper = [(s, s.upper()) for s in dict.fromkeys(strings + [s.lower() for s in strings])]
    lower = [(s, s.lower()) for s in dict.fromkeys(strings)]
    script, backend = {}, []
    users = []
    for l in login_seen:
        for c in candidates(l):
            beh = rng.choice(["echo"] * 8 + ["empty", "empty", "other", "unsafe", "dotdot", "fsunsafe", "raise", "upper", "tilde"])
            res = {"echo": c, "empty": "", "other": "carol", "unsafe": c + "/x", "dotdot": "..", "fsunsafe": "." + c,
                   "raise": plug.RAISE, "upper": c.upper(), "tilde": c + "~"}[beh]
            for pw in dict.fromkeys(pw_seen):
                if (c, pw) not in script:
                    script[(c, pw)] = res
                    backend.append((c, pw, None if res is plug.RAISE else res))
            if res is not plug.RAISE and res not in users:
                users.append(res)
            if c not in users:
                users.append(c)       # what the built-in back-ends return
    rights_w = [u for u in users if rng.random() < 0.7]
    precreate = [u for u in users if rng.random() < 0.35]
    cands = [u for u in rights_w if u not in precreate] or users       # where the gate would get as far as creating
    race = rng.choice(cands) if cands and rng.random() < 0.4 else None
    handler = rng.choice(["na", "na", "na", "na_copy", "ok", "ok", "ok", "ok", "multi", "multi", "forbidden", "raise"])
    return dict(env=env, shape=shape, decode=decode, upper=upper, lower=lower, script=script, backend=backend, users=users,
                rights_w=rights_w, precreate=precreate, handler=handler, race=race)


def run_case(rig, case):
    """Runs the real Application on the case; fills case['exists'] and returns the observation."""
    plug.STATE["script"] = case["script"]
    plug.STATE["rights_w"] = set(case["rights_w"])
    rig.handler_kind = case["handler"]
    for u in case["precreate"]:
        if u and "/" not in u and not u.startswith(".") and not u.endswith("~") and len(u) < 100:
            os.makedirs(os.path.join(rig.root(), u), exist_ok=True)
    case["exists"] = [u for u in case["users"] if u and rig.home_exists(u)]
    race = case.get("race")
    if not (race and pathutils.is_safe_filesystem_path_component(race) and len(race) < 100):
        race = None
    rig.race_user = race
    # what the look-up repeated under the w lock answers: as before, plus the principal a concurrent request creates meanwhile
    case["exists_w"] = case["exists"] + ([race] if race and race not in case["exists"] else [])
    before = impl.tree_dump(rig.srv.folder)
    del rig.events[:]
    status, headers = rig.call(case["env"])
    rig.race_user = None
    after = impl.tree_dump(rig.srv.folder)
    events = list(rig.events)
    raced = bool(race) and race not in case["exists"] and ("recheck", "/%s/" % race, True) in events
    if raced:       # the directory the simulated concurrent request made is not this request's doing
        after = [e for e in after if not (e[0] == "collection-root/" + race and e not in before)]
    return dict(status=status, www="WWW-Authenticate" in headers, www_value=headers.get("WWW-Authenticate"),
                location=None if headers.get("Location") is None else urllib.parse.unquote(headers["Location"]),   # modulo percent-encoding (C18)
                events=events, raced=raced, store_changed=before != after,
                new_entries=[e[0] for e in after if e not in before])


# ------------------------------------------------------------------------------------ encoders
def enc_cfg(c):
    return ("{| c_script_name := %s; c_internal := %s; c_max_len := %s; c_kind := %s; c_lc := %s; c_uc := %s; c_sd := %s |}"
            % (enc_str(c["script_name"]), enc_bool(c["internal"]), enc_Z(c["max_len"]), KINDS[c["kind"]],
               enc_bool(c["lc"]), enc_bool(c["uc"]), enc_bool(c["sd"])))


def enc_env(e):
    cl = clen_class(e.get("CONTENT_LENGTH"))
    return ("{| e_method := %s; e_path_info := %s; e_fwd_for := %s; e_fwd_host := %s; e_fwd_proto := %s; e_fwd_server := %s; "
            "e_x_script := %s; e_script := %s; e_auth := %s; e_ctype := %s; e_remote_user := %s; e_x_remote_user := %s; e_clen := %s |}"
            % (enc_str(e["REQUEST_METHOD"]), enc_str(e.get("PATH_INFO", "")), enc_str(e.get("HTTP_X_FORWARDED_FOR", "")),
               enc_str(e.get("HTTP_X_FORWARDED_HOST", "")), enc_str(e.get("HTTP_X_FORWARDED_PROTO", "")),
               enc_str(e.get("HTTP_X_FORWARDED_SERVER", "")), enc_opt(enc_str)(e.get("HTTP_X_SCRIPT_NAME")),
               enc_str(e.get("SCRIPT_NAME", "")), enc_str(e.get("HTTP_AUTHORIZATION", "")), enc_str(e.get("CONTENT_TYPE", "") or ""),
               enc_str(e.get("REMOTE_USER", "")), enc_str(e.get("HTTP_X_REMOTE_USER", "")),
               "CLInvalid" if cl[0] == "invalid" else "(CLNum %s)" % enc_Z(cl[1])))


def enc_pairs(l):
    return "[" + ";".join("(%s, %s)" % (enc_str(a), enc_str(b)) for a, b in l) + "]"


def enc_triples_opt(l):
    return "[" + ";".join("(%s, %s, %s)" % (enc_str(a), enc_str(b), enc_opt(enc_str)(c)) for a, b, c in l) + "]"


def enc_gcase(item):
    cfg, case = item
    return ("{| g_cfg := %s; g_env := %s; g_upper := %s; g_lower := %s; g_decode := %s; g_backend := %s; g_handler := %s; "
            "g_exists := %s; g_exists_w := %s; g_rights := %s |}" % (
                enc_cfg(cfg), enc_env(case["env"]), enc_pairs(case["upper"]), enc_pairs(case["lower"]),
                enc_triples_opt(case["decode"]), enc_triples_opt(case["backend"]), HRESP[case["handler"]],
                enc_list(enc_str)(case["exists"]), enc_list(enc_str)(case["exists_w"]), enc_list(enc_str)(case["rights_w"])))


def enc_event(ev):
    if ev[0] == "backend":
        return "EBackend %s %s" % (enc_str(ev[1]), enc_str(ev[2]))
    if ev[0] == "recheck":
        href = ev[1]
        return "EHomeRecheck %s %s" % (enc_str(href[1:-1] if href.startswith("/") and href.endswith("/") else "?" + href), enc_bool(ev[2]))
    if ev[0] == "home":
        href = ev[1]
        user = href[1:-1] if href.startswith("/") and href.endswith("/") else "?" + href
        return "EHome %s %s" % (enc_str(user), enc_bool(ev[2]))
    return "EDispatch %s %s %s %s" % (enc_str(ev[1]), enc_str(ev[2]), enc_str(ev[3]), enc_str(ev[4]))


def enc_gobs(o):
    return "(%d, %s, %s, %s)" % (o["status"], enc_bool(o["www"]), enc_opt(enc_str)(o["location"]),
                                 "[" + ";".join(enc_event(e) for e in o["events"]) + "]")
