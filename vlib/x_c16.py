"""C16 helpers: object grammar, generators, iCalendar / Gallina encoders, boundary ranges, the independent
brute-force evaluation of the RFC 4791 9.9 tables, and drivers for the real implementation.

Python-side representation of an object (plain dicts, JSON-able):
  {"t": "VEVENT", "kind": "DATE"|"DT", "start": int, "end": ["dtend", int] | ["dur", int] | None, "rec": REC|None}
  {"t": "VTODO", "kind": "DATE"|"DT", "dtstart": int|None, "duration": int|None, "due": int|None,
                 "completed": int|None, "created": int|None, "rec": REC|None}
  {"t": "VJOURNAL", "kind": ..., "start": int|None, "rec": REC|None}
  REC = {"freq": "DAILY"|"WEEKLY", "interval": int, "bound": ["count", n] | ["until", u] | None, "ex": [int], "order": [..]}
All instants are POSIX seconds (a DATE value is its midnight UTC).  A range is [start|None, end|None].
"""
import datetime
import re
import xml.etree.ElementTree as ET

DAY = 86400
UTC = datetime.timezone.utc
EPOCH = datetime.datetime(1970, 1, 1, tzinfo=UTC)


def dt_of(ts):
    return EPOCH + datetime.timedelta(seconds=ts)


def fmt_dt(ts):
    return dt_of(ts).strftime("%Y%m%dT%H%M%SZ")


def fmt_date(ts):
    assert ts % DAY == 0, ts
    return dt_of(ts).strftime("%Y%m%d")


def fmt_val(kind, ts):
    return fmt_date(ts) if kind == "DATE" else fmt_dt(ts)


def prop_line(name, kind, ts):
    return "%s;VALUE=DATE:%s" % (name, fmt_date(ts)) if kind == "DATE" else "%s:%s" % (name, fmt_dt(ts))


def fmt_duration(d):
    sign = "-" if d < 0 else ""
    d = abs(d)
    days, rem = divmod(d, DAY)
    h, rem = divmod(rem, 3600)
    m, s = divmod(rem, 60)
    out = "P"
    if days:
        out += "%dD" % days
    if h or m or s or not days:
        out += "T"
        if h:
            out += "%dH" % h
        if m:
            out += "%dM" % m
        if s or not (h or m):
            out += "%dS" % s
    return sign + out


# ------------------------------------------------------------------------------------------ iCalendar text
def rrule_text(kind, rec):
    parts = {"FREQ": "FREQ=%s" % rec["freq"]}
    if rec["interval"] != 1 or rec.get("explicit_interval"):
        parts["INTERVAL"] = "INTERVAL=%d" % rec["interval"]
    b = rec["bound"]
    if b and b[0] == "count":
        parts["BOUND"] = "COUNT=%d" % b[1]
    elif b and b[0] == "until":
        parts["BOUND"] = "UNTIL=%s" % fmt_val(kind, b[1])
    order = [k for k in rec.get("order", ["FREQ", "INTERVAL", "BOUND"]) if k in parts]
    order += [k for k in ("FREQ", "INTERVAL", "BOUND") if k in parts and k not in order]
    return "RRULE:" + ";".join(parts[k] for k in order)


def rec_lines(kind, rec):
    if not rec:
        return []
    out = [rrule_text(kind, rec)]
    for x in rec["ex"]:
        out.append(prop_line("EXDATE", kind, x))
    return out


def to_ics(o, uid="u1", extra=()):
    t = o["t"]
    lines = []
    kind = o.get("kind", "DT")
    if t == "VEVENT":
        lines.append(prop_line("DTSTART", kind, o["start"]))
        if o["end"]:
            if o["end"][0] == "dtend":
                lines.append(prop_line("DTEND", kind, o["end"][1]))
            else:
                lines.append("DURATION:" + fmt_duration(o["end"][1]))
        lines += rec_lines(kind, o["rec"])
        if o.get("rdate"):
            lines.append(("RDATE;VALUE=DATE:" if kind == "DATE" else "RDATE:") + ",".join(fmt_val(kind, x) for x in o["rdate"]))
    elif t == "VTODO":
        if o["dtstart"] is not None:
            lines.append(prop_line("DTSTART", kind, o["dtstart"]))
        if o["duration"] is not None:
            lines.append("DURATION:" + fmt_duration(o["duration"]))
        if o["due"] is not None:
            lines.append(prop_line("DUE", kind, o["due"]))
        if o["completed"] is not None:
            lines.append("COMPLETED:" + fmt_dt(o["completed"]))
        if o["created"] is not None:
            lines.append("CREATED:" + fmt_dt(o["created"]))
        lines += rec_lines(kind, o["rec"])
    elif t == "VJOURNAL":
        if o["start"] is not None:
            lines.append(prop_line("DTSTART", kind, o["start"]))
        lines += rec_lines(kind, o["rec"])
    lines += list(extra)
    more = ""
    for ov in o.get("overrides") or []:
        # a rescheduled instance: same UID, RECURRENCE-ID = the instance it replaces
        more += ("BEGIN:%s\r\nUID:%s\r\nDTSTAMP:20200101T000000Z\r\nSUMMARY;X-P=1:moved\r\n%s\r\n%s\r\n%s\r\nEND:%s\r\n" % (
            t, uid, prop_line("RECURRENCE-ID", kind, ov["rid"]), prop_line("DTSTART", kind, ov["start"]),
            prop_line("DTEND", kind, ov["end"]), t))
    return ("BEGIN:VCALENDAR\r\nPRODID:-//verif//C16//EN\r\nVERSION:2.0\r\nBEGIN:%s\r\nUID:%s\r\n"
            "DTSTAMP:20200101T000000Z\r\nSUMMARY;X-P=1:s\r\n%s\r\nEND:%s\r\n%sEND:VCALENDAR\r\n" % (t, uid, "\r\n".join(lines), t, more))


# ------------------------------------------------------------------------------------------ Gallina text
def z(n):
    return "(%d)" % n


def optz(v):
    return "None" if v is None else "(Some %s)" % z(v)


def enc_rec(rec):
    if not rec:
        return "None"
    b = rec["bound"]
    bt = "RForever" if not b else ("(RCount %s)" % z(b[1]) if b[0] == "count" else "(RUntil %s)" % z(b[1]))
    return "(Some (Build_recur (Build_rrule %s %s %s) [%s]))" % (
        {"HOURLY": "Hourly", "DAILY": "Daily", "WEEKLY": "Weekly"}[rec["freq"]], z(rec["interval"]), bt, ";".join(z(x) for x in rec["ex"]))


def enc_kind(k):
    return "KDate" if k == "DATE" else "KDateTime"


def enc_obj(o):
    t = o["t"]
    if t == "VEVENT":
        e = o["end"]
        et = "ENone" if not e else ("(EDtend %s)" % z(e[1]) if e[0] == "dtend" else "(EDuration %s)" % z(e[1]))
        return "(OEvent (Build_vevent %s %s %s %s))" % (enc_kind(o["kind"]), z(o["start"]), et, enc_rec(o["rec"]))
    if t == "VTODO":
        return "(OTodo (Build_vtodo %s %s %s %s %s %s))" % (optz(o["dtstart"]), optz(o["duration"]), optz(o["due"]),
                                                           optz(o["completed"]), optz(o["created"]), enc_rec(o["rec"]))
    s = "None" if o["start"] is None else "(Some (%s, %s))" % (enc_kind(o["kind"]), z(o["start"]))
    return "(OJournal (Build_vjournal %s %s))" % (s, enc_rec(o["rec"]))


def enc_range(r):
    return "(%s, %s)" % (optz(r[0]), optz(r[1]))


def enc_xt(v):
    return "MInf" if v == "MInf" else "PInf" if v == "PInf" else "(Fin %s)" % z(v)


def enc_call(c):
    return "(mkcall %s %s %s)" % (enc_xt(c[0]), enc_xt(c[1]), "true" if c[2] else "false")


HEADER = """From Coq Require Import ZArith List Bool.
Import ListNotations.
Require Import RV.Model.Rfc4791 RV.Model.Filter.
Open Scope Z_scope.
Definition eq_call (a b : call) := xeqb (c_s a) (c_s b) && xeqb (c_e a) (c_e b) && Bool.eqb (c_rec a) (c_rec b).
Fixpoint eq_list {A} (f : A -> A -> bool) (a b : list A) : bool :=
  match a, b with [] , [] => true | x :: r, y :: s => f x y && eq_list f r s | _, _ => false end.
Definition eq_opt {A} (f : A -> A -> bool) (a b : option A) : bool :=
  match a, b with Some x, Some y => f x y | None, None => true | _, _ => false end.
Definition eq_xx (a b : xt * xt) := xeqb (fst a) (fst b) && xeqb (snd a) (snd b).
(* a recording range_fn that cancels after `limit` calls *)
Definition rec_fn (limit : nat) (c : call) (st : list call) : list call * bool := (st ++ [c], Nat.leb limit (S (length st))).
Definition record (limit : nat) (o : obj) : option (list call) :=
  option_map fst (visit (rec_fn limit) no_infinity 400 o []).
Definition fuel_of (it : item) (r : trange) := match_fuel (it_obj it) r.
Definition pm (p : Z) (it : item) : bool := (p =? 1) || (p =? 2).
Definition mk_item (id : Z) (o : obj) : item :=
  {| it_comp := obj_cname o; it_obj := o;
     it_range := match find_time_range (hull_fuel o) o with Some h => h | None => (MInf, PInf) end; it_id := id |}.
Definition run_report (filters : list (list elem)) (objs : list obj) : option (list Z) :=
  let items := (fix mk (i : Z) (l : list obj) := match l with [] => [] | o :: r => mk_item i o :: mk (i + 1) r end) 0 objs in
  option_map (map it_id) (report pm fuel_of filters items).
Definition eq_oname (a b : option cname) := match a, b with Some x, Some y => cname_eqb x y | None, None => true | _, _ => false end.
Definition eq_simplify (a b : option cname * xt * xt * bool) : bool :=
  let '(t1, s1, e1, b1) := a in let '(t2, s2, e2, b2) := b in eq_oname t1 t2 && xeqb s1 s2 && xeqb e1 e2 && Bool.eqb b1 b2.
Definition run_test_filter (f : list elem) (o : obj) : option bool := test_filter pm fuel_of (mk_item 0 o) f.
Definition fbt (t : fbtype) : Z := match t with FBBusy => 0 | FBFree => 1 | FBTentative => 2 end.
Definition eq_fb (a b : xt * xt * Z) := xeqb (fst (fst a)) (fst (fst b)) && xeqb (snd (fst a)) (snd (fst b)) && (snd a =? snd b).
Definition run_fb (maxo : Z) (r : trange) (objs : list (obj * bool * fbtype)) : option (list (xt * xt * Z)) :=
  let items := (fix mk (i : Z) (l : list (obj * bool * fbtype)) := match l with [] => []
      | (o, tr, ty) :: r => {| fb_item := mk_item i o; fb_transparent := tr; fb_type := ty |} :: mk (i + 1) r end) 0 objs in
  option_map (map (fun x => (fst (fst x), snd (fst x), fbt (snd x)))) (free_busy fuel_of maxo r items).
"""


# ------------------------------------------------------------------------------------------ extended events (Model/FilterExt.v)
def enc_xevent(o):
    """a gen_ext_event object (UTC DATE-TIME master VEVENT, RRULE?, RDATE, EXDATE, override components) as FilterExt.xevent"""
    assert o["t"] == "VEVENT" and o["kind"] == "DT", o
    e = o["end"]
    et = "ENone" if not e else ("(EDtend %s)" % z(e[1]) if e[0] == "dtend" else "(EDuration %s)" % z(e[1]))
    rec = o.get("rec")
    if rec:
        b = rec["bound"]
        bt = "RForever" if not b else ("(RCount %s)" % z(b[1]) if b[0] == "count" else "(RUntil %s)" % z(b[1]))
        rule = "(Some (Build_rrule %s %s %s))" % ({"HOURLY": "Hourly", "DAILY": "Daily", "WEEKLY": "Weekly"}[rec["freq"]], z(rec["interval"]), bt)
        ex = rec["ex"]
    else:
        rule, ex = "None", []
    return "(Build_xevent %s %s %s [%s] [%s] [%s])" % (
        z(o["start"]), et, rule, ";".join(z(x) for x in o.get("rdate") or []), ";".join(z(x) for x in ex),
        ";".join("(Build_xover %s %s %s)" % (z(v["rid"]), z(v["start"]), z(v["end"])) for v in o.get("overrides") or []))


EXT_HEADER = HEADER + "Require Import RV.Model.FilterExt.\n"


# ------------------------------------------------------------------------------------------ filters
# element = ["ind"] | ["tr", start, end] | ["pf", p, spelling?] (p=1 always true, p=0 never, p=2 true on VCALENDAR)
#           | ["cf", NAME, [children]] | ["unk"]
def enc_elem(e):
    k = e[0]
    if k == "ind":
        return "EIsNotDefined"
    if k == "tr":
        return "(ETimeRange %s)" % enc_range((e[1], e[2]))
    if k == "pf":
        return "(EPropFilter %s)" % z(e[1])
    if k == "cf":
        return "(ECompFilter %s [%s])" % (enc_name(e[1]), ";".join(enc_elem(c) for c in e[2]))
    return "EUnknown"


NAMES = {"VCALENDAR": "NCal", "VEVENT": "NEvent", "VTODO": "NTodo", "VJOURNAL": "NJournal"}


def enc_cname(n):
    return NAMES.get(n) or "(NOther %s)" % z(sum(ord(c) for c in n))


def enc_name(n):
    """the name attribute as spelled -> rawname (its upper-casing + whether it is upper case)"""
    return "(Build_rawname %s %s)" % (enc_cname(n.upper()), "true" if n == n.upper() else "false")


def spell(rng, name, mode=None):
    """the same name in another spelling: upper, lower, capitalised or random mixed case"""
    mode = mode or rng.choice(["upper", "upper", "lower", "cap", "mixed"])
    if mode == "upper":
        return name.upper()
    if mode == "lower":
        return name.lower()
    if mode == "cap":
        return name[:1].upper() + name[1:].lower()
    return "".join(c.upper() if rng.random() < 0.5 else c.lower() for c in name)


def spelling(rng, mode=None):
    """spelled names for one query: VCALENDAR, the prop-filter and param-filter names"""
    return {k: spell(rng, k, mode) for k in ("VCALENDAR", "VEVENT", "VTODO", "VJOURNAL", "VALARM", "VFREEBUSY",
                                            "UID", "VERSION", "X-NONE", "SUMMARY", "X-P", "X-Q")} | {"param": rng.random() < 0.3}


UPPER = None      # default spelling: everything upper case, prop-filters without param-filter


def enc_filters(fs):
    return "([%s] : list (list elem))" % ";".join("[%s]" % ";".join(enc_elem(e) for e in f) for f in fs)


def tlist(enc, ty):
    """typed list literal (an empty untyped `[]` cannot be elaborated in the first row of a case table)"""
    return lambda l: "([%s] : list %s)" % (";".join(enc(x) for x in l), ty)


def xml_elem(e):
    k = e[0]
    if k == "ind":
        return "<C:is-not-defined/>"
    if k == "tr":
        return "<C:time-range%s%s/>" % ((' start="%s"' % fmt_dt(e[1])) if e[1] is not None else "",
                                        (' end="%s"' % fmt_dt(e[2])) if e[2] is not None else "")
    if k == "pf":
        # 1: true on every component of the grammar (UID defined, or SUMMARY has the parameter X-P);
        # 2: VERSION, defined on every VCALENDAR; 0: true nowhere (X-NONE defined / SUMMARY has a parameter X-Q)
        sp = e[2] if len(e) > 2 and e[2] else {}
        g = lambda k: sp.get(k, k)
        if e[1] == 2:
            return '<C:prop-filter name="%s"/>' % g("VERSION")
        if sp.get("param"):
            return '<C:prop-filter name="%s"><C:param-filter name="%s"/></C:prop-filter>' % (g("SUMMARY"), g("X-P") if e[1] == 1 else g("X-Q"))
        return '<C:prop-filter name="%s"/>' % (g("UID") if e[1] == 1 else g("X-NONE"))
    if k == "cf":
        return '<C:comp-filter name="%s">%s</C:comp-filter>' % (e[1], "".join(xml_elem(c) for c in e[2]))
    return '<C:param-filter name="X"/>'


def xml_query(fs):
    return ('<?xml version="1.0"?><C:calendar-query xmlns:D="DAV:" xmlns:C="urn:ietf:params:xml:ns:caldav">'
            '<D:prop><D:getetag/></D:prop>%s</C:calendar-query>' % "".join(
                "<C:filter>%s</C:filter>" % "".join(xml_elem(e) for e in f) for f in fs))


def xml_freebusy(r):
    return ('<?xml version="1.0"?><C:free-busy-query xmlns:C="urn:ietf:params:xml:ns:caldav">%s</C:free-busy-query>'
            % xml_elem(["tr", r[0], r[1]]))


def simple_filter(comp, r, extra=()):
    return [[["cf", "VCALENDAR", [["cf", comp, [["tr", r[0], r[1]]] + list(extra)]]]]]


# ------------------------------------------------------------------------------------------ generators
T0 = 1704067200          # 2024-01-01T00:00:00Z
LENS = [0, 1, 2, 59, 3600, 86399, 86400, 86401, 2 * 86400, 3 * 86400 + 7200, 7 * 86400, 10 * 86400]


def gen_instant(rng, kind):
    d = T0 + rng.randrange(0, 400) * DAY
    if kind == "DATE":
        return d
    return d + rng.choice([0, 0, 1, 3600, 43200, 86399, rng.randrange(DAY)])


def gen_rec(rng, kind, s0, allow_forever=True):
    if rng.random() < 0.45:
        return None
    freq = rng.choice(["DAILY", "DAILY", "WEEKLY"] + (["HOURLY"] if kind == "DT" else []))
    interval = rng.choice([1, 1, 1, 2, 3, 10])
    p = interval * UNIT[freq]
    c = rng.random()
    if c < 0.4:
        bound = ["count", rng.choice([1, 2, 3, 5, 12])]
        n = bound[1]
    elif c < 0.7:
        n = rng.choice([0, 1, 2, 4, 9])
        u = s0 + n * p + rng.choice([0, 0, -1, 1, p - 1, -p + 1]) if kind == "DT" else s0 + n * p + rng.choice([0, 0, DAY, -DAY])
        bound = ["until", u]
        n = n + 1
    elif allow_forever:
        bound = None
        n = 8
    else:
        bound = ["count", 3]
        n = 3
    ex = []
    for _ in range(rng.choice([0, 0, 0, 1, 2, 3])):
        k = rng.randrange(0, max(1, n))
        x = s0 + k * p
        if rng.random() < 0.15:
            x += DAY if kind == "DATE" else rng.choice([1, -1, 3600])
        if x not in ex:
            ex.append(x)
    order = ["FREQ", "INTERVAL", "BOUND"]
    if rng.random() < 0.3:
        rng.shuffle(order)
    return dict(freq=freq, interval=interval, bound=bound, ex=ex, order=order, explicit_interval=rng.random() < 0.3)


def gen_len(rng, kind):
    if kind == "DATE":
        return rng.choice([1, 1, 2, 3, 7]) * DAY
    return rng.choice(LENS + [rng.randrange(1, 3 * DAY)])


def gen_vevent(rng):
    kind = rng.choice(["DT", "DT", "DATE"])
    s = gen_instant(rng, kind)
    c = rng.random()
    if c < 0.08:
        # boundary class: zero-length event, DTEND equal to DTSTART (visited as the empty range (D, D); 9.9 row 1: start < D < end)
        end = ["dtend", s]
    elif c < 0.4:
        ln = gen_len(rng, kind)
        end = ["dtend", s + max(ln, DAY if kind == "DATE" else 1)]
    elif c < 0.75:
        end = ["dur", rng.choice([0, DAY, 2 * DAY, 7 * DAY]) if kind == "DATE" else rng.choice(LENS)]
    else:
        end = None
    return dict(t="VEVENT", kind=kind, start=s, end=end, rec=gen_rec(rng, kind, s))


def gen_vjournal(rng):
    kind = rng.choice(["DT", "DATE"])
    if rng.random() < 0.1:
        return dict(t="VJOURNAL", kind=kind, start=None, rec=None)
    s = gen_instant(rng, kind)
    return dict(t="VJOURNAL", kind=kind, start=s, rec=gen_rec(rng, kind, s))


def gen_vtodo(rng):
    kind = rng.choice(["DT", "DT", "DATE"])
    o = dict(t="VTODO", kind=kind, dtstart=None, duration=None, due=None, completed=None, created=None, rec=None)
    shape = rng.choice(["sd", "sd", "su", "su", "s", "u", "cc", "cc", "c", "r", "none", "sucr", "sdcr", "ucr"])
    if "s" in shape:
        o["dtstart"] = gen_instant(rng, kind)
    if "d" in shape:
        o["duration"] = rng.choice([0, DAY, 3 * DAY]) if kind == "DATE" else rng.choice(LENS)
    if "u" in shape:
        base = o["dtstart"] if o["dtstart"] is not None else gen_instant(rng, kind)
        o["due"] = base + (rng.choice([0, 1, 2, 5]) * DAY if kind == "DATE" else rng.choice(LENS)) if o["dtstart"] is not None else base
    if shape in ("cc", "sucr", "sdcr", "ucr"):
        o["created"] = gen_instant(rng, "DT")
        o["completed"] = o["created"] + rng.choice(LENS + [9 * DAY, 30 * DAY])
    elif shape == "c":
        o["completed"] = gen_instant(rng, "DT")
    elif shape == "r":
        o["created"] = gen_instant(rng, "DT")
    if o["dtstart"] is not None:
        o["rec"] = gen_rec(rng, kind, o["dtstart"])
    return o


def gen_ext_event(rng, mode=None):
    """VEVENT objects beyond the Coq grammar: RDATE (with or without RRULE), several instances per day (FREQ=HOURLY),
    rescheduled instances (RECURRENCE-ID override components).  UTC DATE-TIME only."""
    mode = mode or rng.choice(["rdate", "rdate", "rdate+rrule", "hourly+override", "hourly+override", "daily+override", "rdate+override"])
    s = gen_instant(rng, "DT")
    ln = rng.choice([1, 600, 1800, 3600, 3 * 3600, DAY + 3600])
    end = rng.choice([["dtend", s + ln], ["dtend", s + ln], ["dur", ln], None])
    o = dict(t="VEVENT", kind="DT", start=s, end=end, rec=None, rdate=[], overrides=[])
    if "rrule" in mode or "hourly" in mode or "daily" in mode:
        freq = "HOURLY" if "hourly" in mode else rng.choice(["DAILY", "HOURLY", "WEEKLY"])
        interval = rng.choice([1, 2, 3, 6]) if freq == "HOURLY" else rng.choice([1, 1, 2])
        c = rng.random()
        bound = ["count", rng.choice([3, 5, 9, 26])] if c < 0.6 else (["until", s + rng.choice([5, 11, 30]) * interval * UNIT[freq]] if c < 0.85 else None)
        o["rec"] = dict(freq=freq, interval=interval, bound=bound, ex=[], order=["FREQ", "INTERVAL", "BOUND"], explicit_interval=False)
        if rng.random() < 0.3:
            o["rec"]["ex"] = [s + rng.randrange(0, 4) * interval * UNIT[freq]]
    if "rdate" in mode:
        offs = rng.sample([1800, 3600, 2 * 3600, 5 * 3600, DAY, DAY + 1800, 2 * DAY, 3 * DAY + 7200, 9 * DAY, 40 * DAY], rng.choice([1, 2, 3, 4]))
        o["rdate"] = sorted(s + x for x in offs)
    if "override" in mode:
        cand = master_starts(o, s + 3 * DAY)[:12]
        for rid in rng.sample(cand, min(len(cand), rng.choice([1, 1, 2]))):
            ns = rid + rng.choice([0, 900, -900, 2 * 3600, DAY, -DAY, 3 * DAY + 1800])
            o["overrides"].append(dict(rid=rid, start=ns, end=ns + rng.choice([1, 900, 3600, 2 * 3600])))
    return o


def gen_obj(rng, t=None):
    t = t or rng.choice(["VEVENT", "VEVENT", "VTODO", "VTODO", "VJOURNAL"])
    return {"VEVENT": gen_vevent, "VTODO": gen_vtodo, "VJOURNAL": gen_vjournal}[t](rng)


UNIT = {"HOURLY": 3600, "DAILY": DAY, "WEEKLY": 7 * DAY}


def period_of(rec):
    return rec["interval"] * UNIT[rec["freq"]]


def gen_leading_ex(rng, t=None, forever=None):
    """a recurring object whose FIRST instance(s) are removed by EXDATE (EXDATE = DTSTART, DTSTART + period, ...):
    the recurrence set then begins after DTSTART, which matters for everything derived from 'the first instance'."""
    t = t or rng.choice(["VEVENT", "VTODO", "VJOURNAL"])
    while True:
        o = gen_obj(rng, t)
        if o["t"] == "VTODO" and o["dtstart"] is None:
            continue
        if o["t"] == "VJOURNAL" and o["start"] is None:
            continue
        break
    s0 = ref_start(o)
    kind = o["kind"]
    if forever is None:
        forever = rng.random() < 0.6
    m = rng.choice([1, 1, 2, 3])
    interval = rng.choice([1, 1, 2, 3])
    freq = rng.choice(["DAILY", "DAILY", "WEEKLY"])
    p = interval * (DAY if freq == "DAILY" else 7 * DAY)
    if forever:
        bound = None
    elif rng.random() < 0.5:
        bound = ["count", m + rng.choice([0, 1, 2, 4])]
    else:
        bound = ["until", s0 + (m + rng.choice([-1, 0, 1, 3])) * p]
    ex = [s0 + k * p for k in range(m)]
    if rng.random() < 0.2:
        ex.append(s0 + (m + 1) * p)
    order = ["FREQ", "INTERVAL", "BOUND"]
    if rng.random() < 0.3:
        rng.shuffle(order)
    o["rec"] = dict(freq=freq, interval=interval, bound=bound, ex=ex, order=order, explicit_interval=rng.random() < 0.3)
    return o


def leading_gap_ranges(rng, o, n):
    """ranges placed between DTSTART (removed by EXDATE) and the first surviving instance, at and +-1 s around them"""
    rec = o.get("rec")
    s0 = ref_start(o)
    if not rec or s0 is None or s0 not in rec["ex"]:
        return []
    surv = occurrences(s0, rec, s0 + 60 * period_of(rec), 80)
    first = surv[0] if surv else s0 + (len(rec["ex"]) + 1) * period_of(rec)
    offs = instance_len(o)
    out = []
    while len(out) < n:
        a = s0 + rng.choice([-1, -1, 0, 0, 1]) + rng.choice([0, 0, min(offs)])
        c = rng.random()
        if c < 0.45:
            b = first + rng.choice([-2, -1, -1, 0, 0, 1]) + rng.choice([0, 0, min(offs)])
        elif c < 0.75:
            b = s0 + rng.choice(offs) + rng.choice([-1, 0, 1, 2])
        else:
            b = rng.randrange(s0, max(first, s0 + 2)) + 1
        if b <= a:
            b = a + 1
        out.append([a, b])
    return out


# regression corpus: the witnesses of the defects found (kept forever)
def corpus():
    J10 = T0 + 9 * DAY
    ev = lambda **k: dict(dict(t="VEVENT", kind="DT", start=J10, end=None, rec=None), **k)
    td = lambda **k: dict(dict(t="VTODO", kind="DT", dtstart=None, duration=None, due=None, completed=None, created=None, rec=None), **k)
    rec = lambda **k: dict(dict(freq="DAILY", interval=1, bound=None, ex=[], order=["FREQ", "INTERVAL", "BOUND"]), **k)
    return [
        ("F3", ev(end=["dur", DAY]), [J10 + 43200, J10 + 46800]),
        ("F3", ev(end=["dur", 2 * DAY]), [J10 + DAY + 5, None]),
        ("F4", td(created=T0, completed=J10), [T0 + 2 * DAY, T0 + 4 * DAY]),
        ("F4", td(created=T0, completed=J10), [T0 + 17 * DAY, T0 + 19 * DAY]),
        ("F4", td(created=T0, completed=J10), [T0 - 2 * DAY, T0]),
        ("F12", ev(kind="DATE", start=T0, rec=rec(bound=["count", 3])), [T0 + DAY + 43200, T0 + DAY + 46800]),
        ("F12", dict(t="VJOURNAL", kind="DATE", start=T0, rec=rec(bound=["count", 3])), [T0 + DAY + 43200, T0 + DAY + 46800]),
        ("F13", ev(end=["dur", 3600]), [None, None]),
        ("F16", ev(end=["dtend", J10 + 3600], rec=rec(bound=["count", 3], order=["BOUND", "FREQ", "INTERVAL"])), [J10 + 300 * DAY, None]),
        ("F18", td(dtstart=J10, due=J10 + 10 * DAY, created=T0, completed=T0 + DAY), [J10 + 5 * DAY, J10 + 6 * DAY]),
        ("F14", td(dtstart=J10, due=J10, rec=rec()), [J10 - DAY, J10]),
        ("F14", td(dtstart=J10, duration=0, rec=rec()), [J10 - DAY, J10]),
        # first instance removed by EXDATE, unbounded rule, range covering DTSTART only
        ("first-exdate", ev(end=["dtend", J10 + 3600], rec=rec(ex=[J10])), [J10 - 60, J10 + 7200]),
        ("first-exdate", td(dtstart=J10, due=J10 + 3600, rec=rec(freq="WEEKLY", ex=[J10, J10 + 7 * DAY])), [J10, J10 + DAY]),
        ("first-exdate", dict(t="VJOURNAL", kind="DATE", start=T0, rec=rec(ex=[T0])), [T0, T0 + DAY]),
        # zero-length events (DTEND = DTSTART; DURATION:PT0S is Line 3 and one second long), range strictly around an instance
        ("zero-length", ev(end=["dtend", J10]), [J10 - 3600, J10 + 3600]),
        ("zero-length", ev(end=["dtend", J10], rec=rec(bound=["count", 5])), [J10 + 2 * DAY - 1, J10 + 2 * DAY + 1]),
        ("zero-length", ev(kind="DATE", start=T0, end=["dtend", T0], rec=rec(bound=["count", 4])), [T0 + DAY - 3600, T0 + DAY + 3600]),
        ("zero-length", ev(end=["dur", 0], rec=rec(bound=["count", 5])), [J10 + 2 * DAY - 1, J10 + 2 * DAY + 1]),
    ]


# ------------------------------------------------------------------------------------------ independent RFC 4791 9.9 oracle
INF = float("inf")


def occurrences(s0, rec, upto=None, maxn=5000, frm=None):
    """explicit occurrence list by plain arithmetic (no dateutil); for unbounded rules stops after `upto`;
    `frm`: instances before it are not wanted (the index simply starts later)."""
    if not rec:
        return [s0]
    p = period_of(rec)
    out, k = [], 0
    if frm is not None and frm > s0:
        k = (frm - s0) // p
        maxn += k
    b = rec["bound"]
    while k < maxn:
        d = s0 + k * p
        if b and b[0] == "count" and k >= b[1]:
            break
        if b and b[0] == "until" and d > b[1]:
            break
        if not b and upto is not None and d > upto:
            break
        if d not in rec["ex"]:
            out.append(d)
        k += 1
    return out


def is_ext(o):
    """outside the grammar of the Coq model (RDATE, RECURRENCE-ID overrides): covered by the oracle monitors only"""
    return bool(o.get("rdate") or o.get("overrides"))


def master_starts(o, upto, frm=None):
    """instances of the master VEVENT by plain arithmetic: (rule instances + RDATE + DTSTART) - EXDATE - overridden ones"""
    s0, rec = o["start"], o.get("rec")
    ex = rec["ex"] if rec else []
    st = set(occurrences(s0, rec, upto, 20000, frm)) if rec else {s0}
    if o.get("rdate"):
        st |= set(x for x in o["rdate"] + [s0] if x not in ex)
    st -= set(ov["rid"] for ov in o.get("overrides") or [])
    return sorted(st)


def event_len(o):
    e = o["end"]
    if e and e[0] == "dtend":
        return e[1] - o["start"]
    if e and e[0] == "dur" and e[1] > 0:
        return e[1]
    return DAY if (not e and o["kind"] == "DATE") else 1


def event_instances(o, upto):
    """[(start, end)] of every instance of a VEVENT object (master instances and rescheduled ones), as the visitor /
    the free-busy expansion must hand them out"""
    ln = event_len(o)
    return sorted([(D, D + ln) for D in master_starts(o, upto)] + [(ov["start"], ov["end"]) for ov in o.get("overrides") or []])


def event_overlapping(o, r):
    """[(start, end)] of the instances of a VEVENT object whose 9.9 row holds for the range r (both bounds given)"""
    ln = event_len(o)
    out = [(D, D + ln) for D in master_starts(o, r[1] + DAY, r[0] - 45 * DAY) if rfc_rows(o, D, r[0], r[1])]
    out += [(ov["start"], ov["end"]) for ov in o.get("overrides") or [] if r[0] < ov["end"] and r[1] > ov["start"]]
    return sorted(out)


def rfc_rows(o, D, s, e):
    """The condition of RFC 4791 9.9 for the instance at D; s, e are numbers or -inf/+inf."""
    t = o["t"]
    if t == "VEVENT":
        end = o["end"]
        if end and end[0] == "dtend":
            return s < D + (end[1] - o["start"]) and e > D
        if end and end[0] == "dur":
            if end[1] > 0:
                return s < D + end[1] and e > D
            return s <= D and e > D
        if o["kind"] == "DT":
            return s <= D and e > D
        return s < D + DAY and e > D
    if t == "VJOURNAL":
        if o["kind"] == "DT":
            return s <= D and e > D
        return s < D + DAY and e > D
    raise AssertionError


def rfc_overlaps(o, r):
    """Independent evaluation of 9.9 over the explicit occurrence list.  None if the object is outside the table."""
    s = -INF if r[0] is None else r[0]
    e = INF if r[1] is None else r[1]
    t = o["t"]
    anchors = [x for x in (r[0], r[1], ref_start(o)) if x is not None]
    horizon = max(anchors) + 200 * DAY        # unbounded rules: far enough to contain an instance after every bound
    if t == "VEVENT":
        if any(s < ov["end"] and e > ov["start"] for ov in o.get("overrides") or []):     # row "has DTEND" of the override
            return True
        return any(rfc_rows(o, D, s, e) for D in master_starts(o, horizon, None if r[0] is None else r[0] - 45 * DAY))
    if t == "VJOURNAL":
        if o["start"] is None:
            return False
        return any(rfc_rows(o, D, s, e) for D in occurrences(o["start"], o["rec"], horizon, 20000, None if r[0] is None else r[0] - 45 * DAY))
    ds, du, dd, c, cr = o["dtstart"], o["due"], o["duration"], o["completed"], o["created"]
    if ds is not None and dd is not None and du is None:
        return any(s <= D + dd and (e > D or e >= D + dd) for D in occurrences(ds, o["rec"], horizon, 20000, None if r[0] is None else r[0] - 45 * DAY))
    if ds is not None and dd is None and du is not None:
        return any((s < D + (du - ds) or s <= D) and (e > D or e >= D + (du - ds)) for D in occurrences(ds, o["rec"], horizon, 20000, None if r[0] is None else r[0] - 45 * DAY))
    if ds is not None and dd is None and du is None:
        return any(s <= D and e > D for D in occurrences(ds, o["rec"], horizon, 20000, None if r[0] is None else r[0] - 45 * DAY))
    if ds is None and dd is None and du is not None:
        return s < du and e >= du
    if ds is None and dd is None and du is None:
        if c is not None and cr is not None:
            return (s <= cr or s <= c) and (e >= cr or e >= c)
        if c is not None:
            return s <= c and e >= c
        if cr is not None:
            return e > cr
        return True
    return None


def in_grammar(o):
    """well-formed object of the property's grammar (mirrors Rfc4791.wf_obj)"""
    rec = o.get("rec")
    if rec and rec["interval"] < 1:
        return False
    if o["t"] == "VEVENT":
        e = o["end"]
        if e and e[0] == "dtend":
            # DTEND = DTSTART (zero-length) is outside wf_vevent (RFC 5545 wants DTEND later) but row 1 of 9.9 is defined
            # for it and the model is faithful: kept as a boundary class for the oracle monitors
            return e[1] >= o["start"]
        if e and e[0] == "dur":
            return e[1] >= 0
        return True
    if o["t"] == "VJOURNAL":
        return True
    if o["duration"] is not None and (o["duration"] < 0 or o["dtstart"] is None or o["due"] is not None):
        return False
    if o["dtstart"] is not None and o["due"] is not None and o["due"] < o["dtstart"]:
        return False
    if rec and o["dtstart"] is None:
        return False
    if o["completed"] is not None and o["created"] is not None and o["completed"] < o["created"]:
        return False
    return True


def zero_length(o):
    return o["t"] == "VEVENT" and bool(o["end"]) and o["end"][0] == "dtend" and o["end"][1] == o["start"]


def known_f20(o, r):
    """the class of the known finding F20: recurring zero-length VEVENT (DTEND = DTSTART) and a time range starting or
    ending exactly at one of its instances: the enclosing range (first D, last D) is attained by EMPTY ranges only, so
    get_filtered's "declared matched" (start <= istart / iend <= end) answers True where 9.9 row 1 (start < D < end) says no."""
    if not zero_length(o) or not o.get("rec") or is_ext(o):
        return False
    bounds = [x for x in r if x is not None]
    if not bounds:
        return False
    occ = occurrences(o["start"], o["rec"], max(bounds) + DAY, 20000, min(bounds) - DAY)
    return any(x in occ for x in bounds)


def known_f14(o, r):
    """the class of the known finding F14: unbounded recurring VTODO whose first range begins one second before
    DTSTART (DURATION 0, or DUE = DTSTART) and a time range ending exactly at the first DTSTART instance."""
    if o["t"] != "VTODO" or not o["rec"] or o["rec"]["bound"] or o["dtstart"] is None:
        return False
    zero = (o["duration"] == 0) or (o["duration"] is None and o["due"] is not None and o["due"] == o["dtstart"])
    if not zero:
        return False
    first = occurrences(o["dtstart"], o["rec"], o["dtstart"] + 400 * DAY, 60)
    return bool(first) and r[1] == first[0]


def instance_len(o):
    """(list of offsets of interesting boundary seconds relative to an instance start)"""
    t = o["t"]
    if t == "VEVENT":
        e = o["end"]
        if e and e[0] == "dtend":
            return [0, e[1] - o["start"]]
        if e and e[0] == "dur":
            return [0, e[1], 1]
        return [0, 1, DAY] if o["kind"] == "DATE" else [0, 1]
    if t == "VJOURNAL":
        return [0, 1, DAY] if o["kind"] == "DATE" else [0, 1]
    offs = [0, 1, -1]
    if o["duration"] is not None:
        offs += [o["duration"], o["duration"] + 1, o["duration"] - 1]
    if o["due"] is not None and o["dtstart"] is not None:
        offs += [o["due"] - o["dtstart"], o["due"] - o["dtstart"] - 1]
    if o["completed"] is not None and o["created"] is not None:
        offs += [o["completed"] - o["created"], o["completed"] - o["created"] + 1, o["completed"] - o["created"] - 1]
    return offs


def ref_start(o):
    if o["t"] == "VEVENT":
        return o["start"]
    if o["t"] == "VJOURNAL":
        return o["start"]
    for k in ("dtstart", "due"):
        if o[k] is not None:
            return o[k]
    if o["completed"] is not None and o["created"] is not None:
        return o["created"]
    for k in ("completed", "created"):
        if o[k] is not None:
            return o[k]
    return None


def boundaries(o):
    """every boundary second of the object: the end points of the ranges of the first, second and last instances."""
    s0 = ref_start(o)
    if s0 is None:
        return [T0]
    if is_ext(o):
        inst = event_instances(o, s0 + 10 * DAY)
        inst = inst[:12] + inst[-2:]
        pts = [x for a, b in inst for x in (a, b)] + [ov["rid"] for ov in o.get("overrides") or []]
        return sorted(set(pts))
    occ = occurrences(s0, o.get("rec"), s0 + 30 * DAY, 40)
    if o.get("rec"):
        # also the candidates removed by EXDATE / cut by UNTIL
        p = period_of(o["rec"])
        occ = occ[:3] + occ[-2:] + [x for x in o["rec"]["ex"][:2]] + [s0 + p]
        if o["rec"]["bound"] and o["rec"]["bound"][0] == "until":
            occ.append(o["rec"]["bound"][1])
    out = []
    for D in occ:
        for off in instance_len(o):
            if D + off not in out:
                out.append(D + off)
    return out


def boundary_ranges(rng, o, n):
    """n ranges with start, end or both at and +-1 s around boundary seconds (plus a few far / inverted / empty)."""
    bs = boundaries(o)
    out = leading_gap_ranges(rng, o, max(1, n // 3))
    if zero_length(o):
        # ranges strictly around one instant of a zero-length event (the only ranges that match it)
        occ = occurrences(o["start"], o.get("rec"), o["start"] + 30 * DAY, 40)
        for _ in range(max(1, n // 3)):
            D = rng.choice(occ[:3] + occ[-2:]) if occ else o["start"]
            out.append([D - rng.choice([1, 1, 2, 3600, DAY]), D + rng.choice([1, 1, 2, 3600, DAY])])

    def pick():
        return rng.choice(bs) + rng.choice([-1, 0, 0, 1])
    while len(out) < n:
        c = rng.random()
        if c < 0.22:
            # one-second window at / next to a boundary second: "is second b+d inside?"
            a = rng.choice(bs) + rng.choice([-2, -1, -1, 0, 0, 1])
            r = [a, a + 1]
        elif c < 0.5:
            a, b = pick(), pick()
            if a > b and rng.random() < 0.8:
                a, b = b, a
            if a == b and rng.random() < 0.7:
                b = a + rng.choice([1, 2, 3600])
            r = [a, b]
        elif c < 0.68:
            r = [pick(), None]
        elif c < 0.86:
            r = [None, pick()]
        elif c < 0.94:
            a = pick() + rng.choice([-1, 1]) * rng.choice([60, 3600, DAY, 20 * DAY, 400 * DAY])
            r = [a, a + rng.choice([1, 3600, DAY, 30 * DAY])]
        elif c < 0.97:
            a = pick()
            r = [a, a - rng.choice([0, 1, 3600, 5 * DAY])]      # empty / inverted (RFC: invalid) -- model vs code only
        else:
            r = [None, None]
        out.append(r)
    return out


def proper(r):
    return (r[0] is not None or r[1] is not None) and (r[0] is None or r[1] is None or r[0] < r[1])


# ------------------------------------------------------------------------------------------ driving the real functions
def _mods():
    import vobject
    from radicale import item as ritem
    from radicale import xmlutils
    from radicale.item import filter as rfilter
    return vobject, ritem, rfilter, xmlutils


def xt_of_dt(d, rfilter):
    if d == rfilter.DATETIME_MAX:
        return "PInf"
    if d == rfilter.DATETIME_MIN:
        return "MInf"
    ts = (d - EPOCH).total_seconds()
    assert ts == int(ts), d
    return int(ts)


def xt_of_ts(ts, rfilter):
    return "PInf" if ts == rfilter.TIMESTAMP_MAX else "MInf" if ts == rfilter.TIMESTAMP_MIN else int(ts)


def parse(o):
    vobject = _mods()[0]
    return vobject.readOne(to_ics(o))


def real_record(o, limit):
    """level 1: the (start, end, is_recurrence) triples the real visit_time_ranges hands to a recording range_fn
    that cancels after `limit` calls.  Returns a list or the string 'ERR:<exception>'."""
    vobject, ritem, rfilter, _ = _mods()
    calls = []

    def range_fn(a, b, rec):
        calls.append((xt_of_dt(a, rfilter), xt_of_dt(b, rfilter), bool(rec)))
        return len(calls) >= limit
    try:
        rfilter.visit_time_ranges(parse(o), o["t"], range_fn, lambda d: False)
    except Exception as e:  # noqa
        return "ERR:%s" % type(e).__name__
    return calls


def tr_element(r):
    _, _, _, xmlutils = _mods()
    el = ET.Element(xmlutils.make_clark("C:time-range"))
    if r[0] is not None:
        el.set("start", fmt_dt(r[0]))
    if r[1] is not None:
        el.set("end", fmt_dt(r[1]))
    return el


def real_match(vo, o, r):
    rfilter = _mods()[2]
    try:
        return bool(rfilter.time_range_match(vo, tr_element(r), o["t"]))
    except Exception as e:  # noqa
        return "ERR:%s" % type(e).__name__


def real_fill(vo, o, r, n):
    rfilter = _mods()[2]
    try:
        return [(xt_of_dt(a, rfilter), xt_of_dt(b, rfilter)) for a, b in rfilter.time_range_fill(vo, tr_element(r), o["t"], n=n)]
    except Exception as e:  # noqa
        return "ERR:%s" % type(e).__name__


def real_hull(vo, o):
    _, ritem, rfilter, _ = _mods()
    try:
        a, b = ritem.find_time_range(vo, o["t"])
        return (xt_of_ts(a, rfilter), xt_of_ts(b, rfilter))
    except Exception as e:  # noqa
        return "ERR:%s" % type(e).__name__


def hrefs_of(body):
    return sorted(set(re.findall(r"<href>([^<]*)</href>", body.decode("utf-8", "replace"))))


def fb_periods(body):
    """[(start, end, fbtype)] from the VFREEBUSY components of a free-busy answer"""
    vobject = _mods()[0]
    txt = body.decode("utf-8", "replace") if isinstance(body, bytes) else body
    cal = vobject.readOne(txt)
    out = []
    for vfb in getattr(cal, "vfreebusy_list", []):
        a, b = vfb.dtstart.value, vfb.dtend.value
        ty = getattr(vfb, "fbtype", None)
        out.append((int((a - EPOCH).total_seconds()), int((b - EPOCH).total_seconds()), ty.value if ty else "BUSY"))
    return sorted(out)


def probe_ranges(o, extra_points=()):
    """exhaustive probes for the failing-input search: one-second windows and half-open ranges at and around every
    boundary second of the object (and of the ranges the implementation actually produced)."""
    pts = set(boundaries(o)) | set(p for p in extra_points if isinstance(p, int))
    out = []
    for b in sorted(pts):
        for d in (-2, -1, 0, 1):
            out.append([b + d, b + d + 1])
        out.append([b, None])
        out.append([b + 1, None])
        out.append([None, b])
        out.append([None, b + 1])
    return out


# ------------------------------------------------------------------------------------------ filters at function level
def filter_elements(fs):
    """the <C:filter> elements of a query, as the request handler hands them to simplify_prefilters / test_filter"""
    import defusedxml.ElementTree as DefusedET
    xmlutils = _mods()[3]
    root = DefusedET.fromstring(xml_query(fs))
    return root.findall(xmlutils.make_clark("C:filter"))


def real_simplify(fs):
    rfilter = _mods()[2]
    try:
        tag, a, b, simple = rfilter.simplify_prefilters(filter_elements(fs), "VCALENDAR")
    except Exception as e:  # noqa
        return "ERR:%s" % type(e).__name__
    return (tag, xt_of_ts(a, rfilter), xt_of_ts(b, rfilter), bool(simple))


def real_test_filter(o, f):
    """radicale.app.report.test_filter("VCALENDAR", item, <filter element>) on a real Item"""
    _, ritem, _, _ = _mods()
    from radicale.app import report
    try:
        it = ritem.Item(collection_path="u/c", vobject_item=parse(o))
        el = filter_elements([f])[0]
        return bool(report.test_filter("VCALENDAR", it, el))
    except Exception as e:  # noqa
        return "ERR:%s" % type(e).__name__
