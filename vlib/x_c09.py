"""C09 harness: concurrent requests against the real Application.

* `run_scripted`  -- two (or more) requests under a deterministic schedule of "turns": a turn lets one thread
  run through its next critical section.  Implemented by wrapping `storage.acquire_lock` of the Application
  instance from outside (no repo change): a serving thread parks before every acquisition and is released by the
  coordinator; at most one thread runs at any time.
* `run_stress`    -- n client threads against one Application (or several processes sharing one storage folder,
  each with its own Application) with scheduling perturbed by small sleeps injected at file-system audit events;
  invocation / response times are recorded.
* encoders for the Coq side (Model/ConcHandlers.v) and the request generators.
"""
import contextlib
import glob
import json
import multiprocessing
import os
import queue
import random
import shutil
import sys
import tempfile
import threading
import time

from vlib import impl
from vlib import x_handlers as xh

KNOWN_SPLIT = "gate-and-handler-are-separate-transactions"

# ------------------------------------------------------------------------------- worlds
# predefined collections: model (name, tag, props) <-> configuration JSON
PREDEF_VARIANTS = [
    [],
    [(20, "TCal", [(1, 1)])],
    [(20, "TCal", [(1, 1)]), (21, "TAdr", [(1, 2)])],
]


def predef_json(pre):
    out = {}
    for n, tag, props in pre:
        d = {"tag": {"TCal": "VCALENDAR", "TAdr": "VADDRESSBOOK"}[tag]}
        for k, v in props:
            d[xh.KEYS[k]] = "v%d" % v
        out[xh.COLL[n]] = d
    return json.dumps(out)


def set_policy(world):
    cfg, pols = world
    xh.POLICY.clear()
    for (uname, table), ustr in zip(pols, xh.USERS):
        for p, perm in table.items():
            xh.POLICY[(ustr or "", "/".join(xh.name_str(n) for n in p))] = perm


def server_conf(world, pre, storage_type="multifilesystem"):
    cfg, pols = world
    return {"auth": {"type": "none"},
            "rights": {"type": "vlib.x_rights", "permit_delete_collection": str(cfg[0]),
                       "permit_overwrite_collection": str(cfg[1])},
            "storage": {"type": storage_type, "predefined_collections": predef_json(pre)}}


def owner_world(rng, open_reads=False, deep=False):
    """Two users, each owning a home; optionally every user may read (and list) the other's collections.
    deep: the owner may also create plain collections below the home and collections inside those."""
    paths = [(), (10,), (11,), (10, 20), (10, 21), (10, 22), (11, 20), (11, 21), (11, 22)]
    if deep:
        paths += [(10, 20, 21), (10, 22, 20), (10, 20, 22)]
    pols = [(None, {p: "" for p in paths})]
    for ui, u in ((1, 10), (2, 11)):
        t = {}
        for p in paths:
            if p == ():
                t[p] = "R"
            elif p[0] == u:
                t[p] = "RW" if len(p) == 1 else ("RWrw" if deep else "rw")
            else:
                t[p] = ("R" if len(p) == 1 else "r") if open_reads else ""
        pols.append((u, t))
    return (True, True), pols


# ------------------------------------------------------------------------------- scripted schedules
class Scripted:
    """Runs `reqs` (list of (user index, abstract request)) concurrently on `srv`, one thread each, under the turn
    schedule `turns` (list of thread indices).  Returns the canonical responses (None if a thread died)."""

    TIMEOUT = 30

    def __init__(self, srv, etags):
        self.srv = srv
        self.etags = etags
        self.log = []           # (thread index, "acquire m" | "release" | "parked" | "done")

    def run(self, reqs, turns):
        st = self.srv.application._storage
        orig = st.acquire_lock
        n = len(reqs)
        go = [threading.Semaphore(0) for _ in range(n)]
        reports = [queue.Queue() for _ in range(n)]
        index = {}
        results = [None] * n
        errors = [None] * n
        me = self

        @contextlib.contextmanager
        def wrapped(mode, user="", *a, **k):
            i = index.get(threading.get_ident())
            if i is None:
                with orig(mode, user, *a, **k):
                    yield
                return
            reports[i].put("parked")
            if not go[i].acquire(timeout=me.TIMEOUT):
                raise RuntimeError("scripted scheduler: thread %d never got its turn" % i)
            me.log.append((i, "acquire " + mode))
            with orig(mode, user, *a, **k):
                yield
            me.log.append((i, "release"))

        def body(i):
            index[threading.get_ident()] = i
            try:
                runner = xh.Runner(self.etags)
                results[i] = runner.one(self.srv, reqs[i][0], reqs[i][1])
            except BaseException as e:  # noqa
                errors[i] = repr(e)
            finally:
                reports[i].put("done")

        st.acquire_lock = wrapped
        try:
            threads = [threading.Thread(target=body, args=(i,), daemon=True) for i in range(n)]
            state = [None] * n
            # start the threads one after the other: each runs its pre-part and parks at its first acquisition
            for i, t in enumerate(threads):
                t.start()
                state[i] = reports[i].get(timeout=self.TIMEOUT)
            for i in list(turns) + [j for j in range(n) for _ in range(4)]:
                if state[i] == "parked":
                    go[i].release()
                    state[i] = reports[i].get(timeout=self.TIMEOUT)
            for t in threads:
                t.join(self.TIMEOUT)
        finally:
            st.acquire_lock = orig
        self.errors = errors
        return results


def run_scripted(world, pre, setup, reqs, turns, etags, storage_type="multifilesystem"):
    """-> dict(setup=[cresp], resps=[cresp|None], store=cstore, log=[...], errors=[...])"""
    set_policy(world)
    with impl.Server(conf=server_conf(world, pre, storage_type)) as srv:
        runner = xh.Runner(etags)
        outs = [runner.one(srv, ui, r) for ui, r in setup]
        sc = Scripted(srv, etags)
        resps = sc.run(reqs, turns)
        store = xh.dump_store(srv.folder, etags)
        return dict(setup=outs, resps=resps, store=store, log=sc.log, errors=sc.errors)


def merges(a, b):
    """All interleavings of the sequences a and b (each kept in order)."""
    if not a:
        return [list(b)]
    if not b:
        return [list(a)]
    return [[a[0]] + m for m in merges(a[1:], b)] + [[b[0]] + m for m in merges(a, b[1:])]


# ------------------------------------------------------------------------------- perturbation
_PERTURB = {"on": False, "p": 0.0, "max_us": 0, "installed": False}
_tls = threading.local()
_EVENTS = ("open", "os.rename", "os.replace", "os.mkdir", "os.scandir", "os.listdir", "os.remove", "os.rmdir",
           "fcntl.flock", "os.utime")


def _audit(event, args):
    if not _PERTURB["on"] or event not in _EVENTS:
        return
    rng = getattr(_tls, "rng", None)
    if rng is None:
        return
    if rng.random() < _PERTURB["p"]:
        time.sleep(rng.randrange(1, _PERTURB["max_us"] + 1) / 1e6)


def install_perturbation():
    if not _PERTURB["installed"]:
        sys.addaudithook(_audit)
        _PERTURB["installed"] = True


# ------------------------------------------------------------------------------- stress
def _client(srv, etags, ops, seed, barrier, out, tid):
    _tls.rng = random.Random(seed)
    runner = xh.Runner(etags)
    res = []
    try:
        barrier.wait(30)
        for ui, r in ops:
            if _tls.rng.random() < 0.5:
                time.sleep(_tls.rng.randrange(0, 1500) / 1e6)
            t0 = time.monotonic_ns()
            try:
                c = runner.one(srv, ui, r)
            except BaseException as e:  # noqa
                c = ("S500", ("CPNone",), repr(e))
            t1 = time.monotonic_ns()
            res.append((ui, r, t0, t1, c[:2]))
    finally:
        _tls.rng = None
        out[tid] = res


def run_stress_threads(world, pre, setup, thread_ops, etags, seed, storage_type="multifilesystem", perturb=(0.15, 1200)):
    """thread_ops: list (one entry per client thread) of lists of (ui, request).
    -> dict(setup=[cresp], ops=[(ui, r, t_inv, t_ret, cresp)], store=cstore)"""
    set_policy(world)
    install_perturbation()
    with impl.Server(conf=server_conf(world, pre, storage_type)) as srv:
        runner = xh.Runner(etags)
        outs = [runner.one(srv, ui, r) for ui, r in setup]
        n = len(thread_ops)
        barrier = threading.Barrier(n)
        out = {}
        threads = [threading.Thread(target=_client, args=(srv, etags, thread_ops[i], seed * 1000 + i, barrier, out, i), daemon=True)
                   for i in range(n)]
        _PERTURB.update(on=True, p=perturb[0], max_us=perturb[1])
        old_interval = sys.getswitchinterval()
        try:
            sys.setswitchinterval(2e-5)          # many more thread switches inside the Python code of the server
            for t in threads:
                t.start()
            for t in threads:
                t.join(120)
        finally:
            _PERTURB["on"] = False
            sys.setswitchinterval(old_interval)
        ops = [o for i in range(n) for o in out.get(i, [])]
        store = xh.dump_store(srv.folder, etags)
        return dict(setup=outs, ops=ops, store=store)


def _proc_main(folder, conf, policy, etags, thread_ops, seed, barrier, conn, perturb):
    try:
        xh.POLICY.clear()
        xh.POLICY.update(policy)
        install_perturbation()
        srv = impl.Server(conf=conf, folder=folder)
        n = len(thread_ops)
        inner = threading.Barrier(n + 1)
        out = {}
        threads = [threading.Thread(target=_client, args=(srv, etags, thread_ops[i], seed * 1000 + i, inner, out, i), daemon=True)
                   for i in range(n)]
        _PERTURB.update(on=True, p=perturb[0], max_us=perturb[1])
        for t in threads:
            t.start()
        barrier.wait(30)          # all processes ready
        inner.wait(30)
        for t in threads:
            t.join(120)
        conn.send([o for i in range(n) for o in out.get(i, [])])
    except BaseException as e:  # noqa
        conn.send(("error", repr(e)))
    finally:
        conn.close()


def run_stress_procs(world, pre, setup, proc_thread_ops, etags, seed, perturb=(0.15, 1200), cache_mode="none"):
    """proc_thread_ops: per process, per thread, list of (ui, request).  Every process has its own Application
    over the SAME storage folder (multifilesystem, flock)."""
    set_policy(world)
    folder = tempfile.mkdtemp(prefix="rv-c09-shared-")
    try:
        conf = server_conf(world, pre, "multifilesystem")
        with impl.Server(conf=conf, folder=folder) as srv:
            runner = xh.Runner(etags)
            outs = [runner.one(srv, ui, r) for ui, r in setup]
        ctx = multiprocessing.get_context("fork")
        barrier = ctx.Barrier(len(proc_thread_ops))
        procs, conns = [], []
        for k, tops in enumerate(proc_thread_ops):
            parent, child = ctx.Pipe(duplex=False)
            cache = {"none": None, "shared": folder + "-cache", "distinct": folder + "-cache%d" % k}[cache_mode]
            if cache:
                os.makedirs(cache, exist_ok=True)
            p = ctx.Process(target=_proc_main, args=(folder, storage_variant(conf, cache), dict(xh.POLICY), etags, tops, seed * 100 + k,
                                                     barrier, child, perturb), daemon=True)
            p.start()
            child.close()
            procs.append(p)
            conns.append(parent)
        ops, errors = [], []
        for p, c in zip(procs, conns):
            try:
                if c.poll(150):
                    got = c.recv()
                    if isinstance(got, tuple) and got and got[0] == "error":
                        errors.append(got[1])
                    else:
                        ops += got
                else:
                    errors.append("process timed out")
            except EOFError:
                errors.append("process died")
            p.join(10)
            if p.is_alive():
                p.kill()
        store = xh.dump_store(folder, etags)
        return dict(setup=outs, ops=ops, store=store, errors=errors)
    finally:
        shutil.rmtree(folder, ignore_errors=True)
        for d in glob.glob(folder + "-cache*"):
            shutil.rmtree(d, ignore_errors=True)


# ------------------------------------------------------------------------------- generation
CAL_EVENTS = [(u, "CEvent", c) for u in range(3) for c in range(2)]


def gen_setup(rng, level):
    """Sequential prefix.  level 0: nothing (first logins race); 1: homes only; 2: homes, a calendar with items,
    an address book."""
    s = []
    if level >= 1:
        s += [(1, ("RPropfind", (10,), False)), (2, ("RPropfind", (11,), False))]
    if level >= 2:
        s += [(1, ("RMkcalendar", (10, 20), ("XProps", ("TRNone",), [(1, 0)]))),
              (1, ("RMkcol", (10, 21), ("XProps", ("TRSet", "TAdr"), []))),
              (2, ("RMkcalendar", (11, 20), ("XNone",)))]
        for k in range(rng.randrange(0, 3)):
            s.append((1, ("RPut", (10, 20, 100 + k), "CTNone", ("BCal", [(k, "CEvent", 0)]), ("CNone",), False)))
        if rng.random() < 0.5:
            s.append((1, ("RPut", (10, 21, 200), "CTNone", ("BCards", [(0, "CCard", 0)]), ("CNone",), False)))
    return s


def gen_request(rng, ui=None, allow_home_delete=False, reads=0.35):
    """One abstract request on the small shared universe (conflicts are the point)."""
    if ui is None:
        ui = rng.choice([1, 1, 1, 2])
    home = 10 if ui == 1 else 11
    if rng.random() < 0.12:
        home = 21 - home          # the other user's home
    cal = (home, rng.choice([20, 20, 20, 22]))
    adr = (home, 21)
    k = rng.random()
    if k < reads:
        kind = rng.random()
        if kind < 0.35:
            return ui, ("RPropfind", rng.choice([cal, cal, (home,), adr]), True)
        if kind < 0.5:
            return ui, ("RPropfind", rng.choice([cal, (home,), cal + (100,)]), False)
        if kind < 0.75:
            return ui, ("RGet", rng.choice([cal, cal + (100 + rng.randrange(3),), adr]))
        return ui, ("RMultiget", cal, True, [cal + (100 + rng.randrange(3),) for _ in range(rng.randrange(1, 3))])
    k = rng.random()
    if k < 0.38:
        u = rng.randrange(3)
        name = 100 + (u if rng.random() < 0.7 else rng.randrange(3))
        o = (u, rng.choice(["CEvent", "CEvent", "CTodo"]), rng.randrange(2))
        im = ("CNone",)
        inm = rng.random() < 0.45
        if not inm and rng.random() < 0.25:
            im = rng.choice([("CTag", ("EtItem", rng.choice(CAL_EVENTS))), ("CTag", ("EtBogus",))])
        return ui, ("RPut", cal + (name,), "CTNone", ("BCal", [o]), im, inm)
    if k < 0.46:
        return ui, ("RPut", adr + (200 + rng.randrange(2),), "CTNone", ("BCards", [(rng.randrange(2), "CCard", rng.randrange(2))]),
                    ("CNone",), rng.random() < 0.4)
    if k < 0.56:
        objs = [(u, rng.choice(["CEvent", "CTodo"]), rng.randrange(2)) for u in rng.sample(range(3), rng.randrange(0, 4))]
        return ui, ("RPut", cal, "CTCal", ("BCal", objs), ("CNone",), False)          # replace the whole calendar
    if k < 0.66:
        tgt = cal + (100 + rng.randrange(3),)
        im = ("CNone",) if rng.random() < 0.7 else ("CTag", ("EtItem", rng.choice(CAL_EVENTS)))
        return ui, ("RDelete", tgt, im)
    if k < 0.71:
        if allow_home_delete and rng.random() < 0.5:
            return ui, ("RDelete", (home,), ("CNone",))
        return ui, ("RDelete", cal, ("CNone",))
    if k < 0.80:
        return ui, ("RMkcalendar", cal, rng.choice([("XNone",), ("XProps", ("TRNone",), [(1, rng.randrange(3))])]))
    if k < 0.92:
        return ui, ("RProppatch", cal, ("XProps", ("TRNone",), [(rng.choice([1, 2, 3]), rng.choice([0, 1, 2, None]))]))
    src = cal + (100 + rng.randrange(3),)
    dst = rng.choice([cal, (home, 22)]) + (100 + rng.randrange(3),)
    return ui, ("RMove", src, True, dst, rng.random() < 0.5)


# ------------------------------------------------------------------------------- Coq encoders
def enc_pre(pre):
    if not pre:
        return "(@nil (name * tag * list (N * N)))"
    return "[" + ";".join("(%d%%N, %s, [%s])" % (n, t, ";".join("(%d%%N, %d%%N)" % kv for kv in props)) for n, t, props in pre) + "]"


def enc_cworld(world, pre, fixed=True):
    return "(mkCW %s %s %s)" % (xh.enc_world(world), enc_pre(pre), "true" if fixed else "false")


def enc_ureqs(l):
    if not l:
        return "(@nil ureq)"
    return "[" + ";".join("(%d%%N, %s)" % (ui, xh.enc_request(r)) for ui, r in l) + "]"


def enc_turns(t):
    if not t:
        return "(@nil nat)"
    return "[" + ";".join("%d" % i for i in t) + "]%nat"


def enc_ocresps(l):
    if not l:
        return "(@nil (option cresp))"
    return "[" + ";".join("None" if c is None else "(Some %s)" % xh.enc_cresp(c) for c in l) + "]"


def enc_sched_case(case):
    world, pre, setup, reqs, turns = case
    return "(%s, %s, %s, %s)" % (enc_cworld(world, pre), enc_ureqs(setup), enc_ureqs(reqs), enc_turns(turns))


def enc_sched_out(out):
    store, setup_resps, resps = out
    return "((%s : cstore), (%s : list cresp), %s)" % (xh.enc_cstore(store), xh.enc_cresps(setup_resps), enc_ocresps(resps))


def enc_ops(ops, t0):
    """ops: (ui, r, t_inv, t_ret, cresp); times become small N (microseconds since t0)."""
    if not ops:
        return "(@nil op)"
    return "[" + ";".join("(mkOp (%d%%N, %s) %d%%N %d%%N %s)" % (ui, xh.enc_request(r), (a - t0) // 1000, (b - t0) // 1000 + 1,
                                                                  xh.enc_cresp(c)) for ui, r, a, b, c in ops) + "]"


def enc_hist_case(case):
    world, pre, setup, ops, store = case
    t0 = min([o[2] for o in ops] or [0])
    return "(%s, %s, %s, (%s : cstore))" % (enc_cworld(world, pre), enc_ureqs(setup), enc_ops(ops, t0), xh.enc_cstore(store))


COQ_HEADER = """From Coq Require Import List NArith Bool.
Import ListNotations.
Require Import RV.Model.Conc.
Require Import RV.Lib.PyStr RV.Model.Store RV.Model.Handlers RV.Model.HandlersCanon RV.Model.ConcHandlers.
Open Scope N_scope.
Definition sched_case := (cworld * list ureq * list ureq * list nat)%type.
Definition run_sched (c : sched_case) : cstore * list cresp * list (option cresp) :=
  let '(w, setup, rs, turns) := c in predict w setup rs turns.
Definition run_sched_unfixed (c : sched_case) : cstore * list cresp * list (option cresp) :=
  let '(w, setup, rs, turns) := c in predict (mkCW (cw_world w) (cw_pre w) false) setup rs turns.
Definition ocresp_eqb2 (a b : option cresp) : bool :=
  match a, b with Some x, Some y => cresp_eqb x y | None, None => true | _, _ => false end.
Definition pred_eqb (a b : cstore * list cresp * list (option cresp)) : bool :=
  cstore_eqb (fst (fst a)) (fst (fst b)) && list_eqb cresp_eqb (snd (fst a)) (snd (fst b))
  && list_eqb ocresp_eqb2 (snd a) (snd b).
(* is the observed outcome of the concurrent requests that of some one-at-a-time execution? *)
Definition ser_case (c : sched_case) (o : cstore * list cresp * list (option cresp)) : bool :=
  let '(w, setup, rs, turns) := c in
  serialisable w setup rs (map (fun x => match x with Some r => r | None => (S500, CPNone) end) (snd o)) (fst (fst o)).
Definition both_ok (c : sched_case) (o : cstore * list cresp * list (option cresp)) : bool :=
  pred_eqb (run_sched c) o && ser_case c o.
Definition hist_case := (cworld * list ureq * list op * cstore)%type.
Definition lin_case (c : hist_case) : N := let '(w, setup, ops, st) := c in lin_verdict w setup ops st 6000.
"""


# ------------------------------------------------------------------------------- several server instances, one folder
def storage_variant(conf, folder_cache):
    """conf with [storage] filesystem_cache_folder set (None = option not set)."""
    c = {k: dict(v) for k, v in conf.items()}
    if folder_cache:
        c["storage"]["filesystem_cache_folder"] = folder_cache
    return c


_PARK = {"on": False, "ident": None, "inside": None, "resume": None, "holds": None}


def _audit_park(event, args):
    """Parks thread A at its first rename / replace into the collection data (not the cache): it has read the old
    state and is about to publish the new one, holding the exclusive lock."""
    if not _PARK["on"] or event != "os.rename" or _PARK["ident"] not in ("any", threading.get_ident()):
        return
    dst = args[1] if len(args) > 1 else None
    if not isinstance(dst, str) or ".Radicale.cache" in dst or "collection-cache" in dst:
        return
    _PARK["on"] = False
    _PARK["holds"].set()
    _PARK["inside"].set()
    _PARK["resume"].wait(30)
    _PARK["holds"].clear()


class _FcntlProxy:
    """Stands in for the `fcntl` name of radicale/pathutils.py: the flock() calls of the thread that has
    `_tls.flock_errno` set fail with that errno (ENOLCK on NFS, ENOTSUP on FUSE, EIO ...), as a fault at that one
    system call would."""

    def __init__(self, real):
        self._real = real

    def __getattr__(self, name):
        return getattr(self._real, name)

    def flock(self, fd, cmd):
        e = getattr(_tls, "flock_errno", None)
        if e is not None:
            _tls.flock_faults = getattr(_tls, "flock_faults", 0) + 1
            raise OSError(e, os.strerror(e))
        return self._real.flock(fd, cmd)


def run_two_instances(world, pre, setup, req_a, req_b, etags, cache_mode="none", construct_late=False, wait=0.25, park="enter",
                      flock_errno=None):
    """Two Applications over ONE storage folder (multifilesystem: flock), as two server processes would be.
    Instance 1 serves A; A is parked INSIDE its first exclusive critical section (it holds the storage lock).
    Then (construct_late: instance 2 is constructed only now -- a worker started while a request is in flight)
    instance 2 serves B in another thread.  B must not enter any critical section before A has left its own.
    cache_mode: "none" (option not set), "shared" (one cache folder), "distinct" (one cache folder per instance).
    flock_errno: every flock() of instance 2's request fails with this errno (fault injection at that system call): the
    request must then FAIL (and change nothing), it must not run without the lock.
    -> dict(entered_while_held=[...], resps=[cA, cB], store, errors)"""
    import radicale.pathutils as rpath
    real_fcntl = rpath.fcntl._real if isinstance(rpath.fcntl, _FcntlProxy) else rpath.fcntl
    if flock_errno is not None:
        rpath.fcntl = _FcntlProxy(real_fcntl)
    set_policy(world)
    folder = tempfile.mkdtemp(prefix="rv-c09-inst-")
    caches = {"none": (None, None), "shared": (folder + "-cache", folder + "-cache"),
              "distinct": (folder + "-cache1", folder + "-cache2")}[cache_mode]
    base = server_conf(world, pre, "multifilesystem")
    try:
        for c in set(caches):
            if c:
                os.makedirs(c, exist_ok=True)          # the administrator created the (host-local) cache folders
        srv1 = impl.Server(conf=storage_variant(base, caches[0]), folder=folder)
        runner = xh.Runner(etags)
        outs = [runner.one(srv1, ui, r) for ui, r in setup]
        srv2 = None if construct_late else impl.Server(conf=storage_variant(base, caches[1]), folder=folder)
        inside = threading.Event()
        resume = threading.Event()
        a_holds = threading.Event()
        events = []
        res = [None, None]
        errors = [None, None]
        ident = {}

        def wrap(srv, who):
            st = srv.application._storage
            orig = st.acquire_lock

            @contextlib.contextmanager
            def wrapped(mode, user="", *a, **k):
                if ident.get(threading.get_ident()) != who:
                    with orig(mode, user, *a, **k):
                        yield
                    return
                with orig(mode, user, *a, **k):
                    events.append((who, "acquired " + mode, a_holds.is_set()))
                    if park == "enter" and who == "A" and mode == "w" and not inside.is_set():
                        a_holds.set()
                        inside.set()
                        resume.wait(30)
                        a_holds.clear()
                    yield
            st.acquire_lock = wrapped

        def body(k, srv_get, who, q):
            ident[threading.get_ident()] = who
            if who == "B" and flock_errno is not None:
                _tls.flock_errno = flock_errno
            if who == "A" and park == "rename":
                if not _PARK.get("installed"):
                    sys.addaudithook(_audit_park)
                    _PARK["installed"] = True
                _PARK.update(ident=threading.get_ident(), inside=inside, resume=resume, holds=a_holds, on=True)
            try:
                res[k] = xh.Runner(etags).one(srv_get(), q[0], q[1])
            except BaseException as e:  # noqa
                errors[k] = repr(e)
            finally:
                _tls.flock_errno = None

        wrap(srv1, "A")
        ta = threading.Thread(target=body, args=(0, lambda: srv1, "A", req_a), daemon=True)
        ta.start()
        parked = inside.wait(1.5)
        if construct_late:
            srv2 = impl.Server(conf=storage_variant(base, caches[1]), folder=folder)
        wrap(srv2, "B")
        tb = threading.Thread(target=body, args=(1, lambda: srv2, "B", req_b), daemon=True)
        tb.start()
        tb.join(wait if parked else 0)
        b_done_while_held = parked and not tb.is_alive()
        resume.set()
        ta.join(30)
        tb.join(30)
        _PARK["on"] = False
        entered = [e for e in events if e[0] == "B" and e[2]]
        store = xh.dump_store(folder, etags)
        return dict(setup=outs, resps=res, store=store, errors=errors, parked=parked, events=events,
                    entered_while_held=entered, b_done_while_held=b_done_while_held)
    finally:
        rpath.fcntl = real_fcntl
        shutil.rmtree(folder, ignore_errors=True)
        for c in set(caches):
            if c:
                shutil.rmtree(c, ignore_errors=True)


# ------------------------------------------------------------------------------- concurrent readers on cold caches
_RDV = {"on": False, "lock": threading.Lock(), "barriers": {}, "timeout": 0.15}


def _audit_rendezvous(event, args):
    """Readers write cache / sync-token files under the SHARED lock.  Two threads about to publish the same cache file
    (os.replace / os.rename into .Radicale.cache) wait for each other a moment, so that both have their temporary file
    written before either renames it."""
    if not _RDV["on"] or event != "os.rename":
        return
    n = getattr(_tls, "rdv_left", 0)
    if n <= 0:
        return
    dst = args[1] if len(args) > 1 else None
    if not isinstance(dst, str) or ".Radicale.cache" not in dst:
        return
    _tls.rdv_left = n - 1
    with _RDV["lock"]:
        b = _RDV["barriers"].get(dst)
        if b is None or b.broken:
            b = _RDV["barriers"][dst] = threading.Barrier(2)
    try:
        b.wait(_RDV["timeout"])
    except threading.BrokenBarrierError:
        pass


class _YieldingBytesIO(__import__("io").BytesIO):
    """Output buffer that gives other threads a chance at every write (a loaded server)."""

    def write(self, data):
        time.sleep(0)
        return super().write(data)


class _IoProxy:
    def __init__(self, real):
        self._real = real
        self.BytesIO = _YieldingBytesIO

    def __getattr__(self, name):
        return getattr(self._real, name)


def raw_request(srv, method, path, body, login, depth=None):
    kw = {}
    if depth is not None:
        kw["HTTP_DEPTH"] = depth
    st, h, b = srv.request(method, path, data=body, login=login, **kw)
    return st, b


SYNC_BODY = ('<?xml version="1.0" encoding="utf-8" ?><sync-collection xmlns="DAV:"><prop><getetag/></prop>'
             '<sync-token/></sync-collection>').replace("<sync-token/>", "")
PROPFIND_TOKEN = ('<?xml version="1.0"?><D:propfind xmlns:D="DAV:" xmlns:CS="http://calendarserver.org/ns/"><D:prop>'
                  '<D:sync-token/><CS:getctag/><D:getetag/></D:prop></D:propfind>')
QUERY_BODY = ('<?xml version="1.0" encoding="utf-8" ?><C:calendar-query xmlns:D="DAV:" xmlns:C="urn:ietf:params:xml:ns:caldav">'
              '<D:prop><D:getetag/><C:calendar-data/></D:prop><C:filter><C:comp-filter name="VCALENDAR"/></C:filter></C:calendar-query>')


def reader_requests(user):
    cal = "/%s/cal/" % user
    return [("REPORT", cal, SYNC_BODY, None), ("PROPFIND", cal, PROPFIND_TOKEN, "1"), ("REPORT", cal, QUERY_BODY, None),
            ("GET", cal, None, None), ("PROPFIND", "/%s/" % user, PROPFIND_TOKEN, "1")]


def run_concurrent_readers(n_items, plan, storage_type="multifilesystem", rounds=1, yielding=True, seed=0):
    """Two users with a calendar each (n_items events).  plan: list (one per thread) of (user, request index).
    Each round: the store gets a new state (one more event per user: cold sync-token, cold item cache for it), all
    threads issue their read-only request at the same time (barrier at the start, rendezvous at the rename that
    publishes a cache file, yielding response buffers, tiny switch interval); afterwards every request is issued
    alone: a read-only request has one answer for a given store, the concurrent answers must be that answer.
    -> list of dict(round, thread, user, request, concurrent=(status, body), alone=(status, body))"""
    import radicale.app.base as app_base
    from radicale.app.base import io as real_io
    install_perturbation()
    if not _RDV.get("installed"):
        sys.addaudithook(_audit_rendezvous)
        _RDV["installed"] = True
    conf = {"auth": {"type": "none"}, "rights": {"type": "owner_only"}, "storage": {"type": storage_type}}
    bad = []
    old_interval = sys.getswitchinterval()
    with impl.Server(conf=conf) as srv:
        try:
            if yielding:
                app_base.io = _IoProxy(real_io if not isinstance(real_io, _IoProxy) else real_io._real)
                srv.reconfigure({})            # objects created in __init__ see the perturbed namespace too
            users = sorted({u for u, _ in plan})
            for u in users:
                assert srv.mkcalendar("/%s/cal/" % u, login=u + ":") == 201
                for i in range(n_items):
                    assert srv.put("/%s/cal/e%d.ics" % (u, i), impl.event("%s-e%d" % (u, i), "private of " + u), login=u + ":")[0] == 201
            sys.setswitchinterval(1e-5)
            for rnd in range(rounds):
                for u in users:
                    assert srv.put("/%s/cal/r%d.ics" % (u, rnd), impl.event("%s-r%d" % (u, rnd), "private of " + u), login=u + ":")[0] == 201
                barrier = threading.Barrier(len(plan))
                got = [None] * len(plan)

                def body(k, u, q):
                    _tls.rdv_left = 2
                    try:
                        barrier.wait(10)
                        m, p, b, d = reader_requests(u)[q]
                        got[k] = raw_request(srv, m, p, b, u + ":", d)
                    except BaseException as e:  # noqa
                        got[k] = (599, repr(e).encode())
                    finally:
                        _tls.rdv_left = 0
                _RDV["on"] = True
                _RDV["barriers"].clear()
                ths = [threading.Thread(target=body, args=(k, u, q), daemon=True) for k, (u, q) in enumerate(plan)]
                for t in ths:
                    t.start()
                for t in ths:
                    t.join(30)
                _RDV["on"] = False
                for k, (u, q) in enumerate(plan):
                    m, p, b, d = reader_requests(u)[q]
                    alone = raw_request(srv, m, p, b, u + ":", d)
                    if got[k] != alone:
                        bad.append(dict(round=rnd, thread=k, user=u, request=[m, p, d], concurrent_status=got[k][0] if got[k] else None,
                                        alone_status=alone[0], concurrent_body=(got[k][1] if got[k] else b"").decode("utf-8", "replace")[:1500],
                                        alone_body=alone[1].decode("utf-8", "replace")[:1500]))
        finally:
            _RDV["on"] = False
            sys.setswitchinterval(old_interval)
            if yielding:
                app_base.io = real_io if not isinstance(real_io, _IoProxy) else real_io._real
    return bad


# ------------------------------------------------------------------------------- two readers, one cold / stale item-cache entry
class _PickleProxy:
    """Stands in for the `pickle` name of radicale/storage/multifilesystem/cache.py: reader 1 pauses between opening
    the cache entry for writing and dumping into it, until reader 2 has had its (lock-free) look at the entry."""

    def __init__(self, real, dumping, looked):
        self._real = real
        self._dumping = dumping
        self._looked = looked

    def __getattr__(self, name):
        return getattr(self._real, name)

    def dump(self, obj, f, *a, **k):
        if getattr(_tls, "role", None) == 1 and not self._dumping.is_set():
            self._dumping.set()
            self._looked.wait(0.3)
        return self._real.dump(obj, f, *a, **k)

    def load(self, f, *a, **k):
        try:
            return self._real.load(f, *a, **k)
        finally:
            if getattr(_tls, "role", None) == 2:
                self._looked.set()


def run_cold_item_readers(storage_type, variant, req_kind, rounds=2):
    """An event is stored; its item-cache entry is made COLD (the cache folder of the collection is removed: cache
    clean-up, new cache version) or STALE (the item file is edited from outside).  Reader 1 and reader 2 read the item
    at the same time (both under the shared lock); reader 2 looks at the cache entry exactly while reader 1 is writing
    it.  Every answer must be the answer of the same request alone.  -> list of differing answers"""
    import radicale.storage.multifilesystem.cache as cache_mod
    conf = {"auth": {"type": "none"}, "rights": {"type": "owner_only"}, "storage": {"type": storage_type}}
    real_pickle = cache_mod.pickle._real if isinstance(cache_mod.pickle, _PickleProxy) else cache_mod.pickle
    bad = []
    reqs = {"get": ("GET", "/u/cal/e0.ics", None, None), "query": ("REPORT", "/u/cal/", QUERY_BODY, None),
            "multiget": ("REPORT", "/u/cal/", ('<?xml version="1.0"?><C:calendar-multiget xmlns:D="DAV:" xmlns:C="urn:ietf:params:xml:ns:caldav">'
                                               '<D:prop><D:getetag/><C:calendar-data/></D:prop><D:href>/u/cal/e0.ics</D:href></C:calendar-multiget>'), None)}
    m, p, b, d = reqs[req_kind]
    with impl.Server(conf=conf) as srv:
        try:
            assert srv.mkcalendar("/u/cal/", login="u:") == 201
            assert srv.put("/u/cal/e0.ics", impl.event("e0", "round -1"), login="u:")[0] == 201
            coll = os.path.join(srv.folder, "collection-root", "u", "cal")
            for rnd in range(rounds):
                if variant == "cold":
                    shutil.rmtree(os.path.join(coll, ".Radicale.cache", "item"), ignore_errors=True)
                else:
                    with open(os.path.join(coll, "e0.ics"), "w", newline="") as f:
                        f.write(impl.event("e0", "edited outside %d" % rnd))
                dumping, looked = threading.Event(), threading.Event()
                cache_mod.pickle = _PickleProxy(real_pickle, dumping, looked)
                got = [None, None]

                def body(k):
                    _tls.role = k + 1
                    try:
                        if k == 1:
                            dumping.wait(0.5)
                        got[k] = raw_request(srv, m, p, b, "u:", d)
                    except BaseException as e:  # noqa
                        got[k] = (599, repr(e).encode())
                    finally:
                        _tls.role = None
                        if k == 1:
                            looked.set()
                ths = [threading.Thread(target=body, args=(k,), daemon=True) for k in range(2)]
                for t in ths:
                    t.start()
                for t in ths:
                    t.join(30)
                cache_mod.pickle = real_pickle
                alone = raw_request(srv, m, p, b, "u:", d)
                for k in range(2):
                    if got[k] != alone:
                        bad.append(dict(round=rnd, reader=k + 1, request=[m, p], variant=variant, storage_type=storage_type,
                                        reader1_was_writing_the_entry=dumping.is_set(), concurrent_status=got[k][0] if got[k] else None,
                                        alone_status=alone[0], concurrent_body=(got[k][1] if got[k] else b"").decode("utf-8", "replace")[:800],
                                        alone_body=alone[1].decode("utf-8", "replace")[:800]))
        finally:
            cache_mod.pickle = real_pickle
    return bad


# ------------------------------------------------------------------------------- the real serve() with several listening sockets
class _HttpSrv:
    """Looks like impl.Server to x_handlers.Runner, but sends the request over HTTP to one listening socket."""

    def __init__(self, port, folder=None):
        self.port = port
        self.folder = folder

    def request(self, method, path, data=None, login=None, environ=None, **headers):
        import base64
        import http.client
        from urllib.parse import quote
        hdrs = {}
        for k, v in headers.items():
            k = k.upper()
            name = k[5:] if k.startswith("HTTP_") else k
            hdrs["-".join(w.capitalize() for w in name.split("_"))] = v
        # the in-process Runner fakes HTTP_HOST = 127.0.0.1 (port 80 implied) and spells a LOCAL MOVE destination
        # http://127.0.0.1/...; over a real socket the client sends Host: 127.0.0.1:<port> and the local destination
        # carries the same host:port (a destination on another host stays what it is)
        hdrs.pop("Host", None)
        local = "http://127.0.0.1/"
        if hdrs.get("Destination", "").startswith(local):
            hdrs["Destination"] = "http://127.0.0.1:%d/" % self.port + hdrs["Destination"][len(local):]
        if login:
            hdrs["Authorization"] = "Basic " + base64.b64encode(login.encode("utf-8")).decode()
        body = None if data is None else (data if isinstance(data, bytes) else data.encode("utf-8"))
        c = http.client.HTTPConnection("127.0.0.1", self.port, timeout=30)
        try:
            c.request(method, quote(path), body=body, headers=hdrs)
            r = c.getresponse()
            return r.status, dict(r.getheaders()), r.read()
        finally:
            c.close()


def _free_ports(n):
    import socket
    socks = [socket.socket() for _ in range(n)]
    try:
        for s in socks:
            s.bind(("127.0.0.1", 0))
        return [s.getsockname()[1] for s in socks]
    finally:
        for s in socks:
            s.close()


def run_served_pair(world, pre, setup, req_a, req_b, etags, storage_type="multifilesystem_nolock", wait=0.3):
    """The REAL radicale.server.serve() with two listening sockets (hosts = 127.0.0.1:p1, 127.0.0.1:p2) in a thread of
    this process.  Request A goes to socket 1 and is parked at its first rename into the collection data (it has read
    the old state and holds the exclusive lock); request B goes to socket 2; then A continues.
    -> dict(setup, resps=[cA, cB], store, b_done_while_a_parked, errors)"""
    import socket
    from radicale import server as rserver
    set_policy(world)
    if not _PARK.get("installed"):
        sys.addaudithook(_audit_park)
        _PARK["installed"] = True
    p1, p2 = _free_ports(2)
    conf = server_conf(world, pre, storage_type)
    conf["server"] = {"hosts": "127.0.0.1:%d,127.0.0.1:%d" % (p1, p2)}
    holder = impl.Server(conf=conf)
    sd_out, sd_in = socket.socketpair()
    errors = []

    def serve():
        try:
            rserver.serve(holder.configuration, sd_out)
        except BaseException as e:  # noqa
            errors.append("serve: %r" % (e,))
    th = threading.Thread(target=serve, daemon=True)
    th.start()
    try:
        for _ in range(100):              # wait until both sockets accept
            try:
                for p in (p1, p2):
                    socket.create_connection(("127.0.0.1", p), timeout=1).close()
                break
            except OSError:
                time.sleep(0.05)
        s1, s2 = _HttpSrv(p1, holder.folder), _HttpSrv(p2, holder.folder)
        runner = xh.Runner(etags)
        outs = [runner.one(s1, ui, r) for ui, r in setup]
        inside, resume, holds = threading.Event(), threading.Event(), threading.Event()
        res = [None, None]

        def client(k, srv, q):
            try:
                res[k] = xh.Runner(etags).one(srv, q[0], q[1])
            except BaseException as e:  # noqa
                errors.append("client %d: %r" % (k, e))
        _PARK.update(ident="any", inside=inside, resume=resume, holds=holds, on=True)
        ta = threading.Thread(target=client, args=(0, s1, req_a), daemon=True)
        ta.start()
        parked = inside.wait(3)
        tb = threading.Thread(target=client, args=(1, s2, req_b), daemon=True)
        tb.start()
        tb.join(wait if parked else 0)
        b_done = parked and not tb.is_alive()
        resume.set()
        ta.join(30)
        tb.join(30)
        _PARK["on"] = False
        store = xh.dump_store(holder.folder, etags)
        return dict(setup=outs, resps=res, store=store, parked=parked, b_done_while_a_parked=b_done, errors=errors, ports=[p1, p2])
    finally:
        _PARK["on"] = False
        resume_ = _PARK.get("resume")
        if resume_:
            resume_.set()
        sd_in.close()
        th.join(10)
        sd_out.close()
        holder.close()


# ------------------------------------------------------------------------------- the storage hook is part of the write
def run_hook_pair(storage_type="multifilesystem", delay=0.25):
    """[storage] hook configured (as with the documented `git add -A && git commit`): the hook takes a snapshot of the
    calendar folder, slowly.  Client 1 PUTs e1; while its hook is still running client 2 PUTs e2.  In a one-at-a-time
    execution the first hook run sees exactly one event and the second both.  -> dict(snapshots=[sorted names], statuses)"""
    tag = "rv-hooklog-%d-%d" % (os.getpid(), random.randrange(10**9))
    tmpd = tempfile.gettempdir()
    hook = ("sleep %s; ls %%(cwd)s/collection-root/u/cal > $(mktemp %s/%s.XXXXXX)" % (delay, tmpd, tag))
    conf = {"auth": {"type": "none"}, "rights": {"type": "owner_only"}, "storage": {"type": storage_type, "hook": hook}}
    try:
        with impl.Server(conf=conf) as srv:
            assert srv.mkcalendar("/u/cal/", login="u:") == 201
            for f in glob.glob(os.path.join(tmpd, tag + ".*")):
                os.remove(f)                      # snapshots of the set-up
            st = [None, None]

            def put(k):
                st[k] = srv.put("/u/cal/e%d.ics" % (k + 1), impl.event("e%d" % (k + 1)), login="u:")[0]
            t1 = threading.Thread(target=put, args=(0,), daemon=True)
            t1.start()
            time.sleep(delay / 3.0)               # client 1 is inside its write (body done or not: the hook has not finished)
            t2 = threading.Thread(target=put, args=(1,), daemon=True)
            t2.start()
            t1.join(30)
            t2.join(30)
            snaps = []
            for f in sorted(glob.glob(os.path.join(tmpd, tag + ".*"))):
                snaps.append(sorted(l.strip() for l in open(f) if l.strip().endswith(".ics")))
            return dict(snapshots=sorted(snaps, key=len), statuses=st)
    finally:
        for f in glob.glob(os.path.join(tmpd, tag + ".*")):
            with contextlib.suppress(OSError):
                os.remove(f)


# ------------------------------------------------------------------------------- contended storage lock, time passing
# While requests wait for the storage lock TIME PASSES, and how much is a choice of the schedule: every timed wait,
# sleep or deadline in the lock code may expire before the holder leaves.  The lock modules get a clock that runs
# 1/scale times faster than the real one (their `threading` / `time` names -- whatever they are bound to -- are replaced
# by stand-ins that scale time-outs and sleeps and report the scaled time), so that a request parked inside its critical
# section for a fraction of a second has been there for minutes as far as the lock code can tell.  Code without timed
# waits (the unchanged tree) behaves exactly as before.
_LOCK_MODULES = ("radicale.pathutils", "radicale.storage", "radicale.storage.multifilesystem",
                 "radicale.storage.multifilesystem.base", "radicale.storage.multifilesystem.lock",
                 "radicale.storage.multifilesystem_nolock")
_FAST = {"scale": 1.0, "t0": time.monotonic(), "expired": 0}


def _short(timeout):
    """A time-out / sleep of the lock code in real seconds."""
    return max(timeout * _FAST["scale"], 0.0)


def _fast_now(real_fn):
    def now():
        base = _FAST.setdefault(real_fn.__name__, real_fn())
        return base + (real_fn() - base) / _FAST["scale"]
    now.__name__ = real_fn.__name__
    return now


class _FastLock:
    """threading.Lock with scaled time-outs (threading.Lock is a factory function, not a class)."""
    _factory = staticmethod(threading.Lock)

    def __init__(self):
        self._real = self._factory()

    def acquire(self, blocking=True, timeout=-1):
        if blocking and timeout is not None and timeout > 0:
            got = self._real.acquire(True, max(_short(timeout), 1e-4))
            if not got:
                _FAST["expired"] += 1
            return got
        return self._real.acquire(blocking, timeout)

    def release(self):
        self._real.release()

    def locked(self):
        return self._real.locked()

    __enter__ = acquire

    def __exit__(self, *a):
        self._real.release()

    def __getattr__(self, name):            # RLock: _release_save / _acquire_restore / _is_owned (used by Condition)
        return getattr(self._real, name)


class _FastRLock(_FastLock):
    _factory = staticmethod(threading.RLock)


class _FastCondition(threading.Condition):
    def wait(self, timeout=None):
        if timeout is None:
            return super().wait()
        got = super().wait(_short(timeout))
        if not got:
            _FAST["expired"] += 1
        return got

    def wait_for(self, predicate, timeout=None):
        if timeout is None:
            return super().wait_for(predicate)
        end = time.monotonic() + _short(timeout)
        result = predicate()
        while not result:
            left = end - time.monotonic()
            if left <= 0:
                _FAST["expired"] += 1
                break
            threading.Condition.wait(self, left)
            result = predicate()
        return result


class _FastEvent(threading.Event):
    def wait(self, timeout=None):
        return super().wait(None if timeout is None else _short(timeout))


class _FastSemaphore(threading.Semaphore):
    def acquire(self, blocking=True, timeout=None):
        return super().acquire(blocking, None if timeout is None else _short(timeout))


class _FastBoundedSemaphore(threading.BoundedSemaphore):
    def acquire(self, blocking=True, timeout=None):
        return super().acquire(blocking, None if timeout is None else _short(timeout))


class _FastTimer(threading.Timer):
    def __init__(self, interval, *a, **k):
        super().__init__(_short(interval), *a, **k)


class _ModuleProxy:
    def __init__(self, real, over):
        self.__dict__["_real"] = real
        self.__dict__.update(over)

    def __getattr__(self, name):
        return getattr(self.__dict__["_real"], name)


def _fast_sleep(seconds):
    time.sleep(_short(seconds))


_FAST_THREADING = {"Lock": _FastLock, "RLock": _FastRLock, "Condition": _FastCondition, "Event": _FastEvent,
                   "Semaphore": _FastSemaphore, "BoundedSemaphore": _FastBoundedSemaphore, "Timer": _FastTimer}
_FAST_TIME = dict(sleep=_fast_sleep, **{n: _fast_now(getattr(time, n)) for n in ("monotonic", "time", "perf_counter")})
_FAST_TIME.update({n + "_ns": (lambda f: (lambda: int(f() * 1e9)))(_FAST_TIME[n]) for n in ("monotonic", "time", "perf_counter")})


@contextlib.contextmanager
def fast_lock_clock(scale):
    """Inside: the lock modules of Radicale see a clock that runs 1/scale times faster (objects they create meanwhile
    -- the storage lock of a new Application -- keep it for their life time)."""
    import importlib
    table = {id(threading): _ModuleProxy(threading, _FAST_THREADING), id(time): _ModuleProxy(time, _FAST_TIME)}
    for n, v in _FAST_THREADING.items():
        table[id(getattr(threading, n))] = v
    for n, v in _FAST_TIME.items():
        table[id(getattr(time, n))] = v
    saved = []
    old = _FAST["scale"]
    _FAST["scale"] = scale
    try:
        for mname in _LOCK_MODULES:
            try:
                mod = importlib.import_module(mname)
            except ImportError:
                continue
            for name, val in list(vars(mod).items()):
                if not name.startswith("__") and id(val) in table:
                    saved.append((mod, name, val))
                    setattr(mod, name, table[id(val)])
        yield
    finally:
        for mod, name, val in saved:
            setattr(mod, name, val)
        _FAST["scale"] = old


def run_contended_lock(world, pre, setup, holder, park_mode, waiters, etags, storage_type="multifilesystem_nolock",
                       hold=0.15, scale=0.001, dwell=0.02):
    """One Application.  `holder` (ui, request) is parked INSIDE its first critical section of mode `park_mode`; the
    `waiters` (list of (ui, request)) arrive meanwhile, one thread each, and queue at the storage lock; the holder stays
    for `hold` seconds = hold/scale seconds on the clock of the lock code; then it goes on and everybody finishes.
    A request that enters a section it had to queue for dwells there `dwell` seconds before its handler goes on.
    Monitor at every entry: any number of readers or exactly one writer.
    -> dict(setup, resps=[holder, waiters...], store, overlaps=[(who, mode, {other: mode})], events, parked, queued, expired)"""
    set_policy(world)
    with fast_lock_clock(scale):
        return _run_contended_lock(pre, setup, holder, park_mode, waiters, etags, storage_type, hold, dwell,
                                   server_conf(world, pre, storage_type))


def _run_contended_lock(pre, setup, holder, park_mode, waiters, etags, storage_type, hold, dwell, conf):
    srv = impl.Server(conf=conf)
    try:
        runner = xh.Runner(etags)
        outs = [runner.one(srv, ui, r) for ui, r in setup]
        st = srv.application._storage
        orig = st.acquire_lock
        n = 1 + len(waiters)
        reqs = [holder] + list(waiters)
        guard = threading.Lock()
        inside = {}
        asking = {}
        events, overlaps = [], []
        parked_ev, resume = threading.Event(), threading.Event()
        index = {}
        res = [None] * n
        errors = [None] * n
        expired0 = _FAST["expired"]

        @contextlib.contextmanager
        def wrapped(mode, user="", *a, **k):
            i = index.get(threading.get_ident())
            if i is None:
                with orig(mode, user, *a, **k):
                    yield
                return
            with guard:
                contended = bool(inside)
                asking[i] = mode
                events.append((i, "asks " + mode, dict(inside)))
            with orig(mode, user, *a, **k):
                with guard:
                    asking.pop(i, None)
                    others = {j: m for j, m in inside.items() if j != i}
                    events.append((i, "enters " + mode, others))
                    if (mode == "w" and others) or "w" in others.values():
                        overlaps.append((i, mode, others))
                    inside[i] = mode
                try:
                    if i == 0 and mode == park_mode and not parked_ev.is_set():
                        parked_ev.set()
                        resume.wait(30)
                    elif contended:
                        time.sleep(dwell)
                    yield
                finally:
                    with guard:
                        inside.pop(i, None)
                        events.append((i, "leaves", {}))

        def body(i):
            index[threading.get_ident()] = i
            try:
                res[i] = xh.Runner(etags).one(srv, reqs[i][0], reqs[i][1])
            except BaseException as e:  # noqa
                errors[i] = repr(e)

        st.acquire_lock = wrapped
        try:
            threads = [threading.Thread(target=body, args=(i,), daemon=True) for i in range(n)]
            threads[0].start()
            parked = parked_ev.wait(3)
            queued = 0
            if parked:
                for t in threads[1:]:
                    t.start()
                t_end = time.monotonic() + 3
                while time.monotonic() < t_end:          # until every waiter queues at the lock (or has finished)
                    with guard:
                        queued = len([i for i in asking if i != 0])
                        settled = queued + len([i for i in range(1, n) if not threads[i].is_alive()])
                    if settled >= n - 1:
                        break
                    time.sleep(0.005)
                time.sleep(hold)
                with guard:
                    queued = len([i for i in asking if i != 0])
            resume.set()
            if not parked:
                for t in threads[1:]:
                    t.start()
            for t in threads:
                t.join(30)
            hung = [i for i, t in enumerate(threads) if t.is_alive()]
        finally:
            resume.set()
            st.acquire_lock = orig
        store = xh.dump_store(srv.folder, etags)
        return dict(setup=outs, resps=res, store=store, overlaps=overlaps, events=events, parked=parked, queued=queued,
                    errors=errors, hung=hung, expired=_FAST["expired"] - expired0)
    finally:
        srv.close()
