"""Rights plugin used by the handler correspondence: the policy is a table set by the harness."""
from radicale import pathutils, rights

from vlib import x_handlers


class Rights(rights.BaseRights):
    def authorization(self, user, path):
        return x_handlers.POLICY.get((user or "", pathutils.strip_path(path)), "")
