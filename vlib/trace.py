"""Running a driver script under `strace -f` and parsing the system-call stream."""
import os
import re
import subprocess

from vlib import core

FILE_CALLS = ("open,openat,openat2,creat,stat,lstat,newfstatat,statx,access,faccessat,faccessat2,readlink,readlinkat,"
              "rename,renameat,renameat2,unlink,unlinkat,mkdir,mkdirat,rmdir,chdir,chmod,fchmodat,chown,fchownat,"
              "link,linkat,symlink,symlinkat,truncate,utimensat,utime,utimes,execve,getdents64,"
              "fsync,fdatasync,flock,close,write,pwrite64,connect,socket")

MUTATING = {"rename", "renameat", "renameat2", "unlink", "unlinkat", "mkdir", "mkdirat", "rmdir", "chmod", "fchmodat",
            "chown", "fchownat", "link", "linkat", "symlink", "symlinkat", "truncate", "creat", "utimensat", "utime", "utimes"}

_line = re.compile(r"^(\d+)\s+(\w+)\((.*)\)\s+=\s+(-?\d+|\?)(.*)$")
_resumed = re.compile(r"^(\d+)\s+<\.\.\. (\w+) resumed>(.*)\)\s+=\s+(-?\d+|\?)(.*)$")
_unfinished = re.compile(r"^(\d+)\s+(\w+)\((.*) <unfinished \.\.\.>$")
_str = re.compile(r'"((?:[^"\\]|\\.)*)"(\.\.\.)?')


def unescape(s):
    out = bytearray()
    i = 0
    while i < len(s):
        c = s[i]
        if c == "\\" and i + 1 < len(s):
            n = s[i + 1]
            if n in "01234567":
                j = i + 1
                while j < len(s) and j < i + 4 and s[j] in "01234567":
                    j += 1
                out.append(int(s[i + 1:j], 8) & 0xFF)
                i = j
                continue
            if n == "x":
                out.append(int(s[i + 2:i + 4], 16))
                i += 4
                continue
            out += {"n": b"\n", "t": b"\t", "r": b"\r", "\\": b"\\", '"': b'"', "v": b"\v", "f": b"\f", "e": b"\x1b"}.get(n, n.encode())
            i += 2
            continue
        out += c.encode("utf-8", "surrogateescape")
        i += 1
    return out.decode("utf-8", "surrogateescape")


class Event:
    __slots__ = ("pid", "call", "args", "ret", "err", "paths", "raw", "mark", "resolved")

    def __repr__(self):
        return "%s %s(%s)=%s" % (self.pid, self.call, self.args[:200], self.ret)


def parse(path):
    """Yield Event objects (unfinished/resumed merged)."""
    pending = {}
    events = []
    with open(path, errors="surrogateescape") as f:
        for raw in f:
            raw = raw.rstrip("\n")
            m = _unfinished.match(raw)
            if m:
                pending[m.group(1)] = (m.group(2), m.group(3))
                continue
            m = _resumed.match(raw)
            if m:
                pid = m.group(1)
                call, a0 = pending.pop(pid, (m.group(2), ""))
                args, ret, tail = a0 + m.group(3), m.group(4), m.group(5)
            else:
                m = _line.match(raw)
                if not m:
                    continue
                pid, call, args, ret, tail = m.groups()
            e = Event()
            e.pid, e.call, e.args, e.raw = int(pid), call, args, raw
            e.ret = None if ret == "?" else int(ret)
            e.err = (re.search(r"\b(E[A-Z]+)\b", tail) or [None, None])[1] if e.ret is not None and e.ret < 0 else None
            e.paths = [unescape(s) for s, _ in _str.findall(args)]
            # -y decorations: 3</path/to/file>
            e.paths += re.findall(r"\d+<([^>]*)>", args)
            # dirfd-relative names resolved against the decorated directory: (AT_FDCWD</cwd> | 7</dir>), "name"
            e.resolved = []
            for m2 in re.finditer(r'(?:AT_FDCWD(?:<([^>]*)>)?|\d+<([^>]*)>),\s*"((?:[^"\\]|\\.)*)"', args):
                base = m2.group(1) or m2.group(2) or ""
                name = unescape(m2.group(3))
                e.resolved.append(name if name.startswith("/") or not base else os.path.join(base, name))
            e.mark = None
            events.append(e)
    return events


def run_traced(argv, trace_file, calls=FILE_CALLS, timeout=600, env=None, inject=None):
    cmd = ["strace", "-f", "-y", "-s", "4096", "-e", "trace=" + calls, "-o", trace_file]
    if inject:
        cmd += ["-e", "inject=" + inject]
    cmd += argv
    e = core._clean_env()
    if env:
        e.update(env)
    try:
        p = subprocess.run(cmd, env=e, stdout=subprocess.PIPE, stderr=subprocess.STDOUT, timeout=timeout)
        return p.returncode, p.stdout.decode(errors="replace")
    except subprocess.TimeoutExpired as ex:
        return 124, (ex.stdout or b"").decode(errors="replace") + "\nTIMEOUT"


MARK_PREFIX = "/rv-mark/"


def split_by_marks(events):
    """Driver scripts call os.stat('/rv-mark/<label>') between phases; returns list of (label, [events])."""
    out, cur, label = [], [], "start"
    for e in events:
        if e.call in ("stat", "newfstatat", "statx", "lstat") and e.paths and e.paths[0].startswith(MARK_PREFIX):
            out.append((label, cur))
            label, cur = e.paths[0][len(MARK_PREFIX):], []
            continue
        cur.append(e)
    out.append((label, cur))
    return out
