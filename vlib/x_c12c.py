"""C12 / C02 harness, part 3: the baseline (un-faulted) correspondence shared by both checks."""
import os
import shutil
import tempfile
from multiprocessing import get_context

from vlib import core
from vlib import x_c12 as X
from vlib import x_c12b as B

SHAPES = ["warm", "cold", "residue"]


def _unfaulted(args):
    try:
        return B.unfaulted(*args)
    except Exception as ex:  # keep the pool alive; reported as a broken obligation
        import traceback
        return dict(error="exception: %r\n%s" % (ex, traceback.format_exc()[-1200:]), shape=args[1], lay=args[2], opname=args[3])


def make_base():
    return tempfile.mkdtemp(prefix="rv-c12-")


def case_list(ctx, quick_shapes=("warm", "residue"), quick_layouts=((False, False),)):
    ops = [o for o in B.op_requests() if o not in B.SKIP]
    cases = []
    if ctx.quick:
        for sh in quick_shapes:
            for lay in quick_layouts:
                cases += [(sh, lay, o) for o in ops]
        cases += [("cold", (True, True), o) for o in ops]
    else:
        for sh in SHAPES:
            for lay in B.LAYOUTS:
                cases += [(sh, lay, o) for o in ops]
    return cases


def pool(n=16):
    return get_context("fork").Pool(n)


def baseline(ctx, base, cases, p):
    """Build the pre-states, run every case un-faulted under strace, run the model, compare.
    Returns list of dict(un=..., model=(events, code, entries) | None, problems=[...])."""
    for sh, lay, _ in sorted(set((c[0], c[1], None) for c in cases), key=str):
        B.build_shape(sh, lay, base)
    uns = p.map(_unfaulted, [(base, sh, lay, o) for sh, lay, o in cases], chunksize=1)
    jobs, idx = [], []
    for i, un in enumerate(uns):
        if not un.get("error") and un.get("request") is not None:
            jobs.append(dict(lay=un["lay"], entries=un["pre_entries"], oracle=None, request=un["request"]))
            idx.append(i)
    models = X.model_runs(ctx, jobs) if jobs else []
    out = []
    mi = 0
    for i, un in enumerate(uns):
        rec = dict(un=un, model=None, problems=[])
        if un.get("error"):
            rec["problems"].append("harness: " + un["error"][:400])
            out.append(rec)
            continue
        if un.get("guard"):
            # a request the server refuses: no storage operation, nothing to compare with the model
            if un["status"] in B.SUCCESS or un["pre_abs"] != un["post_abs"]:
                rec["problems"].append("guard request answered %s, store %s" % (
                    un["status"], "changed" if un["pre_abs"] != un["post_abs"] else "unchanged"))
            out.append(rec)
            continue
        if un.get("monitor_only"):
            out.append(rec)
            continue
        if un.get("request") is None:
            rec["problems"].append(un.get("derive_error") or "no model request")
            out.append(rec)
            continue
        m = models[mi]
        mi += 1
        if m[0] == "error":
            rec["problems"].append("model does not evaluate: " + m[1][-400:])
            out.append(rec)
            continue
        rec["model"] = m
        mev, code, ment = m
        a, b = X.canon_events(un["steps"]), X.canon_events(mev)
        if a != b:
            first = [k for k in range(max(len(a), len(b))) if (a[k] if k < len(a) else None) != (b[k] if k < len(b) else None)][0]
            ra = (X.fmt_step(a[first][0]) + ("" if a[first][1] else " FAILED")) if first < len(a) else "(end)"
            rb = (X.fmt_step(b[first][0]) + ("" if b[first][1] else " FAILED")) if first < len(b) else "(end)"
            rec["problems"].append("system calls differ from the model at step %d: real %s / model %s (real %d steps, model %d)" % (
                first, ra, rb, len(a), len(b)))
        if (un["status"] in B.SUCCESS) != (code == 0):
            rec["problems"].append("status %s but model outcome code %d" % (un["status"], code))
        ra, ma = X.abs_of_entries(un["post_entries"]), X.abs_of_entries(ment)
        if ra != ma:
            rec["problems"].append("final visible store differs from the model: %s" % sorted(set(ra.items()) ^ set(ma.items()))[:4])
        rp, mp = set(q for q, n in un["post_entries"]), set(q for q, n in ment)
        if rp != mp:
            rec["problems"].append("final tree differs from the model (paths): real-only %s model-only %s" % (
                [X.fmt_step(("x", q))[2:] for q in sorted(rp - mp)[:3]], [X.fmt_step(("x", q))[2:] for q in sorted(mp - rp)[:3]]))
        out.append(rec)
    return out


def enc_step(st):
    k = st[0]
    if k in ("Rename", "Exchange"):
        return "%s %s %s" % (k, X.enc_path(st[1]), X.enc_path(st[2]))
    if k == "Write":
        return "Write %s %d" % (X.enc_path(st[1]), st[2])
    return "%s %s" % (k, X.enc_path(st[1]))


def coq_durable(ctx, traces):
    """durableb of Model/Fs.v on the given step lists -> list of bool (or None when Coq fails)."""
    import re
    files = {}
    shard = 60
    for k in range(0, len(traces), shard):
        body = [X.COQ_HEADER]
        body.append("Definition ts_ : list (list step) := [\n%s\n].\n" % ";\n".join(
            "[" + "; ".join(enc_step(st) for st in t) + "]" for t in traces[k:k + shard]))
        body.append("Eval vm_compute in (map durableb ts_).\n")
        files["c12d_%d" % (k // shard)] = "".join(body)
    res = ctx.coq_eval_many(files)
    out = []
    for k in range(0, len(traces), shard):
        rc, text = res["c12d_%d" % (k // shard)]
        n = len(traces[k:k + shard])
        if rc != 0:
            ctx.obligation("correspondence:durable-monitor:model-evaluates", False, text[-800:])
            return None
        m = re.search(r"=\s*\[(.*?)\]\s*:\s*list bool", text, re.S)
        vals = re.findall(r"true|false", m.group(1)) if m else []
        if len(vals) != n:
            ctx.obligation("correspondence:durable-monitor:model-evaluates", False, text[-800:])
            return None
        out += [v == "true" for v in vals]
    return out


def cleanup(base):
    shutil.rmtree(base, ignore_errors=True)
