"""Shared harness code of C12 and C02: real storage tree <-> Model/Fs.v terms, strace -> model steps,
running the Coq model (Model/StorageOps.v run_request) and parsing what it prints, the durability
monitor re-implemented in Python, the all-or-nothing monitor, crash / fault injection runs."""
import hashlib
import json
import os
import pickle
import re
import shutil
import subprocess
import sys
import tempfile

from vlib import core, trace

DRIVER = os.path.join(core.VERIF, "vlib", "drivers", "c12_driver.py")
TRACE_CALLS = "openat,write,fsync,fdatasync,rename,renameat,renameat2,unlink,unlinkat,mkdir,mkdirat,rmdir,newfstatat,stat"
READ_CALLS = "read,pread64,getdents64,lstat,statx,access,faccessat,faccessat2"     # read-side calls, on top of openat / newfstatat / stat
TMP_PREFIX = ".Radicale.tmp-"
DELETED = " (deleted)"       # what /proc/<pid>/fd/<n> (strace -y) appends for an unlinked inode


# ====================================================================== names and paths
class Names:
    """Dictionary between real path components and Model/Fs.v names.  A model path is a tuple of names,
    a name is a tuple: ("Root",) ("Safe", n) ("Tmp", k) ..."""

    def __init__(self):
        self.safe = {"collection": 0, "interim": 1}
        self.other = {}
        self.tmp = {}
        self.residue = True     # temp names met while encoding the pre-state: left-overs, numbered from 1000

    def copy(self):
        n = Names()
        n.safe, n.other, n.tmp = dict(self.safe), dict(self.other), dict(self.tmp)
        n.residue = self.residue
        return n

    @staticmethod
    def is_safe(c):
        return bool(c) and "/" not in c and not c.startswith(".") and not c.endswith("~")

    def comp(self, c, prev):
        if c.startswith(TMP_PREFIX):
            if c not in self.tmp:
                if self.residue:
                    self.tmp[c] = 1000 + len([v for v in self.tmp.values() if v >= 1000])
                else:
                    self.tmp[c] = len([v for v in self.tmp.values() if v < 1000])
            return ("Tmp", self.tmp[c])
        if c == ".Radicale.props":
            return ("Props",)
        if c == ".Radicale.cache":
            return ("Cache",)
        if prev == ("Cache",) and c in ("item", "history", "sync-token"):
            return ({"item": "CItem", "history": "CHist", "sync-token": "CTok"}[c],)
        if self.is_safe(c):
            if c not in self.safe:
                self.safe[c] = len(self.safe)
            return ("Safe", self.safe[c])
        if c not in self.other:
            self.other[c] = len(self.other)
        return ("Other", self.other[c])

    def path(self, rel):
        """rel: path relative to the storage folder ('' = the folder)."""
        rel = rel.strip("/")
        if not rel or rel == ".":
            return ()
        parts = rel.split("/")
        out = []
        if parts[0] == "collection-root":
            out.append(("Root",))
        elif parts[0] == "collection-cache":
            out.append(("CRoot",))
        else:
            out.append(self.comp(parts[0], None))
        for c in parts[1:]:
            out.append(self.comp(c, out[-1]))
        return tuple(out)

    def safe_name(self, c):
        return self.comp(c, None)

    def path_rebased(self, rel):
        """rel: path relative to an EXISTING ancestor of the storage folder, which plays the part of the collection
        root: the ancestors, the storage folder and `collection-root` become visible directories (safe names), so that
        the durability rules for directory entries cover the creation of the storage location itself."""
        rel = rel.strip("/")
        out = [("Root",)]
        if not rel or rel == ".":
            return tuple(out)
        for c in rel.split("/"):
            out.append(self.comp(c, out[-1]))
        return tuple(out)


def enc_name(n):
    return n[0] if len(n) == 1 else "%s %d" % (n[0], n[1])


def enc_path(p):
    return "[" + "; ".join(enc_name(n) for n in p) + "]"


def is_lock(rel):
    return any(c.startswith(".Radicale.lock") for c in rel.split("/"))


def is_data(p):
    """Model/Fs.v is_data."""
    if not p or p[0] != ("Root",):
        return False
    r = p[1:]
    for i, n in enumerate(r):
        if n[0] == "Safe":
            continue
        if n[0] == "Props" and i == len(r) - 1:
            continue
        return False
    return True


# ====================================================================== contents
class Contents:
    """content ids of data files (by bytes); codes of cache / history entries as in StorageOps.v."""

    def __init__(self):
        self.ids = {b"": 0}
        self.by_hash = {}      # item-cache key (sha256(CACHE_VERSION + text)) -> id
        self.by_etag = {}      # item etag -> id

    def copy(self):
        c = Contents()
        c.ids, c.by_hash, c.by_etag = dict(self.ids), dict(self.by_hash), dict(self.by_etag)
        return c

    def id(self, data):
        if data not in self.ids:
            i = len(self.ids)
            self.ids[data] = i
            from radicale import storage
            self.by_hash[hashlib.sha256(storage.CACHE_VERSION + data).hexdigest()] = i
            try:
                text = data.decode("utf-8")
                self.by_etag['"%s"' % hashlib.sha256(text.encode("utf-8")).hexdigest()] = i
            except UnicodeDecodeError:
                pass
        return self.ids[data]

    def cache_code(self, data):
        try:
            h = pickle.loads(data)[0]
        except Exception:
            return 0
        return self.by_hash[h] + 1 if h in self.by_hash else 0

    def hist_code(self, data):
        try:
            etag = pickle.loads(data)[0]
        except Exception:
            return 0
        if etag == "":
            return 1
        return self.by_etag[etag] + 2 if etag in self.by_etag else 999999


def tree_entries(folder, names, contents):
    """The storage folder as model entries: list of (path, node) with node 'D' or ('F', code).
    Data files are registered first so that cache / history codes can refer to them."""
    files, dirs = [], []
    for root, ds, fs in os.walk(folder):
        ds.sort()
        rel = os.path.relpath(root, folder)
        rel = "" if rel == "." else rel
        dirs.append(rel)
        for f in sorted(fs):
            r = os.path.join(rel, f) if rel else f
            if is_lock(r):
                continue
            files.append(r)
    entries = [((), "D")]
    for d in dirs:
        if d:
            entries.append((names.path(d), "D"))
    data = {}
    for r in files:
        with open(os.path.join(folder, r), "rb") as fh:
            data[r] = fh.read()
    for r in files:
        p = names.path(r)
        if not any(n[0] in ("Cache", "CRoot") for n in p):
            contents.id(data[r])
    for r in files:
        p = names.path(r)
        kinds = [n[0] for n in p]
        if "CItem" in kinds:
            code = contents.cache_code(data[r])
        elif "CHist" in kinds:
            code = contents.hist_code(data[r])
        elif "Cache" in kinds or "CRoot" in kinds:
            code = 0
        else:
            code = contents.id(data[r])
        entries.append((p, ("F", code)))
    return entries


def enc_entries(entries):
    return "[" + "; ".join("(%s, %s)" % (enc_path(p), "D" if n == "D" else "F %d" % n[1]) for p, n in entries) + "]"


def abs_of_tree(folder):
    """Client-visible store of a real tree: {relative path: None (dir) | bytes} for all-safe paths below
    collection-root plus the props files."""
    out = {}
    root = os.path.join(folder, "collection-root")
    if not os.path.isdir(root):
        return out
    out[""] = None

    def walk(d, rel):
        try:
            names_ = sorted(os.listdir(d))
        except OSError:
            return
        for n in names_:
            p = os.path.join(d, n)
            r = rel + "/" + n if rel else n
            if Names.is_safe(n):
                if os.path.isdir(p):
                    out[r] = None
                    walk(p, r)
                else:
                    with open(p, "rb") as fh:
                        out[r] = fh.read()
            elif n == ".Radicale.props" and os.path.isfile(p):
                with open(p, "rb") as fh:
                    out[r] = fh.read()
    walk(root, "")
    return out


def abs_of_entries(entries):
    """Same abstraction on model entries: {path: 'D' | code}."""
    return {p: (n if n == "D" else n[1]) for p, n in entries if is_data(p)}


# ====================================================================== strace -> model steps
class Sys:
    """One underlying system call of a projected step: (name, ordinal among calls of that name in the process)."""
    __slots__ = ("name", "ordinal", "raw")

    def __init__(self, name, ordinal, raw):
        self.name, self.ordinal, self.raw = name, ordinal, raw


def _flags(args):
    m = re.search(r"\b(O_[A-Z_|]+)", args)
    return set(m.group(1).split("|")) if m else set()


def project(events, folder, names, contents, start_mark=None, end_mark=None, rebased=False):
    """Project the mutating system calls of the phase between the marks to model steps.
    Returns list of dict(step=(kind, path[, path2|code]), ok=bool, sys=[Sys...]) and the list of
    lock-file opens (Sys) of the phase."""
    folder = os.path.realpath(folder)
    npath = names.path_rebased if rebased else names.path
    counts = {}
    fdinfo = {}   # fd -> (rel path, is_write)
    steps, locks, reads = [], [], []
    active = start_mark is None
    pending_write = None

    def rel_of(p):
        p = os.path.normpath(p)
        if p == folder:
            return ""
        if p.startswith(folder + "/"):
            return p[len(folder) + 1:]
        return None

    for e in events:
        ordinal = counts.get(e.call, 0) + 1
        counts[e.call] = ordinal
        if e.call in ("stat", "newfstatat") and e.paths and e.paths[0].startswith(trace.MARK_PREFIX):
            label = e.paths[0][len(trace.MARK_PREFIX):]
            if label == start_mark:
                active = True
            elif label == end_mark:
                active = False
            continue
        if e.call in ("stat", "newfstatat"):
            continue
        sysc = Sys(e.call, ordinal, e.raw)
        ok = e.ret is not None and e.ret >= 0
        if e.call == "openat":
            if not e.paths:
                continue
            p0 = e.paths[0]
            if not p0.startswith("/"):
                dm = re.match(r"(?:AT_FDCWD|\d+)<([^>]*)>", e.args)
                p0 = os.path.join(dm.group(1), p0) if dm else p0
            r = rel_of(p0)
            fl = _flags(e.args)
            if r is None:
                continue
            if is_lock(r):
                if active and "O_CREAT" in fl:
                    locks.append(sysc)
                continue
            if ok:
                fdinfo[e.ret] = (r, "O_WRONLY" in fl or "O_RDWR" in fl)
            if active and not ({"O_CREAT", "O_WRONLY", "O_RDWR"} & fl):
                reads.append((sysc, r, "O_DIRECTORY" in fl))
            if "O_CREAT" in fl and ("O_WRONLY" in fl or "O_RDWR" in fl) and active:
                steps.append(dict(step=("Create", npath(r)), ok=ok, sys=[sysc]))
                pending_write = None
            continue
        if not active:
            continue
        if e.call == "write":
            m = re.match(r"(\d+)<([^>]*)>", e.args)
            if not m:
                continue
            r = rel_of(m.group(2))
            if r is None or is_lock(r):
                continue
            sm = trace._str.search(e.args)
            data = trace.unescape(sm.group(1)).encode("utf-8", "surrogateescape") if sm else b""
            p = npath(r)
            if pending_write is not None and steps and steps[-1] is pending_write and pending_write["step"][1] == p and ok:
                pending_write["data"] += data
                pending_write["sys"].append(sysc)
            else:
                pending_write = dict(step=("Write", p, 0), ok=ok, sys=[sysc], data=data)
                steps.append(pending_write)
            continue
        pending_write = None
        if e.call in ("fsync", "fdatasync"):
            m = re.match(r"(\d+)<([^>]*)>(\(deleted\))?", e.args)
            if not m:
                continue
            r = rel_of(m.group(2))
            if r is None or is_lock(r):
                continue
            # identity of the fsync target: strace -y resolves the descriptor WHEN THE CALL IS MADE (readlink of /proc/pid/fd/N),
            # so `r` names the inode the fsync reaches, not the path the descriptor was opened with, and an inode that is not
            # linked any more is marked "(deleted)" behind the annotation (strace >= 5.x; older: inside it).  A directory
            # that was replaced / removed since the open shows up below a temp directory and / or as deleted: the step is the
            # fsync of THAT object (never of the path the descriptor was opened with, which may name another directory now);
            # the opened path is kept for the report.
            opened, isw = fdinfo.get(int(m.group(1)), (r, False))
            gone = bool(m.group(3)) or (r.endswith(DELETED) and r != opened)
            if gone:
                # not linked anywhere: a name outside the visible tree (not a legal collection name) next to where it was
                was = r[:-len(DELETED)] if r.endswith(DELETED) and not m.group(3) else r
                p = npath(os.path.dirname(was)) + (names.comp("~unlinked~" + os.path.basename(was) + "~", None),)
            else:
                p = npath(r)
            s_ = dict(step=("FsyncF" if isw else "FsyncD", p), ok=ok, sys=[sysc])
            if opened != r or gone:
                s_["opened"], s_["now"] = opened, r + (DELETED if gone and not r.endswith(DELETED) else "")
            steps.append(s_)
        elif e.call in ("rename", "renameat", "renameat2"):
            if e.call == "rename":
                a, b = e.paths[0], e.paths[1]
            else:
                ds = re.findall(r"(?:AT_FDCWD|\d+)<([^>]*)>", e.args)
                ss = [trace.unescape(s) for s, _ in trace._str.findall(e.args)]
                a = ss[0] if ss[0].startswith("/") else os.path.join(ds[0], ss[0])
                b = ss[1] if ss[1].startswith("/") else os.path.join(ds[1], ss[1])
            ra, rb = rel_of(a), rel_of(b)
            if ra is None or rb is None:
                continue
            kind = "Exchange" if "RENAME_EXCHANGE" in e.args else "Rename"
            steps.append(dict(step=(kind, npath(ra), npath(rb)), ok=ok, sys=[sysc]))
        elif e.call in ("unlink", "unlinkat", "rmdir"):
            if e.call == "unlinkat":
                ds = re.findall(r"(?:AT_FDCWD|\d+)<([^>]*)>", e.args)
                ss = [trace.unescape(s) for s, _ in trace._str.findall(e.args)]
                p0 = ss[0] if ss[0].startswith("/") else os.path.join(ds[0], ss[0])
                isdir = "AT_REMOVEDIR" in e.args
            else:
                p0 = e.paths[0]
                isdir = e.call == "rmdir"
            r = rel_of(p0)
            if r is None or is_lock(r):
                continue
            steps.append(dict(step=("Rmdir" if isdir else "Unlink", npath(r)), ok=ok, sys=[sysc]))
        elif e.call in ("mkdir", "mkdirat"):
            r = rel_of(e.paths[0])
            if r is None:
                continue
            steps.append(dict(step=("Mkdir", npath(r)), ok=ok, sys=[sysc]))
    # content ids of writes
    for s in steps:
        if s["step"][0] == "Write":
            p = s["step"][1]
            kinds = [n[0] for n in p]
            code = 0 if ("Cache" in kinds or "CRoot" in kinds) else contents.id(s.pop("data"))
            s.pop("data", None)
            s["step"] = ("Write", p, code)
    return collapse_rmtree(steps), locks, reads


def read_sites(events, folder, start_mark="req", end_mark="end"):
    """The read-side system calls of the phase between the marks that touch the storage folder:
    list of dict(name, ordinal, variant, rel, key).  variant: stat (by path) | fstat (by descriptor) | access |
    open | opendir | read | getdents; ordinal counts the calls of that name in the whole process (strace when=N);
    key = (variant, rel with temp names replaced): the call site."""
    folder = os.path.realpath(folder)
    counts, out = {}, []
    active = False

    def rel_of(p):
        p = os.path.normpath(p)
        if p == folder:
            return ""
        if p.startswith(folder + "/"):
            return p[len(folder) + 1:]
        return None

    for e in events:
        ordinal = counts.get(e.call, 0) + 1
        counts[e.call] = ordinal
        if e.call in ("stat", "newfstatat") and e.paths and e.paths[0].startswith(trace.MARK_PREFIX):
            label = e.paths[0][len(trace.MARK_PREFIX):]
            if label == start_mark:
                active = True
            elif label == end_mark:
                active = False
            continue
        if not active:
            continue
        variant, p0 = None, None
        if e.call == "openat":
            fl = _flags(e.args)
            if {"O_CREAT", "O_WRONLY", "O_RDWR"} & fl:
                continue
            variant = "opendir" if "O_DIRECTORY" in fl else "open"
            p0 = e.resolved[0] if e.resolved else (e.paths[0] if e.paths else None)
        elif e.call in ("newfstatat", "stat", "lstat", "statx"):
            if e.resolved and e.resolved[0] and not re.search(r'\d+<[^>]*>,\s*""', e.args):
                variant, p0 = "stat", e.resolved[0]
            elif e.call in ("stat", "lstat") and e.paths:
                variant, p0 = "stat", e.paths[0]
            else:
                m = re.match(r"(\d+)<([^>]*)>", e.args)
                if m:
                    variant, p0 = "fstat", m.group(2)
        elif e.call in ("access", "faccessat", "faccessat2"):
            variant = "access"
            p0 = e.resolved[0] if e.resolved else (e.paths[0] if e.paths else None)
        elif e.call in ("read", "pread64", "getdents64"):
            m = re.match(r"(\d+)<([^>]*)>", e.args)
            if m:
                variant, p0 = ("getdents" if e.call == "getdents64" else "read"), m.group(2)
        if variant is None or not p0:
            continue
        r = rel_of(p0)
        if r is None or is_lock(r):
            continue
        norm = "/".join("TMP" if c.startswith(TMP_PREFIX) else c for c in r.split("/"))
        out.append(dict(name=e.call, ordinal=ordinal, variant=variant, rel=r, key=(variant, norm)))
    return out


def collapse_rmtree(steps):
    """A run of Unlink/Rmdir below a temp directory T closed by Rmdir T is shutil.rmtree(T): one Rmtree step."""
    out = []
    for s in steps:
        st = s["step"]
        if st[0] == "Rmdir" and st[1] and st[1][-1][0] == "Tmp":
            T = st[1]
            group = [s]
            while out and out[-1]["step"][0] in ("Unlink", "Rmdir", "Rmtree") and out[-1]["ok"] and \
                    len(out[-1]["step"][1]) > len(T) and out[-1]["step"][1][:len(T)] == T:
                group.insert(0, out.pop())
            sysl = [x for g in group for x in g["sys"]]
            out.append(dict(step=("Rmtree", T), ok=s["ok"], sys=sysl))
        else:
            out.append(s)
    return out


def canon_events(evs):
    """Canonical form for comparing model and real event lists: cache-area write contents are wildcards;
    consecutive Unlinks in one directory are sorted (scandir order is not modelled)."""
    out = []
    for st, ok in evs:
        if st[0] == "Write":
            kinds = [n[0] for n in st[1]]
            if "Cache" in kinds or "CRoot" in kinds:
                st = ("Write", st[1], 0)
        out.append((tuple(st), bool(ok)))
    i = 0
    while i < len(out):
        j = i
        while j < len(out) and out[j][0][0] == "Unlink" and out[j][0][1][:-1] == out[i][0][1][:-1]:
            j += 1
        if j - i > 1:
            out[i:j] = sorted(out[i:j])
        i = max(j, i + 1)
    return out


def fmt_step(st):
    def fp(p):
        return "/".join(n[0] if len(n) == 1 else "%s%d" % (n[0], n[1]) for n in p) or "."
    if st[0] in ("Rename", "Exchange"):
        return "%s %s -> %s" % (st[0], fp(st[1]), fp(st[2]))
    if st[0] == "Write":
        return "Write %s #%d" % (fp(st[1]), st[2])
    return "%s %s" % (st[0], fp(st[1]))


# ====================================================================== parsing what Coq prints
_tok = re.compile(r"\s*(\[|\]|\(|\)|;|,|[A-Za-z_][A-Za-z_0-9']*|\d+)(?:%N)?")


def parse_term(text):
    """Parse a printed Gallina value made of lists, tuples, constructors applied to arguments, numbers."""
    toks = _tok.findall(text)
    pos = [0]

    def peek():
        return toks[pos[0]] if pos[0] < len(toks) else None

    def nxt():
        t = toks[pos[0]]
        pos[0] += 1
        return t

    def atom():
        t = nxt()
        if t == "[":
            items = []
            if peek() == "]":
                nxt()
                return items
            while True:
                items.append(expr())
                t2 = nxt()
                if t2 == "]":
                    return items
                assert t2 == ";", (t2, pos[0])
        if t == "(":
            items = [expr()]
            while peek() == ",":
                nxt()
                items.append(expr())
            assert nxt() == ")"
            return items[0] if len(items) == 1 else tuple(items)
        if t.isdigit():
            return int(t)
        return t

    def expr():
        head = atom()
        if isinstance(head, str) and head[0].isupper():
            args = []
            while peek() not in (None, "]", ")", ";", ","):
                args.append(atom())
            return (head,) + tuple(args) if args else (head,)
        return head

    v = expr()
    return v


def _flat(t):
    """((a, b), c) -> (a, b, c) for left-nested printed tuples."""
    return t


def norm_name(n):
    return tuple(n)


def norm_path(p):
    return tuple(norm_name(n) for n in p)


def norm_step(st):
    k = st[0]
    if k in ("Rename", "Exchange"):
        return (k, norm_path(st[1]), norm_path(st[2]))
    if k == "Write":
        return (k, norm_path(st[1]), st[2])
    return (k, norm_path(st[1]))


def parse_run_result(text):
    """text: printed value of run_request: (events, code, entries)."""
    v = parse_term(text)
    evs, code, ents = v
    events = [(norm_step(st), b == ("true",) or b == "true") for st, b in evs]
    entries = [(norm_path(p), "D" if n == ("D",) else ("F", n[1])) for p, n in ents]
    return events, code, entries


COQ_HEADER = """From Coq Require Import List NArith Bool.
Import ListNotations.
Require Import RV.Lib.Prog RV.Model.Fs RV.Model.StorageOps.
Open Scope N_scope.
Set Printing Depth 1000000.
Set Printing Width 200.
"""


def enc_items(its):
    return "[" + "; ".join("(%s, %d)" % (enc_name(h), v) for h, v in its) + "]"


def enc_names(l):
    return "[" + "; ".join(enc_name(x) for x in l) + "]"


def enc_request(r):
    k = r["kind"]
    P, N_ = enc_path, enc_name
    if k == "RPutItem":
        return "RPutItem %s (%s) %d %s %s" % (P(r["c"]), N_(r["h"]), r["v"], enc_names(r["names"]), enc_names(r["exp"]))
    if k == "RDeleteItem":
        return "RDeleteItem %s (%s) %s" % (P(r["c"]), N_(r["h"]), enc_names(r["exp"]))
    if k == "RDeleteColl":
        return "RDeleteColl %s %s" % (P(r["c"]), enc_names(r["names"]))
    if k == "RMove":
        return "RMove %s (%s) %s (%s) %d %s %s %s" % (P(r["c"]), N_(r["h"]), P(r["c2"]), N_(r["h2"]), r["v"],
                                                       enc_names(r["names2"]), enc_names(r["exp"]), enc_names(r["exp2"]))
    if k == "RPropPatch":
        return "RPropPatch %s %d" % (P(r["c"]), r["pv"])
    if k == "RMkcol":
        return "RMkcol %s" % P(r["p"])
    if k == "RMkcalendar":
        return "RMkcalendar %s %d" % (P(r["p"]), r["pv"])
    if k == "RPutColl":
        return "RPutColl %s %s %d %s" % (P(r["p"]), enc_items(r["its"]), r["pv"], enc_names(r["names_after"]))
    if k == "RHome":
        return "RHome %s %s" % (P(r["home"]), enc_items(r["predefined"]))
    raise ValueError(k)


def enc_oracle(o):
    if o is None:
        return "no_fault"
    if o[0] == "crash":
        return "(crash_at %d%%nat)" % o[1]
    return "(fail_at %d%%nat %s)" % (o[1], o[2])


def enc_layout(lay):
    return "{| l_item := %s; l_hist := %s |}" % ("true" if lay[0] else "false", "true" if lay[1] else "false")


def model_runs(ctx, jobs, shard=40):
    """jobs: list of dict(lay, entries, oracle, request).  Returns list of (events, code, entries) or None."""
    files = {}
    for k in range(0, len(jobs), shard):
        body = [COQ_HEADER]
        for i, j in enumerate(jobs[k:k + shard]):
            body.append("Definition e_%d := %s.\n" % (i, enc_entries(j["entries"])))
            body.append("Eval vm_compute in (run_request %s e_%d %s (%s)).\n" % (
                enc_layout(j["lay"]), i, enc_oracle(j["oracle"]), enc_request(j["request"])))
        files["c12m_%d" % (k // shard)] = "".join(body)
    res = ctx.coq_eval_many(files)
    out = []
    for k in range(0, len(jobs), shard):
        rc, text = res["c12m_%d" % (k // shard)]
        n = len(jobs[k:k + shard])
        if rc != 0:
            out += [("error", text[-1500:])] * n
            continue
        parts = re.split(r"^\s*= ", text, flags=re.M)[1:]
        if len(parts) != n:
            out += [("error", "expected %d results, got %d: %s" % (n, len(parts), text[-800:]))] * n
            continue
        for ptxt in parts:
            ptxt = re.split(r"\n\s*:\s*list \(step", ptxt)[0]
            try:
                out.append(parse_run_result(ptxt))
            except Exception as ex:
                out.append(("error", "parse: %r in %s" % (ex, ptxt[:500])))
    return out


# ====================================================================== durability monitor (Python twin of Fs.v dstep)
def _prefix(a, q):
    return q[:len(a)] == a


def durable_monitor(steps):
    """steps: successfully executed model steps (tuples).  Returns None if durable, else a description.
    Same rules as Model/Fs.v `dstep` / `clean`."""
    dirty = []     # (kind 'W'|'E', path)
    bad = None

    def drop(f):
        dirty[:] = [d for d in dirty if not f(d)]

    for i, st in enumerate(steps):
        k = st[0]
        if k == "Mkdir":
            drop(lambda d: _prefix(st[1], d[1]))
            dirty.append(("E", st[1]))
        elif k == "Create":
            dirty.append(("E", st[1]))
            if is_data(st[1]) and bad is None:
                bad = "step %d %s creates/truncates a visible file in place" % (i, fmt_step(st))
        elif k == "Write":
            dirty.append(("W", st[1]))
            if is_data(st[1]) and bad is None:
                bad = "step %d %s writes a visible file in place" % (i, fmt_step(st))
        elif k == "FsyncF":
            drop(lambda d: d == ("W", st[1]))
        elif k == "FsyncD":
            drop(lambda d: d[0] == "E" and d[1][:-1] == st[1] and len(d[1]) > 0)
        elif k == "Unlink":
            drop(lambda d: d[1] == st[1])
            dirty.append(("E", st[1]))
        elif k in ("Rmtree", "Rmdir"):
            drop(lambda d: _prefix(st[1], d[1]))
            dirty.append(("E", st[1]))
        elif k == "Rename":
            a, b = st[1], st[2]
            drop(lambda d: _prefix(b, d[1]) or d == ("E", a))
            dirty[:] = [(kd, b + p[len(a):]) if _prefix(a, p) else (kd, p) for kd, p in dirty]
            ex = [d for d in dirty if _prefix(b, d[1]) and is_data(d[1])]
            if ex and bad is None:
                bad = "step %d %s makes visible %s %s that is not synced" % (
                    i, fmt_step(st), "file data of" if ex[0][0] == "W" else "the directory entry", fmt_step(("x", ex[0][1]))[2:])
            dirty.append(("E", b))
            dirty.append(("E", a))
        elif k == "Exchange":
            a, b = st[1], st[2]
            drop(lambda d: d == ("E", a) or d == ("E", b))
            dirty[:] = [(kd, b + p[len(a):]) if _prefix(a, p) else ((kd, a + p[len(b):]) if _prefix(b, p) else (kd, p))
                        for kd, p in dirty]
            ex = [d for d in dirty if (_prefix(b, d[1]) or _prefix(a, d[1])) and is_data(d[1])]
            if ex and bad is None:
                bad = "step %d %s makes visible %s that is not synced" % (i, fmt_step(st), fmt_step(("x", ex[0][1]))[2:])
            dirty.append(("E", b))
            dirty.append(("E", a))
    if bad:
        return bad
    left = [d for d in dirty if is_data(d[1])]
    if left:
        kd, p = left[0]
        return ("at the end the %s %s is not synced" % (
            "data written to" if kd == "W" else "directory entry", fmt_step(("x", p))[2:]))
    return None
