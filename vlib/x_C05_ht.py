"""C05 helpers, part 2: the real radicale.auth.htpasswd.Auth (through BaseAuth.login, login cache off or -- cfg["cl"] --
on, under a logical clock) on generated files that are edited between attempts, and the encoders for Model/C05Run.v `hcase`.
passlib / bcrypt are asked for every (scheme, digest, password) the model may ask for; the answers are
handed to the model as a table (`hc_verify`)."""
import os
import random
import sys

from vlib import core, impl  # noqa: F401  (impl puts the repo on sys.path)
from vlib.core import enc_bool, enc_N
from vlib.x_C05 import enc_str

import bcrypt  # noqa: E402
from passlib.hash import apr_md5_crypt, sha256_crypt, sha512_crypt  # noqa: E402
from passlib.utils.binary import bcrypt64  # noqa: E402
from radicale import auth, config  # noqa: E402
import radicale.auth.htpasswd as ht_mod  # noqa: E402
import builtins  # noqa: E402
import errno  # noqa: E402

# file faults: open() of the htpasswd path raises while os.stat keeps working (chmod is useless as root)
FAULT = {"path": None, "exc": None}


def _guarded_open(file, *a, **kw):
    if FAULT["exc"] is not None and file == FAULT["path"]:
        raise FAULT["exc"]
    return builtins.open(file, *a, **kw)


ht_mod.open = _guarded_open          # module-level name, shadows the builtin inside radicale.auth.htpasswd only
FAULT_KINDS = {"EACCES": lambda p: PermissionError(errno.EACCES, "Permission denied", p),
               "EIO": lambda p: OSError(errno.EIO, "Input/output error", p),
               "EISDIR": lambda p: IsADirectoryError(errno.EISDIR, "Is a directory", p)}

ENCS = {"plain": "EPlain", "md5": "EMd5", "sha256": "ESha256", "sha512": "ESha512", "bcrypt": "EBcrypt", "autodetect": "EAuto"}
SALTCH = "abcdefghijklmnopqrstuvwxyzABCDEFGHIJKLMNOPQRSTUVWXYZ0123456789./"

PWS = ["pw", "secret", "p:w", "pässword", "", "with space", "Tr0ub4dor&3", "ü" * 5, "x" * 73, "a\x00b"]
LOGINS = ["alice", "bob", "Bob", "BOB", "carol@example.com", "carol", "émile", "ÉMILE", " spaced", "dave", "erin", "ALICE",
          "ß", "SS", "alice@home"]


class Pool:
    """Deterministic (seeded) hashes of the pool passwords under every scheme."""

    def __init__(self, rng):
        self.rng = rng
        self.cache = {}

    def salt(self, n):
        return "".join(self.rng.choice(SALTCH) for _ in range(n))

    def make(self, scheme, pw):
        k = (scheme, pw)
        if k in self.cache and self.rng.random() < 0.8:
            return self.cache[k]
        try:
            if scheme == "md5":
                h = apr_md5_crypt.using(salt=self.salt(8)).hash(pw)
            elif scheme == "sha256":
                h = sha256_crypt.using(salt=self.salt(16), rounds=5000).hash(pw)
            elif scheme == "sha512":
                h = sha512_crypt.using(salt=self.salt(16), rounds=5000).hash(pw)
            elif scheme == "sha256r":
                h = sha256_crypt.using(salt=self.salt(8), rounds=1000).hash(pw)
            elif scheme == "bcrypt":
                raw = bytes(self.rng.randrange(256) for _ in range(16))
                pre = self.rng.choice([b"$2b$", b"$2b$", b"$2a$", b"$2y$"])
                h = bcrypt.hashpw(pw.encode("utf-8"), pre + b"04$" + bcrypt64.encode_bytes(raw)).decode()
            else:
                h = pw
        except ValueError:        # NUL byte / too long for the scheme: store something of the right shape
            h = {"md5": "$apr1$" + "x" * 31, "sha256": "$5$" + "x" * 60, "sha512": "$6$" + "x" * 103,
                 "sha256r": "$5$rounds=1000$x", "bcrypt": "$2b$04$" + "x" * 53}.get(scheme, pw)
        self.cache[k] = h
        return h


def near_miss(rng, h):
    k = rng.choice(["trunc", "space", "lspace", "tab", "flip", "prefix", "x", "dollar2", "as-is"])
    if k == "trunc" and len(h) > 1:
        return h[:-1]
    if k == "space":
        return h + " "
    if k == "lspace":
        return " " + h
    if k == "tab":
        return h + "\t"
    if k == "flip" and h:
        i = rng.randrange(len(h))
        return h[:i] + ("A" if h[i] != "A" else "B") + h[i + 1:]
    if k == "prefix":
        return rng.choice(["$apr1$", "$2y$", "$2$", "$2b$04$", "$5$", "$6$", "$2c$", "$1$", "$"]) + rng.choice(["", "abc", h[4:20]])
    if k == "x":
        return h + "x"
    if k == "dollar2" and h.startswith("$2"):
        return "$2$" + h[4:]
    return h


PREFER = [None]


def gen_line(rng, pool, truth):
    """One line; `truth` collects (login, password, digest) for the attempts generator."""
    r = rng.random()
    if r < 0.08:
        return rng.choice(["# comment", "#alice:pw", "  # indented", "\t#tab", " #nbsp-comment", "#"])
    if r < 0.14:
        return rng.choice(["", " ", "\t", " ", "\x0c", "\x1c \x1f", "　"])
    if r < 0.19:
        return rng.choice(["nocolon", "alice", ":nologin", "nodigest:", ":", " :x", "# :", "bob", "x#y"])
    login = rng.choice(LOGINS)
    pw = rng.choice(PWS)
    scheme = rng.choice(["plain", "md5", "sha256", "sha512", "bcrypt", "bcrypt", "sha256r"])
    if PREFER[0] and rng.random() < 0.6:
        scheme = PREFER[0]
    h = pool.make(scheme, pw)
    if rng.random() < 0.2:
        h = near_miss(rng, h)
    if "\n" in h or "\r" in h:
        h = "x"
    truth.append((login, pw, h))
    return "%s:%s" % (login, h)


def gen_text(rng, pool, truth, nmax=7):
    lines = [gen_line(rng, pool, truth) for _ in range(rng.randint(0, nmax))]
    if lines and rng.random() < 0.25:                       # a duplicate login further down
        l, pw, h = rng.choice(truth) if truth else ("alice", "pw", "pw")
        pw2 = rng.choice(PWS)
        h2 = pool.make(rng.choice(["plain", "md5", "bcrypt"]), pw2)
        truth.append((l, pw2, h2))
        lines.append("%s:%s" % (l, h2))
    nl = rng.choice(["\n", "\n", "\n", "\r\n", "\r"])
    text = nl.join(lines)
    if lines and rng.random() < 0.8:
        text += nl
    if rng.random() < 0.05:
        text = "﻿" + text
    return text


S_NS = 10 ** 9
CLOCK_T0 = 1_700_000_000 * S_NS
STEP_SAME_FILE_NS = 1 * S_NS          # well inside both lifetimes of the login cache (defaults 15 s / 90 s): cache hits happen
STEP_FILE_CHANGED_NS = 1000 * S_NS    # beyond both lifetimes: every entry of the login cache has expired


class Clock:
    """Stands in for the `time` module as seen by radicale.auth (BaseAuth.login: time_ns, sleep) while a history with
    the login cache on is run.  Rule (the hypothesis of C17_transparent made true by construction): the clock advances by
    STEP_FILE_CHANGED_NS before an attempt whose htpasswd file differs from the previous attempt's, else by STEP_SAME_FILE_NS;
    so whatever the login cache still holds was answered by the back-end for the file as it is now."""

    def __init__(self, t):
        self.t = t

    def time_ns(self):
        return self.t

    def time(self):
        return self.t / 1e9

    def sleep(self, x):
        pass


def login_cache_on(cfg):
    return bool(cfg.get("cl"))


def make_auth(fn, cfg):
    c = config.load()
    c.update({"auth": {"type": "htpasswd", "htpasswd_filename": fn, "htpasswd_encryption": cfg["enc"],
                       "htpasswd_cache": str(cfg["cache"]), "cache_logins": str(login_cache_on(cfg)), "delay": "0",
                       "lc_username": str(cfg["lc"]), "uc_username": str(cfg["uc"]), "strip_domain": str(cfg["sd"])}},
             "verif", privileged=True)
    saved = sys.modules.get("bcrypt")
    if not cfg["module"]:
        sys.modules["bcrypt"] = None        # `import bcrypt` raises ImportError
    try:
        return auth.load(c)
    finally:
        if not cfg["module"]:
            sys.modules["bcrypt"] = saved


def put_file(fn, data, mtime, unreadable=None):
    """data: bytes, or None = remove the file; unreadable: None or a key of FAULT_KINDS."""
    FAULT["path"] = fn
    FAULT["exc"] = FAULT_KINDS[unreadable](fn) if unreadable else None
    if data is None:
        if os.path.exists(fn):
            os.remove(fn)
        return
    with open(fn, "wb") as f:
        f.write(data)
    os.utime(fn, ns=(mtime, mtime))


def gen_case(rng, pool):
    enc = rng.choice(["plain", "md5", "sha256", "sha512", "bcrypt", "autodetect", "autodetect", "autodetect"])
    case_map = rng.choice(["", "", "", "lc", "uc"])
    cfg = dict(enc=enc, cache=rng.random() < 0.5, lc=case_map == "lc", uc=case_map == "uc", sd=rng.random() < 0.3,
               module=rng.random() < 0.9)
    # [auth] cache_logins: the gate asks BaseAuth.login, and with the option on a login cache sits between the gate and
    # the htpasswd back-end.  drawn from a generator of its own so that the cache-less histories of a seed stay what they were
    lrng = random.Random(rng.getrandbits(64))
    cfg["cl"] = lrng.random() < 0.4
    pending = None                  # the second half of a pair of attempts with equal login+password concatenation
    truth = []
    PREFER[0] = enc if enc != "autodetect" else None
    # start-up file: mostly clean (the server refuses to start otherwise)
    if rng.random() < 0.75:
        t0 = []
        used = set()
        for _ in range(rng.randint(0, 4)):
            ln = gen_line(rng, pool, truth)
            key = ln.split(":")[0]
            if ":" in ln and not ln.lstrip().startswith("#") and (key in used or key == "" or ln.split(":", 1)[1] == ""):
                continue
            if ":" not in ln and ln.strip() and not ln.lstrip().startswith("#"):
                continue
            used.add(key)
            t0.append(ln)
        text0 = "\n".join(t0) + ("\n" if t0 else "")
        if rng.random() < 0.3 and enc == "autodetect":        # start without any 60-char bcrypt entry (F10 precondition)
            t0 = [x for x in t0 if not (":$2" in x)]
            text0 = "\n".join(t0) + ("\n" if t0 else "")
    else:
        text0 = gen_text(rng, pool, truth, 4)
    files = [dict(data=text0.encode("utf-8"), mtime=1000)]
    steps = []
    cur = files[0]
    mt = 1000
    nsteps = rng.randint(2, 6) + (lrng.randint(0, 3) if cfg["cl"] else 0)
    for _ in range(nsteps):
        op = rng.choice(["keep", "keep", "keep", "keep", "append", "append", "append-bcrypt", "append-bcrypt", "rewrite", "rewrite", "same-stamp", "touch", "remove", "garbage"])
        if cfg["cl"] and lrng.random() < 0.5:
            op = "keep"             # runs of attempts against one file version: that is when the login cache answers
        if cur.get("unreadable"):
            op = rng.choice(["keep", "restore", "rewrite", "fault-again"])
        elif cur["data"] is None or decode_file(cur["data"]) is False:
            op = rng.choice(["restore", "restore", "rewrite"])
        elif rng.random() < 0.12:
            op = "change-then-fault"
        if op == "append" and cur["data"] is not None:
            mt += rng.choice([0, 1, 7])
            extra = gen_line(rng, pool, truth)
            d = cur["data"]
            cur = dict(data=d + (b"" if d.endswith(b"\n") or not d else b"\n") + extra.encode("utf-8") + b"\n", mtime=mt)
        elif op == "append-bcrypt" and cur["data"] is not None:
            mt += 1
            l, pw = rng.choice(LOGINS), rng.choice(PWS[:4])
            h = pool.make("bcrypt", pw)
            if rng.random() < 0.3:
                h = rng.choice(["$2y$abc", "$2$", "$2b$04$tooshort", h[:-1], h + "x"])
            truth.append((l, pw, h))
            d = cur["data"]
            cur = dict(data=d + (b"" if d.endswith(b"\n") or not d else b"\n") + ("%s:%s\n" % (l, h)).encode("utf-8"), mtime=mt)
        elif op == "rewrite":
            mt += rng.choice([0, 1, 5])
            cur = dict(data=gen_text(rng, pool, truth).encode("utf-8"), mtime=mt)
        elif op == "same-stamp" and cur["data"]:
            # other content, same size, same mtime: the cache cannot see it
            d = bytearray(cur["data"])
            idx = [i for i, b in enumerate(d) if 97 <= b <= 122]
            if idx:
                i = rng.choice(idx)
                d[i] = 97 + (d[i] - 97 + 1) % 26
            cur = dict(data=bytes(d), mtime=cur["mtime"])
        elif op == "change-then-fault":
            # the content changes (a user removed / a password changed), then the file cannot be opened any more
            mt += rng.choice([0, 1, 4])
            kept = [ln for ln in (decode_file(cur["data"]) or "").split("\n") if ln and rng.random() < 0.5]
            newtext = "\n".join(kept + ([gen_line(rng, pool, truth)] if rng.random() < 0.5 else [])) + "\n"
            cur = dict(data=newtext.encode("utf-8"), mtime=mt, unreadable=rng.choice(list(FAULT_KINDS)))
        elif op == "fault-again":
            mt += 1
            cur = dict(data=cur["data"], mtime=mt, unreadable=rng.choice(list(FAULT_KINDS)))
        elif op == "touch" and cur["data"] is not None:
            mt += 3
            cur = dict(data=cur["data"], mtime=mt)
        elif op == "remove":
            cur = dict(data=None, mtime=mt)
        elif op == "garbage":
            mt += 1
            cur = dict(data=b"alice:pw\n\xff\xfe\nbob:pw\n", mtime=mt)
        elif op == "restore":
            mt += 1
            cur = dict(data=files[0]["data"], mtime=mt)
        files.append(cur)
        # the attempt: mostly aimed at an entry of the file as it is now
        entries = []
        t = decode_file(cur["data"])
        if cur.get("unreadable"):
            t = "\n".join(decode_file(f_["data"]) or "" for f_ in files if not f_.get("unreadable"))   # what was readable earlier
        if t:
            for ln in t.replace("\r\n", "\n").replace("\r", "\n").split("\n"):
                if ":" in ln and not ln.lstrip().startswith("#"):
                    entries.append(tuple(ln.split(":", 1)))
        if entries and rng.random() < 0.75:
            l, h = rng.choice(entries)
            known = [p_ for (l_, p_, h_) in truth if l_ == l and h_ == h]
            pw = known[0] if known else h
            k = rng.random()
            if k < 0.55:
                pass
            elif k < 0.67:
                pw = rng.choice(PWS)
            elif k < 0.8:
                pw = h                          # the stored digest typed as password (plain fall-back)
            elif k < 0.88:
                pw = h.strip()
            else:
                pw = pw + " "
            if cfg["lc"]:
                l = rng.choice([l, l.upper(), l.swapcase()])
            if cfg["uc"]:
                l = rng.choice([l, l.lower(), l.swapcase()])
            if cfg["sd"] and rng.random() < 0.6:
                l = l + rng.choice(["@example.com", "@", "@a@b"])
        elif truth and rng.random() < 0.5:
            l, pw, h = rng.choice(truth)
        else:
            l, pw = rng.choice(LOGINS + ["", "@x", "nobody"]), rng.choice(PWS)
        # equal concatenations cut at different places: ('alice','xyz') / ('alic','exyz') / ('alicex','yz') -- whatever is
        # keyed or hashed from login and password together must keep them apart.  Either the re-cut of an earlier attempt
        # of this history, or a pair (re-cut now, the original next), so that both orders occur.
        if pending is not None:
            l, pw = pending
            pending = None
        elif lrng.random() < (0.45 if cfg["cl"] else 0.1):
            if steps and lrng.random() < 0.6:
                _, l0, pw0 = lrng.choice(steps[-3:])
                other = resplit(lrng, l0, pw0)
                if other:
                    l, pw = other
            else:
                other = resplit(lrng, l, pw)
                if other:
                    pending = (l, pw)
                    l, pw = other
        steps.append((cur, l, pw))
    return dict(cfg=cfg, file0=files[0], steps=steps)


_VMEMO = {}


def real_verify(scheme, h, pw):
    k = (scheme, h, pw)
    if k in _VMEMO:
        return _VMEMO[k]
    try:
        if scheme == "SMd5":
            r = apr_md5_crypt.verify(pw, h)
        elif scheme == "SSha256":
            r = sha256_crypt.verify(pw, h)
        elif scheme == "SSha512":
            r = sha512_crypt.verify(pw, h)
        else:
            r = bcrypt.checkpw(password=pw.encode("utf-8"), hashed_password=h.encode())
        out = "VTrue" if r else "VFalse"
    except ValueError:
        out = "VValueError"
    except Exception:
        out = "VRaise"
    _VMEMO[k] = out
    return out


def decode_file(data):
    if data is None:
        return None
    try:
        return data.decode("utf-8")
    except UnicodeDecodeError:
        return False


def digests_of(text):
    out = []
    for line in text.replace("\r\n", "\n").replace("\r", "\n").split("\n"):
        if ":" in line:
            out.append(line.split(":", 1)[1])
    return out


def run_case(case, workdir):
    """Runs the real back-end; returns None (start-up refused) or the list of results, and fills
    case['verify'], case['upper'], case['lower']."""
    cfg = case["cfg"]
    fn = os.path.join(workdir, "htpasswd")
    put_file(fn, case["file0"]["data"], case["file0"]["mtime"], case["file0"].get("unreadable"))
    digests, pws, logins = [], [], []
    for f in [case["file0"]] + [s[0] for s in case["steps"]]:
        t = decode_file(f["data"])
        if t:
            for d in digests_of(t):
                if d not in digests:
                    digests.append(d)
    for _, l, pw in case["steps"]:
        if pw not in pws:
            pws.append(pw)
        if l not in logins:
            logins.append(l)
    table = []
    for d in digests:
        for pw in pws:
            ds = d.strip()
            for s in ("SMd5", "SSha256", "SSha512"):
                table.append((s, ds, pw, real_verify(s, ds, pw)))
            table.append(("SBcrypt", d, pw, real_verify("SBcrypt", d, pw)))
    case["verify"] = list(dict.fromkeys(table))
    case["lower"] = [(l, l.lower()) for l in logins]
    case["upper"] = [(l, l.upper()) for l in logins]
    import time as real_time
    clock = Clock(CLOCK_T0)
    if login_cache_on(cfg):
        auth.time = clock
    try:
        try:
            a = make_auth(fn, cfg)
        except Exception as e:
            case["startup_error"] = "%s: %s" % (type(e).__name__, e)
            FAULT["exc"] = None
            return None
        out = []
        prev = case["file0"]
        for f, l, pw in case["steps"]:
            put_file(fn, f["data"], f["mtime"], f.get("unreadable"))
            clock.t += STEP_SAME_FILE_NS if same_file(f, prev) else STEP_FILE_CHANGED_NS
            prev = f
            try:
                user, _info = a.login(l, pw)
                out.append(("user", user) if user else ("fail",))
            except Exception as e:
                out.append(("raise", "%s: %s" % (type(e).__name__, e)))
        FAULT["exc"] = None
        return out
    finally:
        auth.time = real_time


def same_file(f, g):
    return (f["data"], f["mtime"], f.get("unreadable")) == (g["data"], g["mtime"], g.get("unreadable"))


def resplit(rng, l, pw):
    """Another (login, password) pair with the SAME concatenation, cut at another place (None if there is none)."""
    cat = l + pw
    cuts = [j for j in range(len(cat) + 1) if j != len(l)]
    if not cuts:
        return None
    near = [j for j in cuts if abs(j - len(l)) <= 2]
    j = rng.choice(near) if near and rng.random() < 0.7 else rng.choice(cuts)
    return cat[:j], cat[j:]


# ------------------------------------------------------------------------------------ encoders
def enc_file(f):
    t = decode_file(f["data"])
    ft = "FMissing" if t is None else "FUnreadable" if f.get("unreadable") else "FUndecodable" if t is False else "(FText %s)" % enc_str(t)
    return "{| f_text := %s; f_size := %s; f_mtime := %s |}" % (ft, enc_N(len(f["data"] or b"")), enc_N(f["mtime"]))


def enc_pairs(l):
    return "[" + ";".join("(%s, %s)" % (enc_str(a), enc_str(b)) for a, b in l) + "]"


def enc_hcase(case):
    cfg = case["cfg"]
    return ("{| hc_cfg := {| h_enc := %s; h_cache := %s; h_module := %s |}; hc_fixed := true; hc_lc := %s; hc_uc := %s; hc_sd := %s; "
            "hc_upper := %s; hc_lower := %s; hc_verify := %s; hc_file0 := %s; hc_steps := %s |}" % (
                ENCS[cfg["enc"]], enc_bool(cfg["cache"]), enc_bool(cfg["module"]), enc_bool(cfg["lc"]), enc_bool(cfg["uc"]),
                enc_bool(cfg["sd"]), enc_pairs(case["upper"]), enc_pairs(case["lower"]),
                "[" + ";".join("(%s, %s, %s, %s)" % (s, enc_str(h), enc_str(pw), r) for s, h, pw, r in case["verify"]) + "]",
                enc_file(case["file0"]),
                "[" + ";".join("(%s, %s, %s)" % (enc_file(f), enc_str(l), enc_str(pw)) for f, l, pw in case["steps"]) + "]"))


def enc_hres(res):
    if res is None:
        return "None"
    return "(Some [" + ";".join("LUser %s" % enc_str(r[1]) if r[0] == "user" else "LFail" if r[0] == "fail" else "LRaise"
                                for r in res) + "])"
