"""Helpers of checks/C04.py: generators (regex patterns, format strings, rights files), encoders,
the classifying Coq runner and the independent oracles (monitors)."""
import itertools
import os
import re
import warnings

from vlib import core
from vlib.core import enc_str

warnings.simplefilter("ignore", FutureWarning)      # "Possible nested set" etc. are warnings, not errors

HEADER = """From Coq Require Import List NArith Bool String.
Import ListNotations.
Require Import RV.Lib.PyStr RV.Model.Path RV.Model.Rights RV.Model.Regex RV.Model.FromFile.
Open Scope N_scope.
Definition eq_os (a b : option pystr) := match a, b with Some x, Some y => eqs x y | None, None => true | _, _ => false end.
Fixpoint eq_gl (a b : list (option pystr)) := match a, b with [] , [] => true | x :: a', y :: b' => eq_os x y && eq_gl a' b' | _, _ => false end.
(* codes: 0 agree, 1 differ, 2 model says unsupported (no claim), 3 model out of fuel *)
Definition cls_fm (exp got : fmres) : N :=
  match got with
  | FmUnsup => 2 | FmFuel => 3
  | FmNo => match exp with FmNo => 0 | _ => 1 end
  | FmErr => match exp with FmErr => 0 | _ => 1 end
  | FmYes g => match exp with FmYes g' => if eq_gl g g' then 0 else 1 | _ => 1 end
  end.
Definition cls_res (exp got : res pystr) : N :=
  match got with
  | Unsup => 2
  | Err => match exp with Err => 0 | _ => 1 end
  | Ok s => match exp with Ok s' => if eqs s s' then 0 else 1 | _ => 1 end
  end.
Definition cls_out (exp got : outcome) : N :=
  match got with
  | Unsupported => 2 | OutOfFuel => 3
  | Deny => match exp with Deny => 0 | Perm [] => 0 | _ => 1 end     (* both are the return value "" *)
  | Error => match exp with Error => 0 | _ => 1 end
  | Perm p => match exp with Perm p' => if eqs p p' then 0 else 1 | _ => 1 end
  end.
Definition cls_str (exp got : pystr) : N := if eqs exp got then 0 else 1.
"""


def classify_cases(ctx, tag, fn, cls, cases, in_enc, out_enc, shard=400, header=HEADER, timeout=900):
    """Run `cls expected (fn input)` inside Coq (vm_compute) for every case.
    Returns the list of codes (0 agree / 1 differ / 2 unsupported / 3 fuel) or None when coqc fails
    (then an obligation `correspondence:<tag>:model-evaluates` is recorded as broken)."""
    files = {}
    for k in range(0, len(cases), shard):
        chunk = cases[k:k + shard]
        rows = ";\n".join("(%s, %s)" % (in_enc(i), out_enc(o)) for i, o in chunk)
        body = (header + "\nDefinition cases_ := [\n%s\n].\n" % rows +
                "Definition result_ := map (fun io => %s (snd io) (%s (fst io))) cases_.\n"
                "Eval vm_compute in result_.\n" % (cls, fn))
        files["%s_%d" % (tag, k // shard)] = body
    # batches: coq_eval_many has ONE overall time limit for all its files
    res, names = {}, list(files)
    for k in range(0, len(names), 48):
        res.update(ctx.coq_eval_many({n: files[n] for n in names[k:k + 48]}, timeout=timeout))
    codes = []
    for name, (rc, out) in sorted(res.items(), key=lambda kv: int(kv[0].rsplit("_", 1)[1])):
        n_expected = min(shard, len(cases) - int(name.rsplit("_", 1)[1]) * shard)
        m = re.search(r"=\s*\[?(.*?)\]?\s*:\s*list N", out, re.S)
        if rc != 0 or not m:
            ctx.obligation("correspondence:%s:model-evaluates" % tag, False, out[-1500:])
            return None
        got = [int(x) for x in re.findall(r"\d+", m.group(1))]
        if len(got) != n_expected:
            ctx.obligation("correspondence:%s:model-evaluates" % tag, False,
                           "expected %d codes, got %d: %s" % (n_expected, len(got), out[-600:]))
            return None
        codes += got
    return codes


# ------------------------------------------------------------------------------------------ encoders
def enc_groups(gs):
    return "[" + ";".join("None" if g is None else "(Some %s)" % enc_str(g) for g in gs) + "]"


def enc_fm(v):
    """v: None (no match) | tuple of groups | 'ERR'"""
    if v is None:
        return "FmNo"
    if v == "ERR":
        return "FmErr"
    return "(FmYes %s)" % enc_groups(v)


def enc_res_str(v):
    return "Err" if v == "ERR" else "(Ok %s)" % enc_str(v)


def enc_outcome(v):
    return "Error" if v == "ERR" else "(Perm %s)" % enc_str(v)


def enc_ff_in(c):
    rules, user, path = c
    return "(%s, %s, %s)" % ("[" + ";".join(enc_section(s) for s in rules) + "]", enc_str(user), enc_str(path))


class FromFileImpl:
    """The real from_file back-end, one instance per rights file (the file is parsed by the real code)."""

    def __init__(self, scratch):
        from radicale import config
        self.scratch = scratch
        self.base = config.load()
        self.base.update({"auth": {"type": "none"}}, "verif", privileged=True)
        self.n = 0

    def load(self, text, rule_debug=False):
        """rule_debug = [logging] rights_rule_doesnt_match_on_debug, the only option besides the file name that
        from_file reads: it must only change what is logged"""
        from radicale.rights import from_file
        self.n += 1
        path = os.path.join(self.scratch, "rights-%d" % self.n)
        with open(path, "w", encoding="utf-8", newline="") as f:
            f.write(text)
        conf = self.base.copy()
        conf.update({"rights": {"type": "from_file", "file": path},
                     "logging": {"rights_rule_doesnt_match_on_debug": bool(rule_debug)}}, "verif", privileged=True)
        try:
            return from_file.Rights(conf)
        finally:
            os.remove(path)


def py_authorization(rights_obj, user, path):
    """-> (value, kind): value = permissions string | "ERR"; kind names the exception (None-group TypeError is
    the known defect C04-optional-group)."""
    try:
        return rights_obj.authorization(user, path), "ok"
    except Exception as e:
        cause = e.__cause__
        if isinstance(e, RuntimeError) and isinstance(cause, TypeError) and "NoneType" in str(cause):
            return "ERR", "none-group-typeerror"
        return "ERR", type(e).__name__ + ("/" + type(cause).__name__ if cause is not None else "")


def enc_section(sec):
    def o(x):
        return "None" if x is None else "(Some %s)" % enc_str(x)
    return "(Section %s %s %s)" % (o(sec.get("user")), o(sec.get("collection")), o(sec.get("permissions")))


# ------------------------------------------------------------------------------------------ regex pattern grammar
LIT = ["a", "a", "b", "b", "c", "/", "/", "@", ".", "-", "_", "1", "2", "x", "é", " ", "A", "\n", ",", "}", "]", "~", "#", "&", "=", ":"]
META = list("()[]{}?*+-|^$\\.&~# ")
SUBJECT_ALPHA = ["a", "b", "c", "/", "@", ".", "-", "_", "1", "2", "x", "é", " ", "A", "\n", "*", "(", "|", "\\", ",", "}", "]", "{", "\x1c", "٣"]


class Node:
    pass


def lit_src(ch, rng):
    if ch in META or (not ch.isalnum() and rng.random() < 0.3 and ch not in "\n"):
        return "\\" + ch
    return ch


def gen_class(rng):
    """returns (source, sampler) for a character class"""
    neg = rng.random() < 0.4
    n = rng.randint(1, 3)
    items, members = [], []
    for i in range(n):
        k = rng.random()
        if k < 0.45:
            ch = rng.choice(["a", "b", "c", "/", "@", ".", "x", "1", "_", " ", "é", "*", "(", "|", "$", "^"] if i else ["a", "b", "/", "@", ".", "x", "1"])
            items.append(ch)
            members.append(ch)
        elif k < 0.7:
            lo, hi = rng.choice([("a", "c"), ("a", "z"), ("0", "9"), ("A", "Z"), ("b", "b"), ("!", "/"), ("1", "2")])
            items.append(lo + "-" + hi)
            members.append(rng.choice([lo, hi]))
        elif k < 0.85:
            c = rng.choice(["\\d", "\\w", "\\s", "\\D", "\\W", "\\S"])
            items.append(c)
            members.append({"\\d": "1", "\\w": "x", "\\s": " ", "\\D": "a", "\\W": "/", "\\S": "b"}[c])
        elif k < 0.93:
            ch = rng.choice(["\\]", "\\-", "\\\\", "\\.", "\\^", "\\n", "\\t", "\\b"])
            items.append(ch)
            members.append({"\\n": "\n", "\\t": "\t", "\\b": "\b"}.get(ch, ch[1]))
        else:
            items.append(rng.choice(["]", "-"]) if i == 0 else "-")
            members.append(items[-1])
    if items[0] == "^" and not neg:
        items[0] = "a"
        members[0] = "a"
    src = "[" + ("^" if neg else "") + "".join(items) + "]"
    if rng.random() < 0.1:
        src = src[:-1] + "-]"
        members.append("-")

    def sample(r):
        if neg:
            return r.choice(["q", "Q", "7", "%", "/", "a", "\n"])
        return r.choice(members)
    return src, sample


def gen_regex(rng, depth=0, groups_ok=True):
    """Random pattern inside (mostly) the modelled dialect.  Returns (source, sampler(rng) -> str)."""
    def atom():
        k = rng.random()
        if k < 0.42:
            ch = rng.choice(LIT)
            return lit_src(ch, rng), (lambda r, ch=ch: ch)
        if k < 0.52:
            return ".", (lambda r: r.choice(["a", "/", "x", "é", "."]))
        if k < 0.66:
            return gen_class(rng)
        if k < 0.72:
            c = rng.choice(["\\d", "\\w", "\\s", "\\D", "\\W", "\\S"])
            return c, (lambda r, c=c: {"\\d": "1", "\\w": r.choice(["x", "_", "2"]), "\\s": " ", "\\D": "a", "\\W": "/", "\\S": "b"}[c])
        if k < 0.76:
            e = rng.choice(["\\n", "\\t", "\\\\", "\\/", "\\@", "\\ "])
            return e, (lambda r, e=e: {"\\n": "\n", "\\t": "\t"}.get(e, e[1]))
        if depth < 2:
            inner, s = gen_alt(rng, depth + 1)
            if groups_ok and rng.random() < 0.7:
                return "(" + inner + ")", s
            return "(?:" + inner + ")", s
        return "a", (lambda r: "a")

    def quantified():
        src, s = atom()
        k = rng.random()
        if k < 0.55:
            return src, s
        quants = [("*", 0, 3), ("+", 1, 3), ("?", 0, 1), ("{2}", 2, 2), ("{1,2}", 1, 2), ("{,2}", 0, 2),
                  ("{1,}", 1, 3), ("{0}", 0, 0), ("{0,1}", 0, 1), ("{,}", 0, 2), ("{3,3}", 3, 3)]
        if src.startswith("(") and depth >= 1:
            # no unbounded repeat of a group inside a group: keeps Python's (and the model's) backtracking tame
            quants = [q for q in quants if q[0] not in ("*", "+", "{1,}", "{,}")]
        q, lo, hi = rng.choice(quants)
        if rng.random() < 0.2:
            q += "?"

        def rep(r, s=s, lo=lo, hi=hi):
            return "".join(s(r) for _ in range(r.randint(lo, hi)))
        return src + q, rep

    def seq():
        n = rng.choice([0, 1, 1, 2, 2, 3]) if depth else rng.choice([1, 2, 2, 3, 3, 4])
        parts = [quantified() for _ in range(n)]
        return "".join(p[0] for p in parts), (lambda r, parts=parts: "".join(p[1](r) for p in parts))

    def gen_alt_(rng_, depth_):
        n = rng.choice([1, 1, 1, 2, 2, 3])
        alts = [seq() for _ in range(n)]
        return "|".join(a[0] for a in alts), (lambda r, alts=alts: r.choice(alts)[1](r))
    return gen_alt_(rng, depth)


def gen_alt(rng, depth):
    return gen_regex(rng, depth)


def mutate_str(rng, s, alpha):
    if not s or rng.random() < 0.3:
        i = rng.randint(0, len(s))
        return s[:i] + rng.choice(alpha) + s[i:]
    i = rng.randrange(len(s))
    if rng.random() < 0.5:
        return s[:i] + s[i + 1:]
    return s[:i] + rng.choice(alpha) + s[i + 1:]


MALFORMED_ALPHA = list("()[]{}*+?|\\.-,^a1b/") + ["(?:", "\\d", "[^", "{1,", "*?", "\\1", "(?P<n>", "(?=", "\\x41", "\\q", "{2}", "\\"]


def gen_malformed(rng):
    k = rng.random()
    if k < 0.5:
        src, _ = gen_regex(rng)
        for _ in range(rng.randint(1, 2)):
            src = mutate_str(rng, src, MALFORMED_ALPHA)
        return src
    return "".join(rng.choice(MALFORMED_ALPHA) for _ in range(rng.randint(1, 6)))


def py_fullmatch(p, s):
    try:
        mm = re.fullmatch(p, s)
    except RecursionError:
        return "SKIP"
    except Exception:
        return "ERR"
    return None if mm is None else tuple(mm.groups())


def _fm_chunk(chunk):
    return [py_fullmatch(p, s) for p, s in chunk]


def py_fullmatch_many(pairs, chunk=250, timeout=30):
    """re.fullmatch on many pairs in worker processes; a chunk that does not finish within `timeout`
    seconds (catastrophic backtracking inside the C engine) is returned as "SKIP"."""
    import multiprocessing
    out = []
    pool = multiprocessing.get_context("fork").Pool(min(16, max(1, len(pairs) // chunk + 1)))
    try:
        jobs = [pool.apply_async(_fm_chunk, (pairs[k:k + chunk],)) for k in range(0, len(pairs), chunk)]
        for k, j in enumerate(jobs):
            try:
                out += j.get(timeout=timeout)
            except multiprocessing.TimeoutError:
                out += ["SKIP"] * len(pairs[k * chunk:(k + 1) * chunk])
    finally:
        pool.terminate()
    return out


def regex_cases(rng, n):
    """(pattern, subject) pairs: mostly matching subjects sampled from the pattern, near misses, random."""
    out = []
    fixed = [("(a|)*", ""), ("(a*)*", "aa"), ("(a|){2,3}", "a"), ("(a*?)*", "aa"), ("(a?)*?", "a"), ("(a)|b", "b"),
             ("((a)|(b))*", "ab"), ("a*(ab)|a*(.*)", "aab"), ("x{,}", "xxx"), ("x{}", "x{}"), ("x{1", "x{1"), ("x{1,a}", "x{1,a}"),
             ("[]a]", "]"), ("[^]a]", "b"), ("[a-]", "-"), ("[a\\-z]", "-"), ("[\\d-z]", "-"), ("[a-\\d]", "a"), ("[z-a]", "z"),
             ("a**", "a"), ("a*?", ""), ("a*??", ""), ("a*+", "a"), ("*a", "a"), ("a|*b", "b"), ("(", ""), (")", ""), ("a)", "a"),
             ("(?:)", ""), ("(?:)*", ""), ("()", ""), ("()*", ""), ("(())", ""), ("\\", ""), ("a\\", "a"), ("[", ""), ("[a", "a"),
             ("[^", ""), ("\\q", "q"), ("\\é", "é"), ("\\_", "_"), ("\\ ", " "), ("a{1001}", ""), ("a{4294967295}", ""),
             ("a{4294967294}", ""), ("a{2,1}", ""), ("{", "{"), ("}", "}"), ("a{,", "a{,"), ("a{1,2", "a{1,2"), (".", "\n"), (".", ""),
             ("[^a]", "\n"), ("\\s", "\x1c"), ("\\s", "\x1f"), ("\\s", "\x0b"), ("\\w", "_"), ("\\W", "é"), ("\\d", "٣"), ("[\\d]", "٣"),
             ("\\w+@([^@]+)", "bob@example.com"), (".+@([^@]+)", "a@b@c"), ("(.+)@(.+)", "a@b@c"), ("(.+?)@(.+)", "a@b@c"),
             ("(a|ab)(c|bcd)(d*)", "abcd"), ("(a+)(a*)", "aaa"), ("(a+?)(a*)", "aaa"), ("(a{1,2}){2}", "aaa"), ("((a)|b)+", "ab"),
             ("(a)?b", "b"), ("(a)?(b)?", ""), ("(?:(a)|b)*", "ab"), ("a|ab", "ab"), ("ab|a", "ab"), ("(a|ab)*c", "abac"),
             ("[^/]+", "a/b"), ("[^/]+/[^/]+", "a/b"), ("[^/]*", ""), (".*", "a\nb"), ("(?i)a", "A"), ("a$", "a"), ("^a", "a"),
             ("\\bfoo", "foo"), ("(?P<x>a)", "a"), ("(a)\\1", "aa"), ("(?=a)a", "a"), ("\\x41", "A"), ("\\101", "A"), ("\\0", "\0"),
             ("[\\x41]", "A"), ("a{1}{2}", "aa"), ("a{1}?", "a"), ("a{1}??", "a"), ("(?:a*)*", "aaa"), ("(?:a|b)*", "abab"),
             ("(a*)+b", "aab"), ("(a|b|)+c", "abc"), ("((a*)b?)*", "aabab"), ("(a*)(b*)*", "aabb")]
    for p, s in fixed:
        out.append((p, s))
    while len(out) < n:
        k = rng.random()
        if k < 0.82:
            src, sample = gen_regex(rng)
            for _ in range(rng.choice([1, 2, 3])):
                s = sample(rng)
                j = rng.random()
                if j < 0.35:
                    s = mutate_str(rng, s, SUBJECT_ALPHA)
                elif j < 0.42:
                    s = s + rng.choice(SUBJECT_ALPHA)          # a prefix matches, the whole does not
                elif j < 0.47:
                    s = rng.choice(SUBJECT_ALPHA) + s
                out.append((src, s[:10]))
        elif k < 0.94:
            p = gen_malformed(rng)
            out.append((p, "".join(rng.choice(SUBJECT_ALPHA) for _ in range(rng.randint(0, 3)))))
        else:
            src, _ = gen_regex(rng)
            out.append((src, "".join(rng.choice(SUBJECT_ALPHA) for _ in range(rng.randint(0, 5)))))
    return out[:n]


# ------------------------------------------------------------------------------------------ str.format
FMT_PIECES = ["{user}", "{0}", "{1}", "{2}", "{}", "{{", "}}", "{", "}", "a", "/", "[^/]+", ".*", "{00}", "{10}", "{user }", "{ user}",
              "{x}", "{0!r}", "{0:>3}", "{user.a}", "{0[0]}", "{{{0}}}", "{{1,2}}", "x{{2}}", "{{{user}}}", "é", "\\", "{é}", "{٣}", "{+0}",
              "{-1}", "{0}{}", "{a{b}}", "{0000001}", "{1000000}", "{99999999999999999999}"]


def fmt_cases(rng, n):
    out = []
    for p in FMT_PIECES:
        out.append((p, ("g0", "g.1"), "u|v"))
        out.append((p, (), None))
    while len(out) < n:
        f = "".join(rng.choice(FMT_PIECES[:16] if rng.random() < 0.7 else FMT_PIECES) for _ in range(rng.randint(0, 5)))
        nargs = rng.randint(0, 3)
        args = tuple(rng.choice(["", "a", "x.y", "{0}", "{", "}}", "é"]) for _ in range(nargs))
        user = rng.choice([None, "", "bob", "{user}", "a{b", "}"])
        out.append((f, args, user))
    return out[:n]


def py_format(f, args, user):
    try:
        if user is None:
            return f.format(*args)
        return f.format(*args, user=user)
    except Exception:
        return "ERR"


def enc_fmt_in(c):
    f, args, user = c
    return "(%s, %s, %s)" % ("[" + ";".join(enc_str(a) for a in args) + "]",
                            "None" if user is None else "(Some %s)" % enc_str(user), enc_str(f))


# ------------------------------------------------------------------------------------------ rights files
USERS = ["", "bob", "bo", "bobby", "Bob", "BOB", ".*", "a|b", "(", "bob@example.com", "@example.com", "alice", "a.b", "a+b", "[a]",
         "bob/cal", "a b", "é", ".+", "x\\", "{user}", "{0}", "bob\n", "a", "b", "^bob$", "bob|.*", "b*b", "example.com", "{", "..", "?"]
PERMS = ["RW", "rw", "R", "r", "RrWw", "i", "", "W", "Rr"]
USER_PATTERNS = [".+", ".*", "bob", "bob|alice", "(bob)|(alice)", "(bob|alice)", ".+@([^@]+)", "(.+)@(.+)", "[^@]+@example\\.com",
                 "b.b", "bob.*", "(b)(o)(b)", "(?:bob|a\\|b)", "\\w+", "(.*)", "(a)?.*", "", "[a-z]+", "[^/]+", ".{{2,3}}", "b{{1,}}ob",
                 "(.+)\\.(.+)", "\\.\\*", "a\\|b", "bo?b", "(bo)+b?", "BOB|Bob", ".+?", "(.)(.*)",
                 # named groups (outside the Coq regex dialect: decided by the literal-substitution oracle only); a group may be
                 # called like a hole of the collection pattern -- {user} is the login all the same
                 "(?P<user>[^@]+)@(?P<domain>.+)", "(?P<user>b)ob", "(?P<login>bob|alice)"]
COLL_PATTERNS = ["", ".*", "{user}", "{user}/[^/]+", "{user}/.*", "{user}(/.*)?", "[^/]+", "[^/]+/[^/]+", "[^/]*", "{0}", "{0}/[^/]+",
                 "{1}", "{0}/{1}", "{1}/{0}", "public", "public/[^/]+", "{user}/private", "(?:{user}|public)/[^/]+", "{0}{user}",
                 "{user}{{0,1}}", "[^/]{{1,3}}", "{{user}}", "{user}/cal\\.ics", ".+/{user}", "({user})", "{}", "{}/{}", "{user}|public",
                 "{user}/[^/]+/[^/]+", "{user}/[^/]+(/[^/]+)?", "{2}", ".*/.*", "bob", "{user}.*", "a|b", "{0}.*",
                 # patterns with a leading or ending slash: the sanitised path has neither, so they match nothing (but the root for "/?")
                 "{user}/", "/{user}", "{user}/private/", "/.*", "[^/]+/", "/?", "{user}/[^/]+/"]
BAD_PATTERNS = ["(", "[a", "*", "{user", "}", "{", "a{2,1}", "\\", "{0!r}", "(?P<u>.+)", "^bob$", "a{{", "{x}", "\\q", "a**", "{0}{}"]
COMPONENTS = ["bob", "bo", "bobby", "Bob", "alice", "cal", "public", "private", "a", "b", ".*", "a|b", "(", "example.com", "bob@example.com",
              "a.b", "axb", "cal.ics", "calxics", "é", "a b", "[a]", "{user}", "x\\", "a+b", "aab", "bob\n", ".+", "{0}", "@example.com",
              "^bob$", "b*b", "bb", "bob|.*", "anything", "?", "{"]


def gen_rules(rng, hostile=False):
    n = rng.randint(1, 6)
    rules = []
    for i in range(n):
        sec = {}
        up = rng.choice(USER_PATTERNS)
        cp = rng.choice(COLL_PATTERNS)
        if hostile and rng.random() < 0.35:
            if rng.random() < 0.5:
                up = rng.choice(BAD_PATTERNS)
            else:
                cp = rng.choice(BAD_PATTERNS)
        k = rng.random()
        if k > 0.04:
            sec["user"] = up
        if k < 0.97 or not hostile:
            sec["collection"] = cp
        if rng.random() > (0.08 if hostile else 0.0):
            sec["permissions"] = rng.choice(PERMS)
        rules.append(sec)
    return rules


def render_rules(rules, rng=None):
    lines = []
    for i, sec in enumerate(rules):
        lines.append("[s%d]" % i)
        for key in ("user", "collection", "permissions"):
            if key in sec:
                delim = ": " if rng is None or rng.random() < 0.7 else " = "
                lines.append("%s%s%s" % (key, delim, sec[key]))
        lines.append("")
    return "\n".join(lines)


def gen_path(rng):
    d = rng.choice([0, 1, 1, 2, 2, 2, 3, 4])
    comps = [rng.choice(COMPONENTS) for _ in range(d)]
    comps = [c for c in comps if c not in ("", ".", "..") and "/" not in c]
    p = "/" + "/".join(comps)
    if comps and rng.random() < 0.5:
        p += "/"
    return p


def has_optional_group(rules):
    """user patterns whose groups may stay unset in a successful match (the known TypeError defect)"""
    return any(re.search(r"\)\?|\)\*|\)\{0|\)\|\(|\|", sec.get("user", "") or "") and "(" in (sec.get("user", "") or "")
               and "(?:" not in (sec.get("user", "") or "") for sec in rules)


# ------------------------------------------------------------------------------------------ oracles (monitors)
def split_template(t):
    """Independent scanner of a collection template: list of ('text', s) | ('hole', name).
    Returns None when the template is not in the plain {name} / {{ / }} fragment."""
    out, i, buf = [], 0, ""
    while i < len(t):
        c = t[i]
        if c == "{":
            if t[i + 1:i + 2] == "{":
                buf += "{"
                i += 2
                continue
            j = t.find("}", i)
            if j < 0:
                return None
            name = t[i + 1:j]
            if not (name == "user" or (name.isascii() and name.isdigit() and len(name) < 4)):
                return None
            if buf:
                out.append(("text", buf))
                buf = ""
            out.append(("hole", name))
            i = j + 1
            continue
        if c == "}":
            if t[i + 1:i + 2] == "}":
                buf += "}"
                i += 2
                continue
            return None
        buf += c
        i += 1
    if buf:
        out.append(("text", buf))
    return out


SENTINELS = [chr(0xE000 + k) for k in range(12)]


def holes_plain(pieces):
    """True when every hole stands as an atom of a sequence: not inside a class, not directly quantified,
    not inside a {m,n} -- the positions where 'literal substitution' has a context-free meaning."""
    depth_cls = False
    for idx, (kind, v) in enumerate(pieces):
        if kind == "text":
            # track whether we end inside a character class (rough, conservative)
            i = 0
            while i < len(v):
                ch = v[i]
                if ch == "\\":
                    i += 2
                    continue
                if depth_cls:
                    if ch == "]":
                        depth_cls = False
                elif ch == "[":
                    depth_cls = True
                    if v[i + 1:i + 2] == "^":
                        i += 1
                    if v[i + 1:i + 2] == "]":
                        i += 1
                i += 1
            if v.endswith("\\") and not v.endswith("\\\\"):
                return False
        else:
            if depth_cls:
                return False
            nxt = pieces[idx + 1] if idx + 1 < len(pieces) else None
            if nxt is not None and nxt[0] == "text" and nxt[1][:1] in ("*", "+", "?", "{"):
                return False
            if nxt is not None and nxt[0] == "hole":
                pass
            prev = pieces[idx - 1] if idx else None
            if prev is not None and prev[0] == "text" and re.search(r"\{[0-9,]*$", prev[1]):
                return False
    return True


def occurrences_replacements(path, needle, sentinel, limit=64):
    """all strings obtained from `path` by replacing a set of non-overlapping occurrences of needle by sentinel"""
    res = []

    def go(pos, acc):
        if len(res) >= limit:
            return
        k = path.find(needle, pos)
        if k < 0:
            res.append(acc + path[pos:])
            return
        # replace this occurrence
        go(k + len(needle), acc + path[pos:k] + sentinel)
        # or skip one character of it
        go_skip(k, pos, acc)

    def go_skip(k, pos, acc):
        go2(k + 1, acc + path[pos:k + 1])

    def go2(pos, acc):
        go(pos, acc)
    if needle == "":
        return [path]
    go(0, "")
    return res


def guard_text(t, sentinels):
    """Rewrite regex text so that '.', negated classes and \\W \\D \\S never match one of `sentinels`.
    Returns None for text it does not understand (unterminated class, dangling backslash)."""
    guard = "(?![%s])" % sentinels
    out, i = [], 0
    while i < len(t):
        c = t[i]
        if c == "\\":
            if i + 1 >= len(t):
                return None
            e = t[i:i + 2]
            out.append("(?:%s%s)" % (guard, e) if e[1] in "WDS" else e)
            i += 2
        elif c == ".":
            out.append("(?:%s.)" % guard)
            i += 1
        elif c == "[":
            j = i + 1
            if t[j:j + 1] == "^":
                j += 1
            if t[j:j + 1] == "]":
                j += 1
            while j < len(t) and t[j] != "]":
                j += 2 if t[j] == "\\" else 1
            if j >= len(t):
                return None
            out.append("(?:%s%s)" % (guard, t[i:j + 1]))
            i = j + 1
        else:
            out.append(c)
            i += 1
    return "".join(out)


def oracle_section(sec, user, sane_path):
    """'first full match wins with literal substitution', one section.  Independent of re.escape and
    str.format: holes are filled by a sentinel character and compared by string equality.
    Returns True / False, or None when the section is outside the fragment the oracle understands."""
    up = sec.get("user", "")
    cp = sec.get("collection")
    if cp is None or up is None:
        return None
    if up == "":
        return False
    pu = split_template(up)
    if pu is None or any(k == "hole" for k, _ in pu):
        return None
    up_text = "".join(v for _, v in pu)
    try:
        um = re.fullmatch(up_text, user)
    except Exception:
        return None
    if um is None:
        return False
    pieces = split_template(cp)
    if pieces is None or not holes_plain(pieces):
        return None
    groups = um.groups()
    values = {}
    for kind, name in pieces:
        if kind == "hole":
            if name == "user":
                values[name] = user
            else:
                i = int(name)
                if i >= len(groups):
                    return None
                if groups[i] is None:
                    return None
                values[name] = groups[i]
    names = sorted(values)
    if len(names) > len(SENTINELS):
        return None
    sent = {nm: SENTINELS[k] for k, nm in enumerate(names)}
    if any(s in user or s in sane_path or s in cp for s in SENTINELS):
        return None
    # holes with an empty value vanish; others become their sentinel; the rest of the pattern is rewritten so that
    # it cannot consume a sentinel (a sentinel of the subject stands for a whole occurrence of the value)
    guarded = [guard_text(v, "".join(SENTINELS)) if kind == "text" else None for kind, v in pieces]
    if any(g is None and kind == "text" for g, (kind, _) in zip(guarded, pieces)):
        return None
    pat = "".join(g if kind == "text" else ("" if values[v] == "" else sent[v]) for g, (kind, v) in zip(guarded, pieces))
    try:
        cre = re.compile(pat)
    except Exception:
        return None
    cands = [sane_path]
    for nm in names:
        if values[nm] == "":
            continue
        nxt = []
        for c in cands:
            nxt += occurrences_replacements(c, values[nm], sent[nm])
        cands = list(dict.fromkeys(nxt))[:256]
    return any(cre.fullmatch(c) is not None for c in cands)


def oracle_authorization(rules, user, path):
    """Returns the expected permissions (str), or None when some section before the decision is outside the oracle."""
    sane = path.strip("/")
    for sec in rules:
        r = oracle_section(sec, user, sane)
        if r is None:
            return None
        if r:
            return sec.get("permissions")       # None = missing key: outside the oracle
    return ""


# documentation-level oracle of the simple back-ends (DOCUMENTATION.md, rights section)
def doc_simple(kind, verify, user, path):
    comps = [c for c in path.strip("/").split("/")] if path.strip("/") else []
    if verify and not user:
        return ""
    owned = (not verify) or (bool(comps) and comps[0] == user)
    if kind == "authenticated":
        return {0: "RW", 1: "RW", 2: "rw"}.get(len(comps), "")
    if kind == "owner_only":
        if not comps:
            return "R"
        if not owned:
            return ""
        return {1: "RW", 2: "rw"}.get(len(comps), "")
    if kind == "owner_write":
        if not comps:
            return "R"
        if owned:
            return {1: "RW", 2: "rw"}.get(len(comps), "")
        return {1: "R", 2: "r"}.get(len(comps), "")
    raise ValueError(kind)


def example_rules_from_repo():
    """The commented example sections of /repo/rights, per plugin, un-commented."""
    path = os.path.join(core.REPO, "rights")
    with open(path) as f:
        text = f.read()
    blocks = {}
    cur = None
    for line in text.splitlines():
        m = re.match(r"#\s*Example:\s*(\w+) plugin", line)
        if m:
            cur = m.group(1)
            blocks[cur] = []
            continue
        if re.match(r"#\s*Example:", line):
            cur = None
            continue
        if cur and re.match(r"#(\[|user:|collection:|permissions:)", line):
            blocks[cur].append(line[1:])
    out = {}
    for name, lines in blocks.items():
        secs, sec = [], None
        for ln in lines:
            if ln.startswith("["):
                sec = {"_name": ln.strip("[]")}
                secs.append(sec)
            else:
                k, _, v = ln.partition(":")
                sec[k.strip()] = v.strip()
        out[name] = secs
    if "owner_only" in out and "owner_write" in out:
        out["owner_write"] = out["owner_only"] + out["owner_write"]
    return out


# ------------------------------------------------------------------------------------------ from_file case generator
def _ngroups(up):
    try:
        return re.compile(up.format()).groups
    except Exception:
        return None


def _holes(cp):
    return [int(x) for x in re.findall(r"(?<!\{)\{(\d+)\}(?!\})", cp)] + ([0] * cp.count("{}"))


_SAMPLE_SUBST = [("(/.*)?", ["", "/x", "/cal/e.ics"]), ("(/[^/]+)?", ["", "/cal"]), ("[^/]+", ["cal", "bob", "a b", ".*", "é"]),
                 ("[^/]*", ["", "cal"]), (".*", ["", "cal", "a/b/c", "bob"]), (".+", ["cal", "a/b"]), ("[^/]{{1,3}}", ["ab", "abcd"]),
                 ("{{0,1}}", [""]), ("\\.", ["."]), ("(?:", [""]), (")", [""]), ("(", [""]), ("|public", [""]), ("{{", ["{"]), ("}}", ["}"])]


def sample_path_for(rng, sec, user):
    """A path that is likely to match the section for this user (heuristic instantiation of the template)."""
    cp = sec.get("collection") or ""
    groups = ()
    try:
        mm = re.fullmatch((sec.get("user") or "").format(), user)
        if mm:
            groups = tuple(g or "" for g in mm.groups())
    except Exception:
        pass
    s = cp.replace("{user}", "\0U\0")
    for i in range(4):
        s = s.replace("{%d}" % i, "\0%d\0" % i)
    for pat, reps in _SAMPLE_SUBST:
        while pat in s:
            s = s.replace(pat, rng.choice(reps), 1)
    s = s.replace("\0U\0", user)
    for i in range(4):
        s = s.replace("\0%d\0" % i, groups[i] if i < len(groups) else "g%d" % i)
    return "/" + s.strip("/") + ("/" if rng.random() < 0.4 and s.strip("/") else "")


def gen_ff_file(rng, hostile=False, optional_groups=False):
    n = rng.randint(1, 6)
    pats = [p for p in USER_PATTERNS if optional_groups or p not in ("(bob)|(alice)", "(a)?.*")]
    rules = []
    for _ in range(n):
        up = rng.choice(pats)
        ng = _ngroups(up)
        if ng is not None and rng.random() < 0.8:
            ok = [c for c in COLL_PATTERNS if all(h < ng for h in _holes(c))]
            cp = rng.choice(ok)
        else:
            cp = rng.choice(COLL_PATTERNS)
        sec = {"user": up, "collection": cp, "permissions": rng.choice(PERMS)}
        if hostile:
            k = rng.random()
            if k < 0.18:
                sec["user"] = rng.choice(BAD_PATTERNS)
            elif k < 0.36:
                sec["collection"] = rng.choice(BAD_PATTERNS)
            elif k < 0.42:
                del sec["collection"]
            elif k < 0.48:
                del sec["permissions"]
            elif k < 0.52:
                del sec["user"]
        rules.append(sec)
    # several sections matching the same (user, path): a specific rule followed by a general one, duplicated patterns
    # with other permissions -- "first match wins" is only observable then
    if rng.random() < 0.35:
        src = rng.choice(rules)
        dup = dict(src)
        dup["permissions"] = rng.choice([p for p in PERMS if p != src.get("permissions")])
        rules.insert(rng.randint(rules.index(src) + 1, len(rules)), dup)
    if rng.random() < 0.35:
        rules.append({"user": rng.choice([".*", ".+"]), "collection": rng.choice([".*", "[^/]*(/.*)?"]), "permissions": rng.choice(PERMS)})
    return rules[:7]


def rights_config_options():
    """(section, option) pairs read through `configuration.get(...)` anywhere in the rights package (AST scan)."""
    import ast
    found = set()
    d = os.path.join(core.REPO, "radicale", "rights")
    for name in sorted(os.listdir(d)):
        if not name.endswith(".py"):
            continue
        with open(os.path.join(d, name)) as f:
            tree = ast.parse(f.read())
        for node in ast.walk(tree):
            if (isinstance(node, ast.Call) and isinstance(node.func, ast.Attribute) and node.func.attr in ("get", "get_raw")
                    and "configuration" in ast.unparse(node.func.value)):
                if len(node.args) >= 2 and all(isinstance(a, ast.Constant) for a in node.args[:2]):
                    found.add((node.args[0].value, node.args[1].value))
                else:
                    found.add(("?", ast.unparse(node)))
    return found


def gen_ff_queries(rng, rules, k):
    out = []
    for _ in range(k):
        user = rng.choice(USERS)
        j = rng.random()
        if j < 0.65:
            sec = rng.choice(rules)
            path = sample_path_for(rng, sec, user)
            if rng.random() < 0.25:
                path = "/" + mutate_str(rng, path.strip("/"), ["a", "/", ".", "x", "b"]).strip("/")
                path = re.sub("/+", "/", path)
        else:
            path = gen_path(rng)
        # only sanitised paths reach the back-end
        comps = [c for c in path.strip("/").split("/") if c not in ("", ".", "..")]
        path = "/" + "/".join(comps) + ("/" if comps and path.endswith("/") else "")
        out.append((user, path))
    return out


# ------------------------------------------------------------------------------------------ two-thread interleaving monitor
class Interleaver:
    """Runs callables in real threads under a deterministic scheduler: a `sys.settrace` line tracer in each thread
    pauses before every line of the traced source files; the main thread decides who runs next.
    A schedule is a list of (thread index, number of lines to run or None = to completion)."""

    def __init__(self, files):
        self.files = tuple(files)

    def _traced(self, frame):
        return frame.f_code.co_filename.endswith(self.files)

    def count_lines(self, fn):
        import sys
        n = [0]

        def local(frame, event, arg):
            if event == "line":
                n[0] += 1
            return local

        def glob(frame, event, arg):
            return local if self._traced(frame) else None
        old = sys.gettrace()
        sys.settrace(glob)
        try:
            try:
                fn()
            except Exception:
                pass
        finally:
            sys.settrace(old)
        return n[0]

    def run(self, fns, schedule, timeout=20):
        import sys
        import threading
        k = len(fns)
        go = [threading.Semaphore(0) for _ in range(k)]
        back = threading.Semaphore(0)
        budget = [None] * k
        done = [False] * k
        results = [None] * k
        ran = [0] * k

        def pause(i):
            back.release()
            go[i].acquire()

        def body(i):
            go[i].acquire()

            def local(frame, event, arg):
                if event == "line":
                    if budget[i] is not None:
                        if budget[i] == 0:
                            pause(i)
                        if budget[i] is not None:
                            budget[i] -= 1
                    ran[i] += 1
                return local

            def glob(frame, event, arg):
                return local if self._traced(frame) else None
            sys.settrace(glob)
            try:
                try:
                    results[i] = ("ok", fns[i]())
                except Exception as e:
                    results[i] = ("exc", type(e).__name__)
            finally:
                sys.settrace(None)
                done[i] = True
                back.release()
        threads = [threading.Thread(target=body, args=(i,), daemon=True) for i in range(k)]
        for t in threads:
            t.start()
        executed = []
        for i, n in list(schedule) + [(j, None) for j in range(k)]:
            if done[i]:
                continue
            budget[i] = n
            before = ran[i]
            go[i].release()
            if not back.acquire(timeout=timeout):
                raise RuntimeError("interleaver: thread %d did not yield" % i)
            executed.append((i, ran[i] - before))
        for t in threads:
            t.join(timeout)
        return results, executed


def schedules_two(na, nb, max_two, rng):
    """All schedules of two threads with one preemption (first runs i lines, the other runs to completion, first resumes),
    plus two-preemption schedules (the other is itself preempted after j lines): all of them when they are at most
    `max_two`, else a seeded sample."""
    out = []
    for first, n1 in ((0, na), (1, nb)):
        for i in range(0, n1 + 1):
            out.append([(first, i), (1 - first, None), (first, None)])
    two = []
    for first, n1, n2 in ((0, na, nb), (1, nb, na)):
        for i in range(0, n1 + 1):
            for j in range(1, n2):
                two.append([(first, i), (1 - first, j), (first, None), (1 - first, None)])
    if len(two) > max_two:
        two = rng.sample(two, max_two)
    return out + two


INTERLEAVE_SCENARIOS = [
    ([{"user": ".+", "collection": "", "permissions": "R"}, {"user": ".+", "collection": "{user}", "permissions": "RW"},
      {"user": ".+", "collection": "{user}/[^/]+", "permissions": "rw"}], ("alice", "/alice/cal/"), ("bob", "/bob/cal/")),
    ([{"user": ".+", "collection": "{user}(/.*)?", "permissions": "RW"}], ("alice", "/bob/"), ("bob", "/bob/")),
    ([{"user": ".+@([^@]+)", "collection": "{0}/[^/]+", "permissions": "r"}, {"user": ".*", "collection": "{user}/.*", "permissions": "W"}],
     ("a@x.org", "/x.org/cal"), ("b@y.org", "/x.org/cal")),
    ([{"user": "(bob)|(alice)", "collection": "{user}", "permissions": "RW"}, {"user": ".*", "collection": "public", "permissions": "i"}],
     ("alice", "/alice"), ("", "/public")),
]
