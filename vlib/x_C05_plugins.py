"""C05: scripted auth and rights plug-ins for the real Application (loaded by module path:
`[auth] type = vlib.x_C05_plugins`, `[rights] type = vlib.x_C05_plugins`), plus the shared event
log everything observable of one request is appended to, in order."""
from radicale import auth, rights

RAISE = object()

STATE = {
    "script": {},        # (login, password) -> user str | RAISE
    "rights_w": set(),   # users that get W on their principal collection
    "events": [],        # ("backend", login, pw) | ("home", user, created) | ("dispatch", m, bp, path, user)
}


class Auth(auth.BaseAuth):
    def _login(self, login: str, password: str) -> str:
        STATE["events"].append(("backend", login, password))
        r = STATE["script"].get((login, password), "")
        if r is RAISE:
            raise RuntimeError("scripted back-end failure")
        return r


class Rights(rights.BaseRights):
    def authorization(self, user: str, path: str) -> str:
        return "RrWw" if user and user in STATE["rights_w"] else ""
