"""Helpers of the C20 check: Gallina encoders for Model/Server.v, job generation, parallel driver runs."""
import json
import os
import subprocess
import sys
import tempfile

from vlib import core

DRIVER = os.path.join(core.VERIF, "vlib", "drivers", "c20_driver.py")

HEADER = """From Coq Require Import List ZArith NArith Bool.
Import ListNotations.
Require Import RV.Model.Server.
Open Scope Z_scope.
"""


def enc_N(n):
    return "%d%%N" % n


def enc_listN(l):
    return "[" + ";".join(enc_N(x) for x in l) + "]"


def enc_Z(z):
    return "(%d)" % z


def enc_bool(b):
    return "true" if b else "false"


def abstract_cl(s):
    if s is None or s == "":
        return ("absent",)
    try:
        return ("int", int(s))
    except ValueError:
        return ("bad",)


def enc_req(m):
    if m.get("garbage"):
        return "RGarbage"
    return "(RHttp %s)" % enc_req0(m)


def enc_req0(m):
    pref = {"ok": "PrefOk", "badheader": "PrefBadHeader", "badscript": "PrefBadScript"}[m["pref"]]
    wk = {"none": "WkNone", "redirect": "WkRedirect", "notfound": "WkNotFound"}[m["wk"]]
    auth = {"anon": "AuthAnon", "ok": "AuthOk", "fail": "AuthFail"}[m["auth"]]
    a = abstract_cl(m.get("cl"))
    cl = {"absent": "ClAbsent", "bad": "ClBad"}.get(a[0]) or "(ClInt %s)" % enc_Z(a[1])
    return "(mkReq %s %s %s %s %s %s)" % (pref, enc_bool(m["method"]), wk, auth, cl, enc_bool(bool(m.get("body"))))


def enc_cfg(cfg):
    return "(mkCfg %s %s (mkG true %s) %s)" % (enc_Z(cfg["max_conn"]), enc_bool(float(cfg["timeout"]) > 0),
                                               enc_Z(cfg["max_len"]), enc_N(cfg["listeners"]))


def enc_event(e):
    k = e[0]
    if k == "EConnect":
        return "EConnect %s" % enc_N(e[1])
    if k == "ESend":
        return "ESend %s %s %s" % (enc_N(e[1]), enc_req(e[2]), enc_bool(e[3]))
    if k in ("EClose", "ERelease", "TRead", "TTimeout", "EPartial", "EBody", "TBody"):
        return "%s %s" % (k, enc_N(e[1]))
    if k == "LBody":
        return "LBody %s" % ("None" if e[1] is None else "(Some %s)" % enc_N(e[1]))
    if k in ("EStop", "LBuild", "LSelect", "LFinal", "LClose"):
        return k
    raise ValueError(e)


def enc_obs(o):
    k = o[0]
    if k in ("ONewConn", "OEnter", "OTimedOut", "OEofSeen", "OHandlerDone", "OWaited", "OBodyRead", "OBodyTimedOut"):
        return "%s %s" % (k, enc_N(max(o[1], 0) if o[1] >= 0 else 999999))
    if k == "ORlist":
        return "ORlist %s %s" % (enc_listN(o[1]), enc_bool(o[2]))
    if k == "ORset":
        return "ORset %s %s %s" % (enc_listN(o[1]), enc_listN(o[2]), enc_bool(o[3]))
    if k == "OReaped":
        return "OReaped %s" % enc_listN(o[1])
    if k == "OAccepted":
        return "OAccepted %s %s" % (enc_N(o[1]), enc_N(o[2] if o[2] >= 0 else 999999))
    if k == "OAnswer":
        return "OAnswer %s %s" % (enc_N(o[1]), enc_N(o[2]))
    if k in ("OBreak", "OReturned"):
        return k
    raise ValueError(o)


def enc_case_in(x):
    cfg, events = x
    return "(%s, [%s])" % (enc_cfg(cfg), "; ".join(enc_event(e) for e in events))


def enc_case_out(obs):
    return "([%s], @None N)" % "; ".join(enc_obs(o) for o in obs)


def enc_gate_in(x):
    internal, max_len, m = x
    return "(mkG %s %s, %s)" % (enc_bool(internal), enc_Z(max_len), enc_req0(m))


def enc_gate_out(o):
    status, invoked = o
    return "(%s, %s)" % ("(@None N)" if status is None else "(Some %s)" % enc_N(status), enc_bool(invoked))


# ------------------------------------------------------------------------------------------ drivers
def run_jobs(jobs, scratch, procs=8, timeout=900):
    """Distribute jobs round-robin over `procs` driver processes; returns the results in job order."""
    procs = max(1, min(procs, len(jobs)))
    chunks = [[] for _ in range(procs)]
    for i, j in enumerate(jobs):
        chunks[i % procs].append((i, j))
    running = []
    env = dict(os.environ)
    env["PYTHONPATH"] = core.REPO
    env["PYTHONHASHSEED"] = "0"
    for k, ch in enumerate(chunks):
        jf = os.path.join(scratch, "c20_jobs_%d.json" % k)
        of = os.path.join(scratch, "c20_out_%d.json" % k)
        if os.path.exists(of):
            os.remove(of)
        with open(jf, "w") as f:
            json.dump([j for _, j in ch], f)
        p = subprocess.Popen([core.PY, DRIVER, jf, of], env=env, stdout=subprocess.PIPE, stderr=subprocess.STDOUT)
        running.append((p, ch, of))
    results = [None] * len(jobs)
    for p, ch, of in running:
        try:
            out, _ = p.communicate(timeout=timeout)
        except subprocess.TimeoutExpired:
            p.kill()
            out, _ = p.communicate()
        try:
            res = json.load(open(of))
        except (OSError, ValueError):
            res = [dict(inconclusive="driver produced no output: " + (out or b"").decode(errors="replace")[-800:],
                        driver_error=True)] * len(ch)
        for (i, _), r in zip(ch, res):
            results[i] = r
    return results


def script_cfgs(rng, tier_thorough=False):
    """the configuration grid: max_connections in {0 (unlimited), 1, k}, with/without a short socket timeout,
    one or two listening sockets, several max_content_length values incl. 0 (= no limit)"""
    out = []
    for mc in (0, 1, 2, 3):
        for listeners in (1, 2):
            for timeout in (0, 60, 0.3):
                out.append(dict(max_conn=mc, listeners=listeners, timeout=timeout))
    return out
