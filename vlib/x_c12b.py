"""C12 / C02 harness, part 2: store shapes, operation kinds, the traced un-faulted run of a case, the
derivation of the model request from what the real server did, and the crash / fault injection runs."""
import json
import re
import os
import shutil
import subprocess
import time

from vlib import core, trace
from vlib import x_c12 as X

RIGHTS = "[all]\nuser: .*\ncollection: .*\npermissions: RrWw\n"
PREDEF = {"pcal": {"tag": "VCALENDAR", "D:displayname": "P"}, "pbook": {"tag": "VADDRESSBOOK"}}
LAYOUTS = [(False, False), (True, True)]


def conf_for(base, lay, predefined=False, extra=None):
    rf = os.path.join(base, "rights")
    if not os.path.exists(rf):
        with open(rf, "w") as f:
            f.write(RIGHTS)
    st = {"use_cache_subfolder_for_item": str(lay[0]), "use_cache_subfolder_for_history": str(lay[1]),
          "use_cache_subfolder_for_synctoken": "False"}
    if predefined:
        st["predefined_collections"] = json.dumps(PREDEF)
    conf = {"auth": {"type": "none"}, "rights": {"type": "from_file", "file": rf}, "storage": st}
    for sec, kv in (extra or {}).items():
        conf.setdefault(sec, {}).update(kv)
    return conf


def EV(uid, summary="s"):
    return ("BEGIN:VCALENDAR\r\nPRODID:-//verif//EN\r\nVERSION:2.0\r\nBEGIN:VEVENT\r\nUID:%s\r\nSUMMARY:%s\r\n"
            "DTSTAMP:20130101T000000Z\r\nDTSTART:20130901T180000Z\r\nDTEND:20130901T190000Z\r\nEND:VEVENT\r\nEND:VCALENDAR\r\n" % (uid, summary))


def EVS(uids, summary="s"):
    body = "".join("BEGIN:VEVENT\r\nUID:%s\r\nSUMMARY:%s\r\nDTSTAMP:20130101T000000Z\r\nDTSTART:20130901T180000Z\r\nDTEND:20130901T190000Z\r\nEND:VEVENT\r\n"
                   % (u, summary) for u in uids)
    return "BEGIN:VCALENDAR\r\nPRODID:-//verif//EN\r\nVERSION:2.0\r\n%sEND:VCALENDAR\r\n" % body


def VC(uid, fn="n"):
    return "BEGIN:VCARD\r\nVERSION:3.0\r\nUID:%s\r\nFN:%s\r\nN:%s;;;;\r\nEND:VCARD\r\n" % (uid, fn, fn)


MKBOOK = ('<?xml version="1.0"?><D:mkcol xmlns:D="DAV:" xmlns:CR="urn:ietf:params:xml:ns:carddav">'
          '<D:set><D:prop><D:resourcetype><D:collection/><CR:addressbook/></D:resourcetype></D:prop></D:set></D:mkcol>')
PROPPATCH = ('<?xml version="1.0"?><D:propertyupdate xmlns:D="DAV:"><D:set><D:prop><D:displayname>%s</D:displayname>'
             '</D:prop></D:set></D:propertyupdate>')
PROPPATCH_REMOVE = ('<?xml version="1.0"?><D:propertyupdate xmlns:D="DAV:"><D:remove><D:prop><D:displayname/>'
                    '</D:prop></D:remove></D:propertyupdate>')
L = "user:"


def build_shape(shape, lay, base):
    """Build the pre-state of `shape` under base/pre-<shape>-<lay> with the real server (no fsync); returns folder."""
    from vlib import impl
    folder = os.path.join(base, "pre-%s-%d%d" % (shape, lay[0], lay[1]))
    if os.path.isdir(folder):
        return folder
    os.makedirs(folder)
    srv = impl.Server(conf=conf_for(base, lay), folder=folder, fsync=False)
    rq = srv.request
    assert rq("PROPFIND", "/user/", login=L, HTTP_DEPTH="0")[0] == 207
    assert rq("MKCALENDAR", "/user/cal/", login=L)[0] == 201
    for u in ("e1", "e2", "e3"):
        assert rq("PUT", "/user/cal/%s.ics" % u, data=EV(u), login=L)[0] == 201
    assert rq("PUT", "/user/cal/e2.ics", data=EV("e2", "changed"), login=L)[0] == 201
    assert rq("MKCOL", "/user/abook/", data=MKBOOK, login=L)[0] == 201
    assert rq("PUT", "/user/abook/c1.vcf", data=VC("c1"), login=L)[0] == 201
    assert rq("MKCALENDAR", "/user/empty/", login=L)[0] == 201
    assert rq("MKCALENDAR", "/user/cal2/", login=L)[0] == 201
    for u in ("f1", "e2x"):
        assert rq("PUT", "/user/cal2/%s.ics" % u, data=EV(u), login=L)[0] == 201
    # targets for MOVE with Overwrite: T onto an existing item with the same UID (cross and same collection)
    assert rq("PUT", "/user/cal2/e2dup.ics", data=EV("e2", "dup"), login=L)[0] == 201
    shutil.copy(os.path.join(folder, "collection-root", "user", "cal", "e1.ics"),
                os.path.join(folder, "collection-root", "user", "cal", "e1dup.ics"))
    assert rq("PROPFIND", "/user/cal/", login=L, HTTP_DEPTH="1")[0] == 207
    assert rq("MKCOL", "/user/plain/", login=L)[0] == 201
    assert rq("MKCALENDAR", "/user/plain/sub/", login=L)[0] == 201
    assert rq("MKCOL", "/user/plain/bare/", login=L)[0] == 201
    assert rq("PUT", "/user/plain/sub/g1.ics", data=EV("g1"), login=L)[0] == 201
    # untagged collections with exactly one property (PROPPATCH that removes the last property); a second principal
    assert rq("PROPPATCH", "/user/plain/", data=PROPPATCH % "plain", login=L)[0] == 207
    assert rq("PROPFIND", "/user2/", login="user2:", HTTP_DEPTH="0")[0] == 207
    assert rq("PROPPATCH", "/user2/", data=PROPPATCH % "second", login="user2:")[0] == 207
    # a legal collection name that CONTAINS a reserved name (substring tests on paths must not take it for a cache folder)
    assert rq("MKCALENDAR", "/user/old.Radicale.cache/", login=L)[0] == 201
    assert rq("PUT", "/user/old.Radicale.cache/o1.ics", data=EV("o1"), login=L)[0] == 201
    if shape in ("residue",):
        # a deleted item leaves a history entry; make it (and one more) look expired
        assert rq("PUT", "/user/cal/old1.ics", data=EV("old1"), login=L)[0] == 201
        assert rq("DELETE", "/user/cal/old1.ics", login=L)[0] == 200
        assert rq("PUT", "/user/cal/old2.ics", data=EV("old2"), login=L)[0] == 201
        assert rq("DELETE", "/user/cal/old2.ics", login=L)[0] == 200
    root = os.path.join(folder, "collection-root")
    croot = os.path.join(folder, "collection-cache")
    if shape == "cold":
        for r in (root, croot):
            for d, ds, fs in list(os.walk(r)):
                if os.path.basename(d) == ".Radicale.cache":
                    shutil.rmtree(d)
    if shape == "residue":
        cdir = X_cache_dir(folder, lay, "user/cal", "item")
        hdir = X_cache_dir(folder, lay, "user/cal", "history")
        # stale item-cache entry (no such item) and an outdated one (content changed behind the cache)
        shutil.copy(os.path.join(cdir, "e1.ics"), os.path.join(cdir, "ghost.ics"))
        shutil.copy(os.path.join(cdir, "e1.ics"), os.path.join(cdir, "e3.ics"))
        for n in ("old1.ics", "old2.ics"):
            os.utime(os.path.join(hdir, n), (1000, 1000))
        # left-overs of killed requests: a staged collection, a half-written item, a temp dir in the cache
        t = os.path.join(root, "user", ".Radicale.tmp-zzzzzzz1", "collection")
        os.makedirs(os.path.join(t, ".Radicale.cache", "item"))
        with open(os.path.join(t, ".Radicale.props"), "w") as f:
            f.write('{"tag": "VCALENDAR"}')
        with open(os.path.join(t, "lost.ics"), "w") as f:
            f.write(EV("lost"))
        t2 = os.path.join(root, "user", "cal", ".Radicale.tmp-zzzzzzz2")
        os.makedirs(t2)
        with open(os.path.join(t2, "e1.ics"), "w") as f:
            f.write("BEGIN:VCALEN")
        os.makedirs(os.path.join(cdir, ".Radicale.tmp-zzzzzzz3"))
    for d, ds, fs in os.walk(folder):
        for f in fs:
            if f.startswith(".Radicale.lock"):
                os.remove(os.path.join(d, f))
    return folder


def X_cache_dir(folder, lay, coll, sub):
    moved = lay[0] if sub == "item" else lay[1]
    return os.path.join(folder, "collection-cache" if moved else "collection-root", coll, ".Radicale.cache", sub)


# operation kinds: name -> (http request, model-request builder key, parameters)
def op_requests():
    D = "http://127.0.0.1"
    H = {"HTTP_HOST": "127.0.0.1"}
    return {
        "put_new": dict(method="PUT", path="/user/cal/n1.ics", data=EV("n1"), login=L, kind="RPutItem", coll="user/cal", href="n1.ics"),
        "put_over": dict(method="PUT", path="/user/cal/e1.ics", data=EV("e1", "over"), login=L, kind="RPutItem", coll="user/cal", href="e1.ics"),
        "put_over_stale": dict(method="PUT", path="/user/cal/e3.ics", data=EV("e3", "over3"), login=L, kind="RPutItem", coll="user/cal", href="e3.ics"),
        "put_vcf": dict(method="PUT", path="/user/abook/c2.vcf", data=VC("c2"), login=L, kind="RPutItem", coll="user/abook", href="c2.vcf"),
        "putcoll_new": dict(method="PUT", path="/user/newcal/", data=EVS(["a1", "a2", "a3"]), login=L, kind="RPutColl", coll="user/newcal"),
        "putcoll_new0": dict(method="PUT", path="/user/newcal0/", data=EVS([]), login=L, kind="RPutColl", coll="user/newcal0"),
        "putcoll_replace": dict(method="PUT", path="/user/cal/", data=EVS(["b1", "e1"], "repl"), login=L, kind="RPutColl", coll="user/cal"),
        "putcoll_replace_empty": dict(method="PUT", path="/user/empty/", data=EVS(["b2"]), login=L, kind="RPutColl", coll="user/empty"),
        "delete_item": dict(method="DELETE", path="/user/cal/e2.ics", login=L, kind="RDeleteItem", coll="user/cal", href="e2.ics"),
        "delete_coll": dict(method="DELETE", path="/user/cal/", login=L, kind="RDeleteColl", coll="user/cal"),
        "delete_coll_empty": dict(method="DELETE", path="/user/empty/", login=L, kind="RDeleteColl", coll="user/empty"),
        "delete_coll_bare": dict(method="DELETE", path="/user/plain/bare/", login=L, kind="RDeleteColl", coll="user/plain/bare"),
        "delete_coll_nested": dict(method="DELETE", path="/user/plain/", login=L, kind="RDeleteColl", coll="user/plain"),
        "move_same": dict(method="MOVE", path="/user/cal/e1.ics", login=L, headers=dict(H, HTTP_DESTINATION=D + "/user/cal/m1.ics"),
                          kind="RMove", coll="user/cal", href="e1.ics", coll2="user/cal", href2="m1.ics"),
        "move_same_over": dict(method="MOVE", path="/user/cal/e1.ics", login=L,
                               headers=dict(H, HTTP_DESTINATION=D + "/user/cal/e1.ics", HTTP_OVERWRITE="T"),
                               kind="RMoveSelf", coll="user/cal", href="e1.ics", coll2="user/cal", href2="e1.ics"),
        "move_cross": dict(method="MOVE", path="/user/cal/e1.ics", login=L, headers=dict(H, HTTP_DESTINATION=D + "/user/cal2/m2.ics"),
                           kind="RMove", coll="user/cal", href="e1.ics", coll2="user/cal2", href2="m2.ics"),
        "move_cross_over": dict(method="MOVE", path="/user/cal/e2.ics", login=L,
                                headers=dict(H, HTTP_DESTINATION=D + "/user/cal2/e2x.ics", HTTP_OVERWRITE="T"),
                                kind="RMoveOverUid", coll="user/cal", href="e2.ics", coll2="user/cal2", href2="e2x.ics"),
        "move_over_cross": dict(method="MOVE", path="/user/cal/e2.ics", login=L,
                                headers=dict(H, HTTP_DESTINATION=D + "/user/cal2/e2dup.ics", HTTP_OVERWRITE="T"),
                                kind="RMove", coll="user/cal", href="e2.ics", coll2="user/cal2", href2="e2dup.ics"),
        "move_over_same": dict(method="MOVE", path="/user/cal/e1.ics", login=L,
                               headers=dict(H, HTTP_DESTINATION=D + "/user/cal/e1dup.ics", HTTP_OVERWRITE="T"),
                               kind="RMove", coll="user/cal", href="e1.ics", coll2="user/cal", href2="e1dup.ics"),
        "move_cross_empty": dict(method="MOVE", path="/user/cal/e3.ics", login=L, headers=dict(H, HTTP_DESTINATION=D + "/user/empty/e3.ics"),
                                 kind="RMove", coll="user/cal", href="e3.ics", coll2="user/empty", href2="e3.ics"),
        "proppatch": dict(method="PROPPATCH", path="/user/cal/", data=PROPPATCH % "x", login=L, kind="RPropPatch", coll="user/cal"),
        "proppatch_home_set": dict(method="PROPPATCH", path="/user/", data=PROPPATCH % "home", login=L, kind="RPropPatch", coll="user"),
        "proppatch_plain_set": dict(method="PROPPATCH", path="/user/plain/bare/", data=PROPPATCH % "bare", login=L, kind="RPropPatch", coll="user/plain/bare"),
        "proppatch_plain_remove_last": dict(method="PROPPATCH", path="/user/plain/", data=PROPPATCH_REMOVE, login=L, kind="RPropPatch", coll="user/plain"),
        "proppatch_home_remove_last": dict(method="PROPPATCH", path="/user2/", data=PROPPATCH_REMOVE, login="user2:", kind="RPropPatch", coll="user2"),
        "mkcol": dict(method="MKCOL", path="/user/plain/col2/", login=L, kind="RMkcol", coll="user/plain/col2"),
        "mkcalendar": dict(method="MKCALENDAR", path="/user/mk/", login=L, kind="RMkcalendar", coll="user/mk"),
        "mkaddressbook": dict(method="MKCOL", path="/user/mkb/", data=MKBOOK, login=L, kind="RMkcalendar", coll="user/mkb"),
        # large items: the text layer hands them to write() at once, not at flush() (faults on write itself, short writes)
        "put_big_new": dict(method="PUT", path="/user/cal/big1.ics", data=EV("big1", "B" * 20000), login=L, kind="RPutItem", coll="user/cal", href="big1.ics"),
        "put_big_over": dict(method="PUT", path="/user/cal/e1.ics", data=EV("e1", "O" * 20000), login=L, kind="RPutItem", coll="user/cal", href="e1.ics"),
        "home": dict(method="PROPFIND", path="/u2/", login="u2:", headers={"HTTP_DEPTH": "0"}, kind="RHome", coll="u2"),
        "home_predef": dict(method="PROPFIND", path="/u3/", login="u3:", headers={"HTTP_DEPTH": "0"}, kind="RHome", coll="u3", predefined=True),
    }


def guard_requests():
    """Requests the un-faulted server REFUSES (precondition / conflict): the store must stay unchanged, whatever
    fault hits one of the calls that evaluate the precondition."""
    D = "http://127.0.0.1"
    H = {"HTTP_HOST": "127.0.0.1"}
    G = dict(login=L, kind="Guard")
    return {
        "g_move_noover_cross": dict(G, method="MOVE", path="/user/cal/e2.ics", headers=dict(H, HTTP_DESTINATION=D + "/user/cal2/e2dup.ics"),
                                    coll="user/cal", coll2="user/cal2", expect=412),
        "g_move_noover_same": dict(G, method="MOVE", path="/user/cal/e1.ics", headers=dict(H, HTTP_DESTINATION=D + "/user/cal/e1dup.ics"),
                                   coll="user/cal", expect=412),
        "g_move_over_otheruid": dict(G, method="MOVE", path="/user/cal/e2.ics",
                                     headers=dict(H, HTTP_DESTINATION=D + "/user/cal2/e2x.ics", HTTP_OVERWRITE="T"),
                                     coll="user/cal", coll2="user/cal2", expect=409),
        "g_put_otheruid": dict(G, method="PUT", path="/user/cal/e1.ics", data=EV("zz9", "other uid"), coll="user/cal", expect=409),
        "g_put_ifnonematch": dict(G, method="PUT", path="/user/cal/e1.ics", data=EV("e1", "inm"), headers={"HTTP_IF_NONE_MATCH": "*"},
                                  coll="user/cal", expect=412),
        "g_put_ifnonematch_otheruid": dict(G, method="PUT", path="/user/cal/e1.ics", data=EV("zz8", "inm"), headers={"HTTP_IF_NONE_MATCH": "*"},
                                           coll="user/cal", expect=412),
        "g_put_ifmatch_wrong": dict(G, method="PUT", path="/user/cal/e1.ics", data=EV("e1", "im"), headers={"HTTP_IF_MATCH": '"nope"'},
                                    coll="user/cal", expect=412),
        "g_delete_ifmatch_wrong": dict(G, method="DELETE", path="/user/cal/e2.ics", headers={"HTTP_IF_MATCH": '"nope"'},
                                       coll="user/cal", expect=412),
        "g_mkcalendar_existing": dict(G, method="MKCALENDAR", path="/user/cal/", coll="user/cal", expect=409),
        "g_mkcol_existing": dict(G, method="MKCOL", path="/user/abook/", data=MKBOOK, coll="user/abook", expect=405),
        "g_put_unencodable": dict(G, method="PUT", path="/user/cal/e1.ics", data=EV("e1", "caf\u00e9"), coll="user/cal", expect=400,
                                  conf_extra={"encoding": {"stock": "ascii"}}),
    }


def extra_requests():
    """C12 only (outside the assumptions of C02 / of the operation theorems): several directory levels created at once."""
    nested = {"pbook": {"tag": "VADDRESSBOOK"}, "n1/n2/pcal": {"tag": "VCALENDAR"}}
    return {
        # the storage API called with a missing parent chain (/bob/ and /bob/work/ do not exist): the same program as MKCALENDAR
        "api_create_nested": dict(api="create_collection", path="/bob/work/cal/", props={"tag": "VCALENDAR"}, user="bob",
                                  method="API", kind="RMkcalendar", coll="bob/work/cal"),
        # first login with a predefined collection whose name has several levels: not a model request, monitor only
        "home_predef_nested": dict(method="PROPFIND", path="/u4/", login="u4:", headers={"HTTP_DEPTH": "0"}, kind="MonitorOnly", coll="u4",
                                   conf_extra={"storage": {"predefined_collections": json.dumps(nested)}}),
    }


def names_requests():
    """C12: legal names that contain the text of a reserved name (`.Radicale.cache`, `.Radicale.tmp-`, `.Radicale.props`)"""
    return {
        "put_cachename_item": dict(method="PUT", path="/user/cal/ev.Radicale.cache.ics", data=EV("evc"), login=L, kind="RPutItem",
                                   coll="user/cal", href="ev.Radicale.cache.ics"),
        "put_tmpname_item": dict(method="PUT", path="/user/cal/ev.Radicale.tmp-x.Radicale.props.ics", data=EV("evt"), login=L, kind="RPutItem",
                                 coll="user/cal", href="ev.Radicale.tmp-x.Radicale.props.ics"),
        "put_in_cachecoll": dict(method="PUT", path="/user/old.Radicale.cache/n2.ics", data=EV("n2c"), login=L, kind="RPutItem",
                                 coll="user/old.Radicale.cache", href="n2.ics"),
        "proppatch_cachecoll": dict(method="PROPPATCH", path="/user/old.Radicale.cache/", data=PROPPATCH % "c", login=L, kind="RPropPatch",
                                    coll="user/old.Radicale.cache"),
        "delete_in_cachecoll": dict(method="DELETE", path="/user/old.Radicale.cache/o1.ics", login=L, kind="RDeleteItem",
                                    coll="user/old.Radicale.cache", href="o1.ics"),
    }


def nofsync_requests():
    """C02: [storage] _filesystem_fsync = False (the setting of the test-suite and of 'fast' deployments): no durability, but a
    killed process must still leave before or after.  No model request (the model has the fsync steps): monitor only, every boundary."""
    N = dict(login=L, kind="MonitorOnly", fsync=False)
    return {
        "nofsync_put_over": dict(N, method="PUT", path="/user/cal/e1.ics", data=EV("e1", "nf"), coll="user/cal"),
        "nofsync_put_new": dict(N, method="PUT", path="/user/cal/nf1.ics", data=EV("nf1"), coll="user/cal"),
        "nofsync_proppatch": dict(N, method="PROPPATCH", path="/user/cal/", data=PROPPATCH % "nf", coll="user/cal"),
        "nofsync_mkcalendar": dict(N, method="MKCALENDAR", path="/user/nfcal/", coll="user/nfcal"),
    }


def startup_requests():
    """First start on a storage location that does not exist yet (nested): the start-up belongs to the traced history."""
    return {
        "start_fresh_home": dict(method="PROPFIND", path="/user/", login=L, headers={"HTTP_DEPTH": "0"}, kind="Startup", coll="user"),
        "start_fresh_mkcalendar": dict(method="MKCALENDAR", path="/user/cal/", login=L, kind="Startup", coll="user/cal"),
        "start_fresh_mirror": dict(method="PUT", path="/user/cal/", data=EVS(["s1"]), login=L, kind="Startup", coll="user/cal", lay=(True, True)),
    }


EXTRA_OPS = {}


def all_ops():
    d = op_requests()
    d.update(guard_requests())
    d.update(extra_requests())
    d.update(names_requests())
    d.update(nofsync_requests())
    d.update(startup_requests())
    d.update(EXTRA_OPS)
    return d


SKIP = {"move_same_over", "move_cross_over"}   # rename onto itself / UID-conflict answers: not modifying


def http_of(op):
    return {k: op[k] for k in ("method", "path", "data", "login", "headers", "api", "props", "user") if k in op}


FOLLOWUP_KEY = "user/abook/zz-same.vcf"
FOLLOWUPS = [dict(method="PROPFIND", path="/user/", login=L, headers={"HTTP_DEPTH": "1"}),
             dict(method="PUT", path="/" + FOLLOWUP_KEY, data=VC("zzs"), login=L),
             dict(method="DELETE", path="/" + FOLLOWUP_KEY, login=L),
             dict(method="PROPFIND", path="/user/abook/", login=L, headers={"HTTP_DEPTH": "1"})]
FOLLOWUP_EXPECT = [207, 201, 200, 207]


def run_driver(case_dir, folder, conf, op, inject=None, list_before=(), list_after=(), timeout=120, followups=(),
               calls=None, strsize=70000, fsize=None, startup=False, fsync=True):
    spec = os.path.join(case_dir, "spec.json")
    outp = os.path.join(case_dir, "out.json")
    tr = os.path.join(case_dir, "trace.txt")
    for f in (outp, tr):
        if os.path.exists(f):
            os.remove(f)
    json.dump(dict(folder=folder, conf=conf, fsync=fsync, request=http_of(op), list_before=list(list_before),
                   list_after=list(list_after), followups=list(followups), fsize=fsize, startup=startup), open(spec, "w"))
    cmd = ["strace", "-f", "-y", "-s", str(strsize), "-e", "trace=" + (calls or X.TRACE_CALLS), "-o", tr]
    if not (inject and "signal=" in inject):
        cmd.insert(2, "--seccomp-bpf")      # signal injection needs the syscall-entry stop
    if inject:
        cmd += ["-e", "inject=" + inject]
    cmd += [core.PY, X.DRIVER, spec, outp]
    env = core._clean_env()
    env["PYTHONDONTWRITEBYTECODE"] = "1"
    try:
        p = subprocess.run(cmd, env=env, stdout=subprocess.PIPE, stderr=subprocess.STDOUT, timeout=timeout)
        rc, txt = p.returncode, p.stdout.decode(errors="replace")
    except subprocess.TimeoutExpired as ex:
        rc, txt = 124, "TIMEOUT"
    out = None
    if os.path.exists(outp):
        try:
            out = json.load(open(outp))
        except ValueError:
            out = None
    return rc, txt, out, tr


def files_of(listing, folder, coll):
    """safe file names of a listing (order kept) that are files in the tree now"""
    d = os.path.join(folder, "collection-root", coll)
    return [n for n in (listing or []) if X.Names.is_safe(n) and os.path.isfile(os.path.join(d, n))]


def expired(folder, lay, coll, gone_after, max_age=2592000):
    """history entries _clean_history would remove after the data step: safe names without an item file
    (names in gone_after count as absent, names in its complement as judged on the pre-tree), old mtime."""
    hd = X_cache_dir(folder, lay, coll, "history")
    out = []
    try:
        names_ = os.listdir(hd)
    except OSError:
        return out
    now = time.time()
    for n in names_:
        if not X.Names.is_safe(n):
            continue
        present = os.path.isfile(os.path.join(folder, "collection-root", coll, n))
        if n in gone_after:
            present = gone_after[n]
        if present:
            continue
        if os.path.getmtime(os.path.join(hd, n)) <= now - max_age:
            out.append(n)
    return out


def prepare_case(base, shape, lay, opname, tag=""):
    """copy the pre-state into a fresh case directory; returns dict(case_dir, folder, conf, op)"""
    op = all_ops()[opname]
    pre = build_shape(shape, lay, base)
    case_dir = os.path.join(base, "case-%s-%d%d-%s%s" % (shape, lay[0], lay[1], opname, tag))
    if os.path.isdir(case_dir):
        shutil.rmtree(case_dir)
    os.makedirs(case_dir)
    folder = os.path.join(case_dir, "st")
    shutil.copytree(pre, folder, symlinks=True, copy_function=shutil.copy2)
    return dict(case_dir=case_dir, folder=folder, conf=conf_for(base, lay, op.get("predefined", False), op.get("conf_extra")), op=op,
                shape=shape, lay=lay, opname=opname, pre=pre)


def unfaulted(base, shape, lay, opname):
    """Traced real run without injection + everything derived from it.  Returns a dict (picklable)."""
    c = prepare_case(base, shape, lay, opname)
    op, folder = c["op"], c["folder"]
    names = X.Names()
    contents = X.Contents()
    pre_entries = X.tree_entries(folder, names, contents)
    pre_abs = X.abs_of_tree(folder)
    names.residue = False
    coll = op["coll"]
    lb = ["collection-root/" + coll]
    if op.get("coll2"):
        lb.append("collection-root/" + op["coll2"])
    rc, txt, out, tr = run_driver(c["case_dir"], folder, c["conf"], op, list_before=lb, list_after=["collection-root/" + coll],
                                  fsync=op.get("fsync", True))
    if out is None:
        return dict(error="driver failed rc=%s %s" % (rc, txt[-800:]), **{k: c[k] for k in ("shape", "lay", "opname")})
    events = trace.parse(tr)
    post_entries = X.tree_entries(folder, names, contents)   # registers new contents before projecting writes
    steps, locks, reads = X.project(events, folder, names, contents, "req", "end")
    post_abs = X.abs_of_tree(folder)
    # ---- model request
    root = os.path.join(folder, "collection-root")
    P = lambda rel: names.path("collection-root/" + rel)  # noqa: E731
    N = names.safe_name
    kind = op["kind"]

    def cid(rel):
        with open(os.path.join(root, rel), "rb") as f:
            return contents.id(f.read())
    req = None
    pre_folder = c["pre"]
    # ---- the read-side calls of the request (a second traced run with the read calls in the trace set, short strings)
    rsites, rerr = [], None
    try:
        c2 = prepare_case(base, shape, lay, opname, tag="-rd")
        rc2, txt2, out2, tr2 = run_driver(c2["case_dir"], c2["folder"], c2["conf"], op, list_before=lb,
                                          list_after=["collection-root/" + coll], calls=RD_CALLS, strsize=RD_STR,
                                          fsync=op.get("fsync", True))
        if out2 is None or out2.get("status") != out.get("status"):
            rerr = "read-site discovery run differs: status %s vs %s" % ((out2 or {}).get("status"), out.get("status"))
        else:
            rsites = X.read_sites(trace.parse(tr2), c2["folder"])
        shutil.rmtree(c2["case_dir"], ignore_errors=True)
    except Exception as ex:
        rerr = "read-site discovery failed: %r" % (ex,)
    try:
        if kind in ("Guard", "MonitorOnly"):
            req = None
        elif kind == "RPutItem":
            before = [n for n in (out["before"].get(lb[0]) or []) if X.Names.is_safe(n) and os.path.isfile(os.path.join(pre_folder, "collection-root", coll, n))]
            req = dict(kind=kind, c=P(coll), h=N(op["href"]), v=cid(coll + "/" + op["href"]), names=[N(n) for n in before],
                       exp=[N(n) for n in expired(pre_folder, lay, coll, {op["href"]: True})])
        elif kind == "RDeleteItem":
            req = dict(kind=kind, c=P(coll), h=N(op["href"]), exp=[N(n) for n in expired(pre_folder, lay, coll, {op["href"]: False})])
        elif kind == "RDeleteColl":
            before = [n for n in (out["before"].get(lb[0]) or []) if X.Names.is_safe(n) and os.path.isfile(os.path.join(pre_folder, "collection-root", coll, n))]
            req = dict(kind=kind, c=P(coll), names=[N(n) for n in before])
        elif kind == "RMove":
            c2 = op["coll2"]
            with open(os.path.join(pre_folder, "collection-root", coll, op["href"]), "rb") as f:
                v = contents.id(f.read())
            before2 = [n for n in (out["before"].get(lb[1]) or []) if X.Names.is_safe(n) and os.path.isfile(os.path.join(pre_folder, "collection-root", c2, n))]
            same = c2 == coll
            req = dict(kind=kind, c=P(coll), h=N(op["href"]), c2=P(c2), h2=N(op["href2"]), v=v, names2=[N(n) for n in before2],
                       exp=[N(n) for n in expired(pre_folder, lay, coll, {op["href"]: False, **({op["href2"]: True} if same else {})})],
                       exp2=[N(n) for n in expired(pre_folder, lay, c2, {op["href2"]: True, **({op["href"]: False} if same else {})})])
        elif kind == "RPropPatch":
            req = dict(kind=kind, c=P(coll), pv=cid(coll + "/.Radicale.props"))
        elif kind == "RMkcol":
            req = dict(kind=kind, p=P(coll))
        elif kind == "RMkcalendar":
            req = dict(kind=kind, p=P(coll), pv=cid(coll + "/.Radicale.props"))
        elif kind == "RPutColl":
            # upload order = order in which the staged item files were created
            order = []
            for s in steps:
                st = s["step"]
                if st[0] == "Create" and any(n[0] == "Tmp" for n in st[1]) and st[1][-1][0] == "Safe" and st[1][-2] == ("Safe", 0) \
                        and st[1][-1] not in order:
                    order.append(st[1][-1])
            inv = {v: k for k, v in names.safe.items()}
            its = [(h, cid(coll + "/" + inv[h[1]])) for h in order]
            after = files_of(out["after"].get("collection-root/" + coll), folder, coll)
            req = dict(kind=kind, p=P(coll), its=its, pv=cid(coll + "/.Radicale.props"), names_after=[N(n) for n in after])
        elif kind == "RHome":
            pre_l = []
            if op.get("predefined"):
                for n in PREDEF:
                    pre_l.append((N(n), cid(coll + "/" + n + "/.Radicale.props")))
            req = dict(kind=kind, home=P(coll), predefined=pre_l)
    except (OSError, KeyError) as ex:
        req = None
        derive_error = "cannot derive the model request from what the server left behind: %r (status %s)" % (ex, out.get("status"))
    else:
        derive_error = None
    return dict(shape=shape, lay=lay, opname=opname, status=out.get("status"), request=req, derive_error=derive_error, pre_entries=pre_entries,
                guard=kind == "Guard", monitor_only=kind == "MonitorOnly", rsites=rsites, rsites_error=rerr,
                post_entries=post_entries, steps=[(s["step"], s["ok"]) for s in steps],
                sys=[[(x.name, x.ordinal) for x in s["sys"]] for s in steps], locks=[(x.name, x.ordinal) for x in locks],
                pre_abs=pre_abs, post_abs=post_abs, names=names, contents=contents, case_dir=c["case_dir"], error=None,
                list_before=lb, list_after=["collection-root/" + coll],
                reads=[(x.name, x.ordinal, r, isdir) for x, r, isdir in reads])


def startup_run(args):
    """First start on a nested storage location that does not exist: trace construction of the Application and the
    first request; the projection is rebased on the existing ancestor (the ancestors, the storage folder and
    collection-root count as visible directories).  Returns dict(opname, status, steps, verdict, error)."""
    base, opname = args
    op = all_ops()[opname]
    lay = tuple(op.get("lay", (False, False)))
    case_dir = os.path.join(base, "case-startup-%s" % opname)
    try:
        if os.path.isdir(case_dir):
            shutil.rmtree(case_dir)
        top = os.path.join(case_dir, "fresh")
        os.makedirs(top)
        folder = os.path.join(top, "a", "b", "st")
        rc, txt, out, tr = run_driver(case_dir, folder, conf_for(base, lay), op, startup=True)
        if out is None:
            return dict(opname=opname, error="driver failed rc=%s %s" % (rc, txt[-600:]))
        names, contents = X.Names(), X.Contents()
        names.residue = False
        steps, _, _ = X.project(trace.parse(tr), top, names, contents, "req", "end", rebased=True)
        steps_ok = [s_["step"] for s_ in steps if s_["ok"]]
        created = os.path.isdir(os.path.join(folder, "collection-root"))
        shutil.rmtree(case_dir, ignore_errors=True)
        return dict(opname=opname, status=out.get("status"), steps=steps_ok, verdict=X.durable_monitor(steps_ok), error=None,
                    created=created, lay=lay)
    except Exception as ex:
        import traceback
        return dict(opname=opname, error="exception: %r %s" % (ex, traceback.format_exc()[-800:]))


# ====================================================================== crash / fault injection
SUCCESS = {200, 201, 204, 207}
RD_CALLS = X.TRACE_CALLS + "," + X.READ_CALLS
RD_STR = 400


def inject_run(job):
    """One injected run.  job: dict(base, shape, lay, opname, tag, inject=(mode, errno|None, sysname, ordinal),
    expect_path (canonical model path of the step or None), pre_abs, post_abs).  Returns a result dict."""
    from vlib import impl
    c = prepare_case(job["base"], job["shape"], tuple(job["lay"]), job["opname"], tag="-" + job["tag"])
    op, folder = c["op"], c["folder"]
    mode, err, sysname, ordinal = job["inject"]
    if mode == "short":
        # no strace tampering: RLIMIT_FSIZE = ordinal bytes during the request (short write, then EFBIG)
        spec = None
    else:
        spec = "%s:%s:when=%d" % (sysname, "signal=KILL" if mode == "crash" else "error=" + err, ordinal)
        if job.get("span", 1) > 1:
            # the call and the next span-1 calls of that name fail (a retry of the same rename fails again)
            spec += "..%d" % (ordinal + job["span"] - 1)
    rc, txt, out, tr = run_driver(c["case_dir"], folder, c["conf"], op, inject=spec,
                                  list_before=job.get("list_before", ()), list_after=job.get("list_after", ()),
                                  followups=FOLLOWUPS if mode != "crash" else (),
                                  calls=RD_CALLS if job.get("rd") else None, strsize=RD_STR if job.get("rd") else 70000,
                                  fsize=ordinal if mode == "short" else None, fsync=op.get("fsync", True))
    res = dict(tag=job["tag"], status=(out or {}).get("status"), killed=out is None, problems=[], hit=False)
    # did the injection hit the intended call?
    hit_line = None
    try:
        with open(tr, errors="replace") as f:
            lines = f.readlines()
        n = 0
        for ln in lines:
            m = re.match(r"^\d+\s+(\w+)\(", ln) or re.match(r"^\d+\s+<\.\.\. (\w+) resumed>", ln)
            if m and m.group(1) == sysname and "resumed>" not in ln.split("(")[0]:
                n += 1
                if n == ordinal:
                    hit_line = ln
                    break
        if mode == "short":
            res["hit"] = any(" EFBIG " in ln for ln in lines)
        elif mode == "crash":
            res["hit"] = any("killed by SIGKILL" in ln for ln in lines[-3:]) and out is None
        else:
            res["hit"] = hit_line is not None and "(INJECTED)" in hit_line
        if hit_line is not None and job.get("expect_frag") and job["expect_frag"] not in hit_line:
            res["hit"] = False
            res["miss"] = "expected %r in %r" % (job["expect_frag"], hit_line[:200])
    except OSError as ex:
        res["miss"] = repr(ex)
    # ---- durability of the faulted request itself when it is answered with success (a fall-back path after an errno)
    if job.get("durable_request") and out is not None:
        try:
            nm3, ct3 = job["names"].copy(), job["contents"].copy()
            X.tree_entries(folder, nm3, ct3)
            steps_r, _, _ = X.project(trace.parse(tr), folder, nm3, ct3, "req", "end")
            ok_r = [s_["step"] for s_ in steps_r if s_["ok"]]
            v = X.durable_monitor(ok_r) if out.get("status") in SUCCESS else None
            res["request_durability"] = dict(verdict=v, steps=[X.fmt_step(x) for x in ok_r])
        except Exception as ex:
            res["request_durability_error"] = repr(ex)
    # ---- durability of the follow-up requests served by the same process (a fault must not switch syncing off)
    if job.get("durable_followups") and out is not None and out.get("followups"):
        try:
            evs = trace.parse(tr)
            nm2, ct2 = job["names"].copy(), job["contents"].copy()
            X.tree_entries(folder, nm2, ct2)
            fd = []
            for i, (fu, st) in enumerate(zip(FOLLOWUPS, out["followups"])):
                steps_i, _, _ = X.project(evs, folder, nm2, ct2, "fu%d" % i, "fu%d" % (i + 1))
                ok_steps = [s_["step"] for s_ in steps_i if s_["ok"]]
                v = X.durable_monitor(ok_steps) if st in SUCCESS else None
                fd.append(dict(request="%s %s" % (fu["method"], fu["path"]), status=st, verdict=v,
                               steps=[X.fmt_step(x) for x in ok_steps] if v else None))
            res["followup_durability"] = fd
        except Exception as ex:
            res["followup_durability_error"] = repr(ex)
    # ---- the server process survived the failing call: it must go on serving (lock bookkeeping reset, nothing wedged)
    if mode != "crash" and out is not None:
        fu = out.get("followups")
        res["followups"] = fu
        if fu != FOLLOWUP_EXPECT:
            res["problems"].append("the same server process does not serve normally after the failed request: "
                                   "PROPFIND/PUT/DELETE/PROPFIND answered %s (expected %s)%s" % (
                                       fu, FOLLOWUP_EXPECT, "; " + str(out.get("followup_errors"))[:200] if out.get("followup_errors") else ""))
    if mode != "crash" and out is None:
        res["problems"].append("the server process died on a failing system call")
    # ---- the all-or-nothing monitor on the surviving tree
    a = X.abs_of_tree(folder)
    a.pop(FOLLOWUP_KEY, None)
    cls = "before" if a == job["pre_abs"] else ("after" if a == job["post_abs"] else "neither")
    if job["pre_abs"] == job["post_abs"] and cls != "neither":
        cls = "same"
    if cls == "neither" and any(a == al for al in job.get("allowed", ())):
        cls = "unit-boundary"      # several atomic units (home + predefined collections): a prefix / subset of them is complete
    res["cls"] = cls
    # the visible store in model terms, for the exact comparison with the model's prediction
    nm, ct = job["names"].copy(), job["contents"].copy()
    res["abs_model"] = [((("Root",),) if rel == "" else nm.path("collection-root/" + rel), "D" if v is None else ct.id(v))
                        for rel, v in sorted(a.items())]
    if cls == "neither":
        d1 = sorted(k for k in set(a) | set(job["pre_abs"]) if a.get(k, 0) != job["pre_abs"].get(k, 0))
        d2 = sorted(k for k in set(a) | set(job["post_abs"]) if a.get(k, 0) != job["post_abs"].get(k, 0))
        res["problems"].append("visible store is neither before nor after: differs from before at %s, from after at %s" % (d1[:4], d2[:4]))
    if res["status"] in SUCCESS and cls == "before":
        res["problems"].append("answered %s but the store is in the before-state" % res["status"])
    if res["status"] in SUCCESS and cls == "same" and job.get("base_status") not in SUCCESS and job.get("base_status") is not None:
        res["problems"].append("answered %s (the fault-free run refuses the request with %s) and stored nothing" % (res["status"], job["base_status"]))
    if cls == "neither" and job.get("base_status") is not None and job["pre_abs"] == job["post_abs"]:
        res["problems"].append("the fault-free run answers %s and changes nothing; with the fault the request is answered %s" % (
            job["base_status"], res["status"]))
    # ---- a fresh server over the surviving tree: verify passes, requests are served
    try:
        for d, ds, fs in os.walk(folder):
            for f in fs:
                if f.startswith(".Radicale.lock"):
                    pass
        srv = impl.Server(conf=c["conf"], folder=folder, fsync=False)
        ok = srv.application._storage.verify()
        if not ok:
            res["problems"].append("storage.verify() fails on the surviving tree")
        st, _ = srv.propfind("/user/", depth="1", login=L)
        if st != 207:
            res["problems"].append("follow-up PROPFIND answers %s" % st)
        st2 = srv.request("PUT", "/user/abook/zz-followup.vcf", data=VC("zzf"), login=L)[0]
        if st2 != 201:
            res["problems"].append("follow-up PUT answers %s" % st2)
        a2 = X.abs_of_tree(folder)
        extra = {k: v for k, v in a2.items() if k not in ("user/abook/zz-followup.vcf",)}
        if extra != a:
            res["problems"].append("follow-up requests changed other data")
        # the names the request was about stay usable: a collection that is absent now can be created, filled and
        # deleted again -- twice (whatever the interrupted request left behind must not wedge its name)
        for coll in [x for x in (op.get("coll"), op.get("coll2")) if x and "/" in x]:
            if os.path.lexists(os.path.join(folder, "collection-root", coll)):
                continue
            if not os.path.isdir(os.path.join(folder, "collection-root", os.path.dirname(coll))):
                continue
            for rnd in (1, 2):
                seq = [srv.request("MKCALENDAR", "/%s/" % coll, login=L)[0],
                       srv.request("PUT", "/%s/zz-again.ics" % coll, data=EV("zzagain"), login=L)[0],
                       srv.request("DELETE", "/%s/" % coll, login=L)[0]]
                if seq != [201, 201, 200]:
                    res["problems"].append("the name %s is not usable any more: MKCALENDAR / PUT / DELETE of a new collection of that "
                                           "name (round %d) answered %s (expected [201, 201, 200])" % (coll, rnd, seq))
                    break
    except Exception as ex:  # a wedged or unreadable store
        res["problems"].append("fresh server over the surviving tree fails: %r" % (ex,))
    shutil.rmtree(c["case_dir"], ignore_errors=True)
    return res


READ_ERRNOS = ["EACCES", "EIO", "EMFILE", "ENOSPC"]


def site_class(key):
    variant, rel = key
    parts = rel.split("/")
    if "TMP" in parts:
        return "tmp"
    if ".Radicale.cache" in parts or parts[0] == "collection-cache":
        return "cache"
    last = parts[-1]
    if last == ".Radicale.props" or variant in ("open", "read") or "." in last:
        return "file"
    return "dir"


def op_targets(op):
    """storage paths (relative to the folder) the request is about: its target, its destination, their collections and props files"""
    t = set()
    paths = [op["path"]]
    dest = (op.get("headers") or {}).get("HTTP_DESTINATION")
    if dest:
        paths.append("/" + dest.split("/", 3)[3])
    for p in paths:
        p = p.strip("/")
        t.add("collection-root/" + p)
        t.add("collection-root/" + p + "/.Radicale.props")
        if "/" in p:
            t.add("collection-root/" + p.rsplit("/", 1)[0])
            t.add("collection-root/" + p.rsplit("/", 1)[0] + "/.Radicale.props")
    return t


def read_points(un, quick, seen, op):
    """Selection of read-side injections for one un-faulted case: list of (site dict, errno, occurrence label).
    thorough: every call with a rotating errno, plus every call site (variant, path) on a path the request is about
    with every errno.
    quick: one injection per call site; for the paths the request is about (target, destination, their collections
    and props files) every stat() of the path (the handlers ask several times: discover, preconditions, upload)
    and open() with a PermissionError and with another OSError; the other sites (siblings, parents) are shared
    between the request kinds of one HTTP method (`seen`), cache and temp-directory sites are taken once per
    (method, kind of call)."""
    by_key = {}
    for r in un.get("rsites", []):
        by_key.setdefault(r["key"], []).append(r)
    targets = op_targets(op)
    out = []
    n = 0
    for key, occ in by_key.items():
        variant = key[0]
        if not quick:
            for i, r in enumerate(occ):
                out.append((r, READ_ERRNOS[(n + i) % 4], "%d/%d" % (i + 1, len(occ))))
            if key[1] in targets:
                for e in READ_ERRNOS:
                    if e != READ_ERRNOS[n % 4]:
                        out.append((occ[0], e, "1/%d" % len(occ)))
            n += 1
            continue
        cl = site_class(key)
        if key[1] in targets:
            if variant == "fstat" and cl == "dir":
                continue
            if variant == "stat":
                for i, r in enumerate(occ[:4 if cl == "dir" else 6]):
                    out.append((r, READ_ERRNOS[(n + i) % 4], "%d/%d" % (i + 1, len(occ))))
            elif variant == "open":
                out.append((occ[0], "EACCES", "1/%d" % len(occ)))
                out.append((occ[0], "EMFILE" if n % 2 else "EIO", "1/%d" % len(occ)))
            else:
                out.append((occ[0], READ_ERRNOS[(n + 1) % 4], "1/%d" % len(occ)))
        else:
            k = (op["method"], key) if cl in ("file", "dir") else (op["method"], variant, cl)
            if k not in seen:
                seen.add(k)
                out.append((occ[0], READ_ERRNOS[n % 4], "1/%d" % len(occ)))
        n += 1
    return out


def injection_points(un, every_syscall=False):
    """From an un-faulted result: list of (k, sysname, ordinal, frag, label) -- k = model step index."""
    pts = []
    for k, ((st, ok), sysl) in enumerate(zip(un["steps"], un["sys"])):
        use = sysl if every_syscall else sysl[:1]
        for j, (name, ordinal) in enumerate(use):
            pts.append((k, name, ordinal, None, "%s%s" % (X.fmt_step(st), "" if j == 0 else " [+%d]" % j)))
    return pts


# ====================================================================== histories on ONE long-lived server process
MODIFYING = ("PUT", "DELETE", "PROPPATCH", "MOVE", "MKCOL", "MKCALENDAR")


def _rq(method, path, data=None, login=L, **headers):
    d = dict(method=method, path=path, login=login)
    if data is not None:
        d["data"] = data
    if headers:
        d["headers"] = headers
    return d


def _item_ops(coll, tag, rng, n):
    """n item-level / property changes of collection `coll` (all answered 2xx on a collection that exists and is a calendar)"""
    D = "http://127.0.0.1"
    out, mine = [], []
    for i in range(n):
        k = rng.choice(["put_new", "put_new", "put_over", "delete", "proppatch", "move_same"]) if i else "put_new"
        if k in ("put_over", "delete", "move_same") and not mine:
            k = "put_new"
        if k == "put_new":
            u = "h%s%d" % (tag, i)
            mine.append(u)
            out.append(_rq("PUT", "/%s/%s.ics" % (coll, u), EV(u)))
        elif k == "put_over":
            u = rng.choice(mine)
            out.append(_rq("PUT", "/%s/%s.ics" % (coll, u), EV(u.split("-")[0], "again%d" % i)))
        elif k == "delete":
            u = mine.pop(rng.randrange(len(mine)))
            out.append(_rq("DELETE", "/%s/%s.ics" % (coll, u)))
        elif k == "proppatch":
            out.append(_rq("PROPPATCH", "/%s/" % coll, PROPPATCH % ("d%s%d" % (tag, i))))
        else:
            u = mine.pop(rng.randrange(len(mine)))
            v = u + "-m"
            mine.append(v)
            out.append(_rq("MOVE", "/%s/%s.ics" % (coll, u), HTTP_HOST="127.0.0.1", HTTP_DESTINATION="%s/%s/%s.ics" % (D, coll, v)))
    return out


REBINDS = ("replace", "replace_empty", "delete_mkcalendar", "delete_putcoll", "empty_rmdir_mkcalendar", "parent_delete_mkcol")


def _rebind(kind, coll, tag):
    """requests after which the path of collection `coll` names ANOTHER directory than before"""
    if kind == "replace":            # whole-collection PUT over an existing collection: the two directories are exchanged
        return [_rq("PUT", "/%s/" % coll, EVS(["r%sa" % tag, "r%sb" % tag]))]
    if kind == "replace_empty":
        return [_rq("PUT", "/%s/" % coll, EVS([]))]
    if kind == "delete_mkcalendar":  # the directory is renamed into a temp directory and removed, a new one is renamed in
        return [_rq("DELETE", "/%s/" % coll), _rq("MKCALENDAR", "/%s/" % coll)]
    if kind == "delete_putcoll":
        return [_rq("DELETE", "/%s/" % coll), _rq("PUT", "/%s/" % coll, EVS(["q%sa" % tag]))]
    raise ValueError(kind)


def histories(rng, quick):
    """Multi-request histories for one server process (one Storage object) on the warm store: a collection directory is used
    (item-level changes: its directory, its cache directories are synced), then its PATH IS REBOUND to another directory
    (whole-collection PUT = exchange; DELETE + MKCALENDAR / whole-collection PUT of the same name; rmdir of an empty
    collection + MKCALENDAR; the same one level up: DELETE + MKCOL of the parent, then a collection created in it), then
    further item-level changes.  Returns list of (name, layout, [requests])."""
    out = []
    kinds = ["replace", "delete_mkcalendar", "replace_empty", "delete_putcoll"]
    lays = [(False, False), (True, True)]
    for i, k in enumerate(kinds):
        for lay in (lays if not quick else [lays[i % 2]]):
            coll = ["user/cal", "user/cal2"][i % 2]
            t = "%d%d" % (i, lay[0])
            out.append(("rebind_%s" % k, lay, _item_ops(coll, t + "a", rng, 2) + _rebind(k, coll, t) + _item_ops(coll, t + "b", rng, 3)))
    # an empty collection is removed with rmdir (no temp directory: the old directory is unlinked in place)
    out.append(("rebind_empty_rmdir_mkcalendar", lays[0],
                [_rq("PUT", "/user/empty/hx.ics", EV("hx")), _rq("DELETE", "/user/empty/hx.ics"), _rq("DELETE", "/user/empty/"),
                 _rq("MKCALENDAR", "/user/empty/")] + _item_ops("user/empty", "e", rng, 2)))
    # one level up: the parent is used (a collection created in it: the parent directory is synced), deleted and re-created
    out.append(("rebind_parent_delete_mkcol", lays[0],
                [_rq("MKCALENDAR", "/user/plain/k1/"), _rq("DELETE", "/user/plain/"), _rq("MKCOL", "/user/plain/"),
                 _rq("MKCALENDAR", "/user/plain/k2/")] + _item_ops("user/plain/k2", "p", rng, 2) + [_rq("DELETE", "/user/plain/k2/")]))
    # several rounds, rebinding kinds and lengths drawn from the seed
    for j in range(2 if quick else 8):
        coll = rng.choice(["user/cal", "user/cal2", "user/abook2"])
        seq = []
        if coll == "user/abook2":
            seq.append(_rq("MKCALENDAR", "/user/abook2/"))
        for rnd in range(rng.randrange(2, 4)):
            seq += _item_ops(coll, "x%d%d" % (j, rnd), rng, rng.randrange(1, 4))
            seq += _rebind(rng.choice(kinds), coll, "x%d%d" % (j, rnd))
        seq += _item_ops(coll, "x%dz" % j, rng, rng.randrange(2, 5))
        out.append(("rebind_rounds_%d" % j, rng.choice(lays), seq))
    return out


def history_run(args):
    """One history on one server process under strace; every request is cut out of the trace by marks.
    Returns dict(name, lay, error | results=[dict(request, status, steps, verdict, stale)], whole=[steps of the whole history])."""
    base, shape, lay, name, reqs = args
    try:
        pre = build_shape(shape, lay, base)
        case_dir = os.path.join(base, "case-hist-%s-%d%d" % (name, lay[0], lay[1]))
        if os.path.isdir(case_dir):
            shutil.rmtree(case_dir)
        os.makedirs(case_dir)
        folder = os.path.join(case_dir, "st")
        shutil.copytree(pre, folder, symlinks=True, copy_function=shutil.copy2)
        names, contents = X.Names(), X.Contents()
        X.tree_entries(folder, names, contents)
        names.residue = False
        rc, txt, out, tr = run_driver(case_dir, folder, conf_for(base, lay), reqs[0], followups=reqs[1:], timeout=300)
        if out is None:
            return dict(name=name, lay=lay, error="driver failed rc=%s %s" % (rc, txt[-600:]))
        evs = trace.parse(tr)
        X.tree_entries(folder, names, contents)
        statuses = [out.get("status")] + list(out.get("followups") or [])
        marks = [("req", "end")] + [("fu%d" % i, "fu%d" % (i + 1)) for i in range(len(reqs) - 1)]
        results, whole = [], []
        for rq_, st, (m0, m1) in zip(reqs, statuses, marks):
            steps_i, _, _ = X.project(evs, folder, names, contents, m0, m1)
            ok_steps = [s_["step"] for s_ in steps_i if s_["ok"]]
            whole += ok_steps
            stale = ["%s: the descriptor was opened as %s and names %s now" % (X.fmt_step(s_["step"]), s_["opened"], s_["now"])
                     for s_ in steps_i if s_["ok"] and s_.get("opened") is not None and s_["step"][0] == "FsyncD"]
            v = X.durable_monitor(ok_steps) if st in SUCCESS and rq_["method"] in MODIFYING else None
            results.append(dict(request="%s %s" % (rq_["method"], rq_["path"]), status=st, verdict=v, steps=ok_steps, stale=stale))
        shutil.rmtree(case_dir, ignore_errors=True)
        return dict(name=name, lay=lay, error=None, results=results, whole=whole, errors=out.get("followup_errors"))
    except Exception as ex:
        import traceback
        return dict(name=name, lay=lay, error="exception: %r %s" % (ex, traceback.format_exc()[-800:]))
