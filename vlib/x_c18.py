"""Helpers of checks/C18.py: generators, the real request-line path (http.server parse_request ->
radicale.server.RequestHandler.get_environ -> Application), probes and observers."""
import email
import http.client
import io
import itertools
import os
import re
import types
import urllib.parse
import xml.etree.ElementTree as ET
from xml.sax.saxutils import escape as xml_escape

# characters the property text names, plus a few more that matter for URL parsing
SPECIAL = " %+?#;&:@'\"<>\\"
NONASCII = ["\u00e9", "\u00df", "\u20ac", "\u65e5", "\U0001F600", "\u00a0", "\u0301", "\ufffd", "\u00ff", "\u0100",
            "\u07ff", "\u0800", "\uffff", "\U00010000", "\U0010ffff", "\ud7ff", "\ue000", "\u0080", "\u202e"]
PLAIN = "abcXYZ019_.-~"
MORE = "=!$()*,[]{}|^`\t"


def small_strings(alpha, maxlen):
    for n in range(maxlen + 1):
        for t in itertools.product(alpha, repeat=n):
            yield "".join(t)


def rand_component(rng, maxlen=8, allow_dot_start=False):
    """A safe path component (non-empty, no '/', not '.', '..'), fs-safe unless allow_dot_start."""
    while True:
        n = rng.choice([1, 1, 2, 3, 4, 5, maxlen])
        s = "".join(rng.choice([rng.choice(SPECIAL), rng.choice(SPECIAL), rng.choice(NONASCII), rng.choice(PLAIN),
                                rng.choice(PLAIN), rng.choice(MORE)]) for _ in range(n))
        if rng.random() < 0.25:
            s = rng.choice(["%20", "%2F", "%41", "%", "%%", "%zz", "%C3%A9", "%c3", "+", "a%20b", "%25", "%2e%2e", "%3F", "%23",
                            "%ff", "%E2%82", "..x", "x..", "...", "a;b", "a?b", "a#b", "http:", "a:b", "@", "~x", "x~y"]) + s
        if rng.random() < 0.2:
            # a name on the border between the codecs the request path crosses (see codec_readings)
            rd = codec_readings(s)
            if rd:
                s = rng.choice(rd)[1]
        if rng.random() < 0.3:
            s += rng.choice([".ics", ".vcf", ".ics", ""])
        if "/" in s or s in (".", "..") or not s or len(s.splitlines()) > 1:
            continue
        if "\t" in s or "\n" in s or "\r" in s or "\x00" in s:
            continue
        if not allow_dot_start and (s.startswith(".") or s.endswith("~")):
            continue
        if len(s.encode("utf-8")) > 120:
            continue
        return s


# ------------------------------------------------------------------ names on the border between two codecs
# A request path crosses several codecs between the client and the storage: percent-encoding on the wire, UTF-8 below it,
# ISO-8859-1 where WSGI carries bytes in "native strings", the charset of [encoding] request for bodies.  A site that
# applies one of them once too often or once too seldom is the identity on every name that is a fixed point of the
# extra step -- all ASCII names, and nearly every name drawn at random from a Unicode alphabet (the ISO-8859-1 bytes of
# random non-ASCII text are not UTF-8).  The names that tell the sites apart are the texts that ARE a reading of some
# other name under a pair of codecs: for every name n, n's bytes in codec A read in codec B.
CODEC_PAIRS = [("utf-8", "iso-8859-1"), ("utf-8", "cp1252"), ("iso-8859-1", "utf-8"), ("cp1252", "utf-8")]
READING_KINDS = ["%s-as-%s" % ab for ab in CODEC_PAIRS] + ["percent", "percent-twice", "percent-lower", "unquoted"]


def codec_readings(s):
    """[(kind, text)]: the texts, different from `s`, that the bytes of `s` stand for under another codec of the
    request path (mojibake in both directions), and the percent-encoded / doubly encoded / decoded spellings of `s`
    taken as NAMES.  Texts with a character that cannot be in a path component or that ends a line are left out."""
    out = []
    for a, b in CODEC_PAIRS:
        try:
            t = s.encode(a).decode(b)
        except UnicodeError:
            continue
        out.append(("%s-as-%s" % (a, b), t))
    try:
        q = urllib.parse.quote(s, safe="")
        out += [("percent", q), ("percent-twice", urllib.parse.quote(q, safe="")),
                ("percent-lower", re.sub(r"%[0-9A-F]{2}", lambda m: m.group(0).lower(), q))]
    except UnicodeEncodeError:
        pass
    out.append(("unquoted", urllib.parse.unquote(s)))
    return [(k, t) for k, t in out
            if t != s and t and "/" not in t and t not in (".", "..") and len(t.splitlines()) == 1
            and not any(ord(c) < 32 or 0xD800 <= ord(c) <= 0xDFFF for c in t)]


def reading_of(s, kind):
    for k, t in codec_readings(s):
        if k == kind:
            return t
    return None


def rand_prefix(rng):
    """A sane base prefix: '' or '/' + safe components, no trailing slash."""
    r = rng.random()
    if r < 0.15:
        return ""
    if r < 0.3:
        return rng.choice(["/radicale", "/my app", "/dav/r", "/é", "/a%20b", "/x;y", "/q?", "/h#", "/a+b", "/100%"])
    n = rng.choice([1, 1, 2])
    return "".join("/" + rand_component(rng, 5, allow_dot_start=True) for _ in range(n))


def rand_text(rng, alpha, maxlen):
    return "".join(rng.choice(alpha) for _ in range(rng.randint(0, maxlen)))


URL_ALPHA = ["/", "/", "a", "b", "%", "2", "0", "F", "f", "4", "1", "C", "3", "A", "9", ";", "?", "#", ":", "@", " ", "+", ".", "\u00e9",
             "\t", "\n", "[", "]", "h", "t", "p", "s", "-", "~", "&", "=", "\\", "%20", "%2F", "%C3%A9", "%c3", "%zz", "//", "http://",
             "https://", "HTTP://", "../", "./", "%2e", "\U0001F600", "\x00", "\x1f", "\u00ff", "%ff", "%E2%82%AC", "%E2%82", "%ED%A0%80",
             "%F0%9F%98%80", "%F4%90%80%80", "%C0%AF", "%E0%80%AF"]


def rand_url(rng, maxlen=10):
    return "".join(rng.choice(URL_ALPHA) for _ in range(rng.randint(0, maxlen)))


def rand_bytes_utf8ish(rng, maxlen=8):
    """Byte strings around the UTF-8 boundaries: valid sequences, truncated ones, overlongs, surrogates."""
    out = bytearray()
    for _ in range(rng.randint(0, maxlen)):
        k = rng.random()
        if k < 0.3:
            out += rng.choice(NONASCII + list(PLAIN)).encode("utf-8")
        elif k < 0.5:
            b = rng.choice(NONASCII).encode("utf-8")
            out += b[:rng.randint(1, len(b))]
        elif k < 0.8:
            out.append(rng.choice([0x00, 0x7f, 0x80, 0xbf, 0xc0, 0xc1, 0xc2, 0xdf, 0xe0, 0xe1, 0xec, 0xed, 0xee, 0xef, 0xf0, 0xf1,
                                   0xf3, 0xf4, 0xf5, 0xff, 0x9f, 0xa0, 0x8f, 0x90, 0x41]))
        else:
            out.append(rng.randrange(256))
    return bytes(out)


# ------------------------------------------------------------------ the real request-line path
def environ_from_request_line(raw_target, method="GET", headers=None):
    """Run CPython's http.server request parsing and radicale.server.RequestHandler.get_environ on a raw
    request line (no socket): returns the WSGI environ, or None when http.server rejects the request line."""
    from radicale import server
    h = object.__new__(server.RequestHandler)
    if isinstance(raw_target, str):
        raw_target = raw_target.encode("latin-1")
    hdr = b"".join(("%s: %s\r\n" % (k, v)).encode("latin-1") for k, v in (headers or {}).items())
    h.rfile = io.BytesIO(hdr + b"\r\n")
    h.wfile = io.BytesIO()
    h.raw_requestline = method.encode() + b" " + raw_target + b" HTTP/1.1\r\n"
    h.client_address = ("127.0.0.1", 12345)
    h.connection = None
    h.request = None
    h.server = types.SimpleNamespace(base_environ={"SERVER_NAME": "127.0.0.1", "SERVER_PORT": "80", "GATEWAY_INTERFACE": "CGI/1.1",
                                                   "REMOTE_HOST": "", "CONTENT_LENGTH": "", "SCRIPT_NAME": ""})
    h.server_version = "x"
    h.log_error = lambda *a: None
    if not h.parse_request():
        return None
    return h.get_environ()


def get_environ_only(target):
    """Only RequestHandler.get_environ, with self.path = target (a str as http.server would hold it)."""
    from radicale import server
    h = object.__new__(server.RequestHandler)
    h.path = target
    h.client_address = ("127.0.0.1", 12345)
    h.connection = None
    h.request = None
    h.request_version = "HTTP/1.1"
    h.command = "GET"
    h.headers = http.client.parse_headers(io.BytesIO(b"\r\n"))
    h.server = types.SimpleNamespace(base_environ={})
    h.server_version = "x"
    return h.get_environ()["PATH_INFO"]


def call_app(srv, env, data=None):
    """Call the real Application with a prepared environ; returns (status, headers, body)."""
    import wsgiref.util
    env = dict(env)
    if data is not None:
        b = data if isinstance(data, bytes) else data.encode("utf-8")
        env["wsgi.input"] = io.BytesIO(b)
        env["CONTENT_LENGTH"] = str(len(b))
    env["wsgi.errors"] = io.StringIO()
    wsgiref.util.setup_testing_defaults(env)
    out = {}

    def start_response(status_, headers_):
        out["status"] = int(status_.split()[0])
        out["headers"] = dict(headers_)
    answers = list(srv.application(env, start_response))
    return out["status"], out["headers"], b"".join(answers)


def send_raw(srv, method, raw_target, headers=None, data=None, extra_env=None):
    """A request as a client would put it on the wire: request line -> http.server -> get_environ -> Application."""
    env = environ_from_request_line(raw_target, method, headers)
    if env is None:
        return None
    if extra_env:
        env.update(extra_env)
    return call_app(srv, env, data)


def install_probe(srv):
    """Method PROBE: records (base_prefix, path, user) exactly as _handle_request hands them to a handler."""
    seen = []

    def do_PROBE(environ, base_prefix, path, user):
        seen.append((base_prefix, path, user))
        return 200, {"Content-Type": "text/plain"}, "probe"
    srv.application.do_PROBE = do_PROBE
    return seen


def multiget_body(hrefs, kind="C"):
    tag = "C:calendar-multiget" if kind == "C" else "CR:addressbook-multiget"
    data = "C:calendar-data" if kind == "C" else "CR:address-data"
    return ('<?xml version="1.0" encoding="utf-8"?><%s xmlns:D="DAV:" xmlns:C="urn:ietf:params:xml:ns:caldav" '
            'xmlns:CR="urn:ietf:params:xml:ns:carddav"><D:prop><D:getetag/><%s/></D:prop>%s</%s>' % (
                tag, data, "".join("<D:href>%s</D:href>" % xml_escape(h) for h in hrefs), tag))


def xml_ok(s):
    """Can this text be carried in an XML 1.0 document?"""
    for ch in s:
        o = ord(ch)
        if not (o in (9, 10, 13) or 0x20 <= o <= 0xD7FF or 0xE000 <= o <= 0xFFFD or 0x10000 <= o <= 0x10FFFF):
            return False
    return True


def all_hrefs(body):
    """Every D:href text of a multistatus body, in document order, with the element that owns it:
    ('response', href) or ('prop:<human tag>', href)."""
    from radicale import xmlutils
    import defusedxml.ElementTree as DefusedET
    xml = DefusedET.fromstring(body)
    out = []
    href_tag = xmlutils.make_clark("D:href")
    for response in xml.findall(xmlutils.make_clark("D:response")):
        for child in response:
            if child.tag == href_tag:
                out.append(("response", child.text or ""))
        for prop in response.iter():
            for sub in prop:
                if sub.tag == href_tag and prop is not response:
                    out.append(("prop:" + xmlutils.make_human_tag(prop.tag), sub.text or ""))
    return out


def response_status_map(body):
    """href -> status (int) of a multistatus: the response status or the first propstat status."""
    from radicale import xmlutils
    import defusedxml.ElementTree as DefusedET
    xml = DefusedET.fromstring(body)
    out = []
    for response in xml.findall(xmlutils.make_clark("D:response")):
        href = response.find(xmlutils.make_clark("D:href")).text or ""
        st = response.find(xmlutils.make_clark("D:status"))
        if st is None:
            st = response.find("%s/%s" % (xmlutils.make_clark("D:propstat"), xmlutils.make_clark("D:status")))
        data = None
        for el in response.iter():
            if el.tag in (xmlutils.make_clark("C:calendar-data"), xmlutils.make_clark("CR:address-data")):
                data = el.text
        out.append((href, int(st.text.split(" ")[1]) if st is not None else None, data))
    return out


def is_wf_quoted(h):
    """( unreserved | '/' | '%' HEX HEX )* with upper-case hex: the monitor's own statement of well-formedness."""
    i = 0
    ok = set("ABCDEFGHIJKLMNOPQRSTUVWXYZabcdefghijklmnopqrstuvwxyz0123456789_.-~/")
    while i < len(h):
        c = h[i]
        if c == "%":
            if i + 2 >= len(h):
                return False
            if not (h[i + 1] in "0123456789ABCDEF" and h[i + 2] in "0123456789ABCDEF"):
                return False
            i += 3
        elif c in ok:
            i += 1
        else:
            return False
    return True


def fs_path(folder, path):
    """Storage path of a sanitised request path below collection-root."""
    return os.path.join(folder, "collection-root", *[p for p in path.strip("/").split("/") if p])


# ------------------------------------------------------------------ monitors: what sits between client and Radicale
MODES = ["none", "wsgi", "proxy-strip", "proxy-strip-xff", "proxy-full-xff", "config-full-xff"]
HOSTNAME = "dav.example.org"


class LeftMount(Exception):
    """The URL does not lie below the mount prefix: the front would not pass it to Radicale."""


def latin1(s):
    try:
        s.encode("latin-1")
        return True
    except UnicodeEncodeError:
        return False


class Front:
    """A client-side view of one deployment: `send` takes the request target exactly as a client writes it on the
    request line and passes it through the front (none / WSGI container / reverse proxy) to the real application."""

    def __init__(self, srv, mode, prefix, login=None, style="strict"):
        assert mode in MODES
        self.srv, self.mode, self.prefix, self.login = srv, mode, prefix, login
        self.safe = "/" if style == "strict" else "/!$&'()*+,;=:@"
        self.log = []

    def client_url(self, path):
        """How a client spells the URL of a storage path it wants to create (its own percent-encoding):
        'strict' escapes everything but unreserved characters, 'pchar' leaves the sub-delims and : @ raw,
        which RFC 3986 allows inside a path segment."""
        return urllib.parse.quote(self.prefix + path, safe=self.safe)

    def send(self, method, target, headers=None, data=None):
        import base64
        headers = dict(headers or {})
        headers.setdefault("Host", HOSTNAME)
        if self.login:
            headers["Authorization"] = "Basic " + base64.b64encode(self.login.encode("utf-8")).decode()
        extra = {}
        prefix, mode = self.prefix, self.mode

        def header(name, value):
            if latin1(value):
                headers[name] = value
            else:
                extra["HTTP_" + name.upper().replace("-", "_")] = value
        if mode in ("proxy-strip", "proxy-strip-xff") and prefix:
            path, sep, query = target.partition("?")
            dec = urllib.parse.unquote(path)
            if not (dec == prefix or dec.startswith(prefix + "/")):
                raise LeftMount(target)
            target = urllib.parse.quote(dec[len(prefix):] or "/", safe="/") + sep + query
        if mode.startswith("proxy") and prefix:
            header("X-Script-Name", prefix)
        if mode.endswith("-xff"):
            headers["X-Forwarded-For"] = "10.1.2.3"
        env = environ_from_request_line(target, method, headers)
        if env is None:
            self.log.append((method, target, "rejected by http.server"))
            return 400, {}, b""
        env.update(extra)
        if mode == "wsgi" and prefix:
            pi = env["PATH_INFO"]
            if not (pi == prefix or pi.startswith(prefix + "/")):
                raise LeftMount(target)
            env["SCRIPT_NAME"] = prefix
            env["PATH_INFO"] = pi[len(prefix):]
        st, h, body = call_app(self.srv, env, data)
        self.log.append((method, target, st))
        return st, h, body


PROPFIND_ALL = ('<?xml version="1.0"?><D:propfind xmlns:D="DAV:" xmlns:C="urn:ietf:params:xml:ns:caldav" '
                'xmlns:CR="urn:ietf:params:xml:ns:carddav"><D:prop><D:getetag/><D:resourcetype/><D:principal-URL/>'
                '<D:current-user-principal/><D:principal-collection-set/><C:calendar-home-set/><CR:addressbook-home-set/>'
                '<C:calendar-user-address-set/><D:owner/></D:prop></D:propfind>')
SYNC_BODY = ('<?xml version="1.0"?><D:sync-collection xmlns:D="DAV:"><D:sync-token/><D:sync-level>1</D:sync-level>'
             '<D:prop><D:getetag/></D:prop></D:sync-collection>')
QUERY_BODY = {
    "C": ('<?xml version="1.0"?><C:calendar-query xmlns:D="DAV:" xmlns:C="urn:ietf:params:xml:ns:caldav"><D:prop><D:getetag/></D:prop>'
          '<C:filter><C:comp-filter name="VCALENDAR"/></C:filter></C:calendar-query>'),
    "CR": ('<?xml version="1.0"?><CR:addressbook-query xmlns:D="DAV:" xmlns:CR="urn:ietf:params:xml:ns:carddav"><D:prop><D:getetag/>'
           '</D:prop></CR:addressbook-query>'),
}


def etags_of(body):
    """[(href, etag or None, is_collection)] of a multistatus."""
    from radicale import xmlutils
    import defusedxml.ElementTree as DefusedET
    xml = DefusedET.fromstring(body)
    out = []
    for response in xml.findall(xmlutils.make_clark("D:response")):
        href = response.find(xmlutils.make_clark("D:href")).text or ""
        etag = None
        coll = False
        for el in response.iter():
            if el.tag == xmlutils.make_clark("D:getetag") and el.text:
                etag = el.text
            if el.tag == xmlutils.make_clark("D:collection"):
                coll = True
        out.append((href, etag, coll))
    return out


# ------------------------------------------------------------------ servers on a memory file system when there is one
import contextlib
import shutil
import tempfile


@contextlib.contextmanager
def fast_server(conf):
    """vlib.impl.Server over a folder in /dev/shm (renames on a loaded disk dominate the run time otherwise)."""
    from vlib.impl import Server
    base = "/dev/shm" if os.path.isdir("/dev/shm") and os.access("/dev/shm", os.W_OK) else None
    folder = tempfile.mkdtemp(prefix="rv-c18-", dir=base)
    srv = Server(conf, folder=folder)
    try:
        yield srv
    finally:
        shutil.rmtree(folder, ignore_errors=True)


# ------------------------------------------------------------------ third prefix source: a configuration FILE
MODES.append("configfile-full-xff")


def config_file_text(script_name, web, folder):
    """The text of a configuration file as an administrator writes it (one `option = value` per line)."""
    return ("[server]\nscript_name = %s\n\n[auth]\ntype = none\ndelay = 0\n\n[web]\ntype = %s\n\n"
            "[storage]\nfilesystem_folder = %s\n\n[logging]\nlevel = critical\n" % (script_name, web, folder))


@contextlib.contextmanager
def file_server(script_name, web="internal"):
    """The real Application configured ONLY through a configuration file loaded with config.load([(path, False)])
    (the way `radicale --config FILE` does), storage in /dev/shm when there is one.
    Yields an object with .application, .folder, .configuration, .config_text."""
    from radicale import app, config
    base = "/dev/shm" if os.path.isdir("/dev/shm") and os.access("/dev/shm", os.W_OK) else None
    top = tempfile.mkdtemp(prefix="rv-c18f-", dir=base)
    try:
        folder = os.path.join(top, "store")
        text = config_file_text(script_name, web, folder)
        path = os.path.join(top, "config")
        with open(path, "w") as f:
            f.write(text)
        configuration = config.load([(path, False)])
        configuration.update({"storage": {"_filesystem_fsync": "False"}}, "verif", privileged=True)
        yield types.SimpleNamespace(application=app.Application(configuration), folder=folder,
                                    configuration=configuration, config_text=text)
    finally:
        shutil.rmtree(top, ignore_errors=True)


def file_value_ok(v):
    """Can `script_name = v` be written on one line of a configuration file and be accepted by Application.__init__?"""
    return (v.startswith("/") and not v.strip().endswith("/") and "\n" not in v and "\r" not in v
            and all(ord(c) >= 32 or c == "\t" for c in v))
