#!/bin/sh
# Build the whole Rocq development from files on disk (offline). Gen/ is regenerated from /repo first.
set -e
cd "$(dirname "$0")"
/venv/bin/python - <<'PY'
import sys
sys.path.insert(0, ".")
from vlib import core
with core.coq_lock():
    errs = core.regenerate()
    for k, v in errs.items():
        print("translate error (reported by the checks as a broken obligation):", k, v)
    core.coq_project()
PY
cd coq
timeout 3000 make -j16 -k 2>&1 | grep -v -i "conda" | tail -40 || true
exit 0
