"""Tie T, second translator (DESIGN 2.2 "skeleton.py"): regenerate coq/Gen/Skeleton.v from the CURRENT
radicale/app/*.py, storage/multifilesystem/{lock,meta,__init__}.py with Python's `ast`.

For every `do_*` handler and for `_handle_request` a skeleton term (RV.Model.LockDiscipline.skel) is
emitted: the tree of control-flow paths (if/else, boolean short-circuit, try/except, with, early returns,
loops as 0-or-more) carrying, in evaluation order, the events

  SParse            request body read / XML parse   (self._read_xml_request_body, httputils.read_request_body)
  SWith m / SEnter m / SStack / SUnlock
                    `with self._storage.acquire_lock(m, ..)`, the ExitStack idiom of do_REPORT and a call of
                    the `lock_stack.close` / `unlock_storage_fn` parameter
  SStorage k        a call or property access that reaches the storage API on a receiver classified as a
                    storage object
  SReturn           return of a handler (with the HTTP status when it is a constant) / of an inlined helper

Helpers (module-level functions of radicale/app, methods of the Application parts, nested functions) are
inlined by name.  The translator FAILS CLOSED (Unsupported -> broken obligation, never a guess) on

  * an access `X.attr` with attr in the storage API whose receiver X cannot be classified,
  * a storage object handed to a function that is neither inlined nor listed in OPAQUE_OK,
  * a storage object bound to a local name that LOCALS does not declare,
  * any statement / expression form it does not know, recursion, non-constant lock modes, ...

The skeleton is syntactic: a lazily consumed generator contributes its events where it is created.
"""
import ast
import os

# ----------------------------------------------------------------------------------------------- tables
API_METHODS = {"discover": "Discover", "get_all": "GetAll", "get_multi": "GetMulti", "get_filtered": "GetFiltered",
               "get_meta": "GetMeta", "set_meta": "SetMeta", "sync": "Sync", "has_uid": "HasUid", "upload": "Upload",
               "delete": "Delete", "move": "Move", "create_collection": "CreateCollection", "serialize": "Serialize",
               "verify": "Verify"}
API_PROPS = {"tag": "Tag", "etag": "Etag", "last_modified": "LastModified"}
API = dict(API_METHODS, **API_PROPS)
STORAGE_ONLY = {"discover", "move", "create_collection", "verify", "acquire_lock"}      # on self._storage
COLL_PLAIN = {"path", "owner", "is_principal"}          # computed from the path string only (storage/__init__.py)
ITEM_ATTRS = {"href", "uid", "name", "component_name", "collection", "vobject_item", "time_range", "prepare",
              "path", "owner", "is_principal"}

# kinds: storage | coll | either | item | iter (container of storage objects) | access | lockstack | unlock
#        | dispatch | none | other | unknown
STORAGEISH = {"storage", "coll", "either", "iter", "lockstack", "unlock"}

# REVIEWED per-function classification of the local names that hold storage objects (or objects the
# lock idiom needs).  Everything else is inferred as `other` only when every assignment to the name is
# provably not a storage object; a name that stays unknown and is used as receiver of an API attribute
# makes the translation fail.
LOCALS = {
    "_handle_request": {"principal": "either", "new_coll": "coll", "function": "dispatch"},
    "do_GET": {"item": "either", "access": "access"},
    "do_HEAD": {},
    "do_PROPFIND": {"items_iter": "iter", "item": "either", "allowed_items": "iter", "access": "access"},
    "_collect_allowed_items": {"item": "either"},
    "xml_propfind": {"item": "either"},
    "xml_propfind_response": {"collection": "coll", "x": "item"},
    "do_REPORT": {"item": "either", "collection": "coll", "lock_stack": "lockstack", "access": "access"},
    "xml_report": {"item": "item", "retrieved_items": "other"},
    "free_busy_report": {"item": "item", "retrieved_items": "other"},
    "retrieve_items": {"item": "item"},
    "do_PUT": {"item": "either", "parent_item": "either", "prepared_item": "item", "access": "access",
               "prepared_items": "other"},
    "prepare": {"item": "item"},
    "do_DELETE": {"item": "either", "i": "item", "access": "access"},
    "do_MOVE": {"item": "either", "to_item": "either", "to_collection": "either", "access": "access",
                "to_access": "access"},
    "do_PROPPATCH": {"item": "either", "access": "access"},
    "do_MKCOL": {"item": "either", "parent_item": "either"},
    "do_MKCALENDAR": {"item": "either", "parent_item": "either"},
    "_expand": {"item": "item"},
}

# callees that are NOT inlined and may receive a storage object: reviewed to touch nothing but `.path`
# (pathutils.name_from_path), the in-memory attributes of an Item (xmlutils.get_content_type), or nothing.
OPAQUE_OK = {"isinstance", "bool", "iter", "next", "list", "itertools.chain", "pathutils.name_from_path",
             "xmlutils.get_content_type", "copy.copy", "len", "repr", "str"}

PARSE_CALLS = {"httputils.read_request_body", "httputils.read_raw_request_body"}
PARSE_METHODS = {"_read_xml_request_body"}

APP_FILES = ["__init__", "base", "get", "head", "options", "post", "propfind", "proppatch", "report", "put", "delete",
             "move", "mkcol", "mkcalendar"]
XML_HANDLERS = ["do_PROPFIND", "do_PROPPATCH", "do_REPORT", "do_MKCOL", "do_MKCALENDAR"]


class Unsupported(Exception):
    pass


def dotted(node):
    if isinstance(node, ast.Name):
        return node.id
    if isinstance(node, ast.Attribute):
        d = dotted(node.value)
        return d + "." + node.attr if d else None
    return None


# ----------------------------------------------------------------------------------------------- skeleton terms (python side)
def Seq(*xs):
    out = []
    for x in xs:
        if x is None or x == ("SSkip",):
            continue
        if x[0] == "SSeqL":
            out += x[1]
        else:
            out.append(x)
    if not out:
        return ("SSkip",)
    if len(out) == 1:
        return out[0]
    return ("SSeqL", out)


def Alt(a, b):
    if a == b:
        return a
    return ("SAlt", a, b)


def Loop(b):
    if b == ("SSkip",):
        return b
    return ("SLoop", b)


def Call(b):
    """An inlined call.  A trailing `return` of the callee is the normal end of the call; when no other
    return remains the SCall wrapper (which only turns a return into a normal end) is not needed."""
    if b[0] == "SSeqL" and b[1][-1] == ("SReturn", None):
        b = Seq(*b[1][:-1])
    elif b == ("SReturn", None):
        b = ("SSkip",)
    if b == ("SSkip",):
        return b
    if not has_return(b):
        return b
    return ("SCall", b)


def has_return(t):
    if t[0] == "SReturn":
        return True
    if t[0] == "SCall":
        return False
    if t[0] == "SSeqL":
        return any(has_return(x) for x in t[1])
    return any(has_return(x) for x in t[1:] if isinstance(x, tuple))


def Try(b, h):
    if b == ("SSkip",) and h == ("SSkip",):
        return b
    return ("STry", b, h)


def render(t, ind=2):
    pad = " " * ind
    k = t[0]
    if k in ("SSkip", "SParse", "SUnlock", "SRaise", "SBreak", "SContinue"):
        return k
    if k == "SStorage":
        return "(SStorage %s (* %s *))" % (t[1], t[2])
    if k == "SEnter":
        return "(SEnter %s)" % t[1]
    if k == "SReturn":
        if t[1] is None:
            return "(SReturn None)"
        return "(SReturn (Some %s))" % ("StAny" if t[1] == "any" else "(StCode %d)" % t[1])
    if k == "SHole":
        return "h"
    if k == "SSeqL":
        xs = t[1]
        s = render(xs[-1], ind)
        for x in reversed(xs[:-1]):
            s = "(SSeq %s\n%s %s)" % (render(x, ind), pad, s)
        return s
    if k in ("SAlt", "STry"):
        return "(%s\n%s   %s\n%s   %s)" % (k, pad, render(t[1], ind + 3), pad, render(t[2], ind + 3))
    if k in ("SLoop", "SStack", "SCall"):
        return "(%s\n%s   %s)" % (k, pad, render(t[1], ind + 3))
    if k == "SWith":
        return "(SWith %s\n%s   %s)" % (t[1], pad, render(t[2], ind + 3))
    raise Unsupported("render %r" % (k,))


def size(t):
    if t[0] == "SSeqL":
        return 1 + sum(size(x) for x in t[1])
    return 1 + sum(size(x) for x in t[1:] if isinstance(x, tuple))


# ----------------------------------------------------------------------------------------------- program database
class Program:
    def __init__(self, repo):
        self.repo = repo
        self.modules = {}       # short name -> ast.Module
        self.funcs = {}         # (module, name) -> FunctionDef   (module level)
        self.methods = {}       # name -> [(module, class, FunctionDef)]
        self.imports = {}       # module -> {local name: (module, name)} for `from radicale.app.X import f`
        for m in APP_FILES:
            p = os.path.join(repo, "radicale", "app", m + ".py")
            with open(p) as fh:
                tree = ast.parse(fh.read(), p)
            self.modules[m] = tree
            self.imports[m] = {}
            for node in tree.body:
                if isinstance(node, ast.FunctionDef):
                    self.funcs[(m, node.name)] = node
                elif isinstance(node, ast.ClassDef):
                    for sub in node.body:
                        if isinstance(sub, ast.FunctionDef):
                            self.methods.setdefault(sub.name, []).append((m, node.name, sub))
                elif isinstance(node, ast.ImportFrom) and node.module and node.module.startswith("radicale.app."):
                    src = node.module.split(".")[-1]
                    for a in node.names:
                        self.imports[m][a.asname or a.name] = (src, a.name)
        self.http_codes = self._http_codes()

    def _http_codes(self):
        """httputils.NAME -> status code, from `NAME: types.WSGIResponse = (client.X, ...)`."""
        import http.client
        out = {}
        with open(os.path.join(self.repo, "radicale", "httputils.py")) as fh:
            tree = ast.parse(fh.read())
        for node in tree.body:
            tgt = val = None
            if isinstance(node, ast.AnnAssign) and isinstance(node.target, ast.Name):
                tgt, val = node.target.id, node.value
            elif isinstance(node, ast.Assign) and len(node.targets) == 1 and isinstance(node.targets[0], ast.Name):
                tgt, val = node.targets[0].id, node.value
            if tgt and isinstance(val, ast.Tuple) and val.elts:
                d = dotted(val.elts[0])
                if d and d.startswith("client.") and hasattr(http.client, d[7:]):
                    out[tgt] = int(getattr(http.client, d[7:]))
        return out

    def method(self, name):
        c = self.methods.get(name, [])
        if len(c) == 1:
            return c[0]
        if not c:
            return None
        raise Unsupported("method %s is defined in several Application parts: %s" % (name, [x[1] for x in c]))

    def function(self, module, name):
        if (module, name) in self.funcs:
            return module, self.funcs[(module, name)]
        imp = self.imports.get(module, {}).get(name)
        if imp and imp in self.funcs:
            return imp[0], self.funcs[imp]
        return None


def ann_kind(ann):
    """Kind of a parameter / result from its annotation (None when the annotation says nothing)."""
    if ann is None:
        return None
    src = ast.unparse(ann)
    has_coll = "BaseCollection" in src
    has_either = "CollectionOrItem" in src
    container = any(w in src for w in ("Iterable", "Iterator", "List", "Sequence", "Tuple"))
    if has_either:
        return "iter" if container else "either"
    if has_coll:
        return "iter" if container else "coll"
    if "Callable" in src:
        return "unknown"
    if "Item" in src and not container:
        return "item"
    return "other"


# ----------------------------------------------------------------------------------------------- function translator
class Fn:
    def __init__(self, prog, module, fdef, env, top, stack, selfkind=True, outer=None):
        self.prog, self.module, self.fdef, self.top = prog, module, fdef, top
        self.stack = stack + [fdef.name]
        if len(self.stack) > 12 or fdef.name in stack:
            raise Unsupported("recursion / too deep inlining at %s" % " > ".join(self.stack))
        self.env = dict(env)
        self.local_funcs = dict(outer.local_funcs) if outer else {}
        self.outer = outer
        self.declared = dict(LOCALS.get(fdef.name, {}))
        self.where = "%s.py:%s" % (module, fdef.name)
        self._infer_locals()

    # -------------------------------------------------------------- errors
    def fail(self, node, msg):
        raise Unsupported("%s line %s: %s" % (self.where, getattr(node, "lineno", "?"), msg))

    # -------------------------------------------------------------- kinds
    def lookup(self, name):
        if name in self.env:
            return self.env[name]
        if name in self.declared:
            return self.declared[name]
        if name in self.inferred:
            return self.inferred[name]
        if self.outer is not None:
            return self.outer.lookup(name)
        if name == "self":
            return "self"
        return "global"          # module-level name, import or builtin: never a storage object

    def kind_of(self, e):
        if isinstance(e, ast.Name):
            k = self.lookup(e.id)
            return "other" if k in ("global",) else k
        if isinstance(e, ast.Constant):
            return "none" if e.value is None else "other"
        if isinstance(e, ast.Attribute):
            vk = self.kind_of(e.value)
            if vk == "self":
                return "storage" if e.attr == "_storage" else "other"
            if vk in ("item", "either") and e.attr == "collection":
                return "coll"
            if vk == "lockstack" and e.attr == "close":
                return "unlock"
            if vk in ("other", "item", "access", "none"):
                return "other"
            if vk in ("coll", "either"):
                return "other"          # values of properties / plain attributes are data
            if vk == "storage":
                return "other"
            return "unknown"
        if isinstance(e, ast.Call):
            f = e.func
            d = dotted(f)
            if d in ("next", "iter", "list", "itertools.chain", "sorted", "reversed"):
                ks = [self.kind_of(a) for a in e.args]
                if d == "next":
                    k0 = ks[0] if ks else "unknown"
                    return "either" if k0 == "iter" else ("other" if k0 in ("other", "none") else "unknown")
                if any(k == "iter" for k in ks):
                    return "iter"
                if all(k in ("other", "none", "item") for k in ks):
                    return "other"
                return "unknown"
            if isinstance(f, ast.Attribute):
                rk = self.kind_of(f.value)
                if rk == "storage":
                    return {"discover": "iter", "create_collection": "coll"}.get(f.attr, "other")
                if rk in ("coll", "either"):
                    return "item" if f.attr == "upload" else "other"   # get_* return items / data
                if rk == "self":
                    m = self.prog.method(f.attr)
                    if m:
                        return ann_kind(m[2].returns) or "unknown"
                    return "other"
                if rk in ("other", "item", "access", "none"):
                    return "other"
                return "unknown"
            if isinstance(f, ast.Name):
                if f.id in self.local_funcs:
                    return ann_kind(self.local_funcs[f.id][0].returns) or "unknown"
                fn = self.prog.function(self.module, f.id)
                if fn:
                    return ann_kind(fn[1].returns) or "unknown"
                k = self.lookup(f.id)
                return "other" if k in ("global", "other") else "unknown"
            return "unknown"
        if isinstance(e, ast.Subscript):
            vk = self.kind_of(e.value)
            return "other" if vk in ("other", "item") else "unknown"
        if isinstance(e, (ast.Tuple, ast.List, ast.Set)):
            ks = [self.kind_of(x) for x in e.elts]
            if any(k in STORAGEISH for k in ks):
                return "iter"
            return "other" if all(k in ("other", "none", "item") for k in ks) else "unknown"
        if isinstance(e, ast.Starred):
            return self.kind_of(e.value)
        if isinstance(e, ast.IfExp):
            ks = {self.kind_of(e.body), self.kind_of(e.orelse)}
            ks.discard("none")
            return ks.pop() if len(ks) == 1 else ("other" if not ks else "unknown")
        if isinstance(e, ast.BoolOp):
            ks = {self.kind_of(v) for v in e.values}
            ks.discard("none")
            return ks.pop() if len(ks) == 1 else ("other" if not ks else "unknown")
        if isinstance(e, ast.NamedExpr):
            return self.kind_of(e.value)
        if isinstance(e, (ast.BinOp, ast.UnaryOp, ast.Compare, ast.JoinedStr, ast.Dict, ast.DictComp, ast.Lambda)):
            return "other"
        if isinstance(e, (ast.ListComp, ast.SetComp, ast.GeneratorExp)):
            return "unknown"
        return "unknown"

    def elem_kind(self, k):
        return {"other": "other", "item": "other", "iter": "unknown"}.get(k, "unknown")

    def _targets(self, t, out):
        if isinstance(t, ast.Name):
            out.append(t.id)
        elif isinstance(t, (ast.Tuple, ast.List)):
            for x in t.elts:
                self._targets(x, out)
        elif isinstance(t, ast.Starred):
            self._targets(t.value, out)

    def _infer_locals(self):
        """Flow-insensitive: a name is `other` iff every binding gives it a value that is not a storage
        object; a name bound to a storage object must be declared in LOCALS with a compatible kind."""
        self.inferred = {}
        binds = []          # (names, kind function, node)
        own = [n for n in ast.walk(self.fdef)]
        nested = set()
        for n in own:
            if isinstance(n, (ast.FunctionDef, ast.Lambda)) and n is not self.fdef:
                for sub in ast.walk(n):
                    if sub is not n:
                        nested.add(id(sub))
        for n in own:
            if id(n) in nested:
                continue
            if isinstance(n, ast.Assign):
                for t in n.targets:
                    if isinstance(t, (ast.Tuple, ast.List)) and isinstance(n.value, (ast.Tuple, ast.List)) \
                            and len(t.elts) == len(n.value.elts):
                        for tt, vv in zip(t.elts, n.value.elts):
                            names = []
                            self._targets(tt, names)
                            binds.append((names, (lambda v=vv: self.kind_of(v)), n, isinstance(tt, ast.Name)))
                    else:
                        names = []
                        self._targets(t, names)
                        direct = isinstance(t, ast.Name)
                        binds.append((names, (lambda v=n.value: self.kind_of(v)), n, direct))
            elif isinstance(n, ast.AnnAssign) and n.value is not None:
                names = []
                self._targets(n.target, names)
                binds.append((names, (lambda v=n.value: self.kind_of(v)), n, True))
            elif isinstance(n, ast.AugAssign):
                names = []
                self._targets(n.target, names)
                binds.append((names, (lambda: "other"), n, True))
            elif isinstance(n, (ast.For, ast.comprehension)):
                names = []
                self._targets(n.target, names)
                it = n.iter
                binds.append((names, (lambda v=it: self.elem_kind(self.kind_of(v))), n, True))
            elif isinstance(n, ast.With):
                for item in n.items:
                    if item.optional_vars is not None:
                        names = []
                        self._targets(item.optional_vars, names)
                        d = dotted(item.context_expr.func) if isinstance(item.context_expr, ast.Call) else None
                        binds.append((names, (lambda d=d: "lockstack" if d == "contextlib.ExitStack" else "other"), n, True))
            elif isinstance(n, ast.ExceptHandler) and n.name:
                binds.append(([n.name], (lambda: "other"), n, True))
            elif isinstance(n, ast.NamedExpr):
                binds.append(([n.target.id], (lambda v=n.value: self.kind_of(v)), n, True))
        names_all = set()
        for names, _, _, _ in binds:
            names_all.update(names)
        for nm in names_all:
            self.inferred[nm] = "other"            # optimistic start, lowered below until stable
        for _ in range(6):
            new = {}
            for names, kf, node, direct in binds:
                k = kf()
                if not direct and k not in ("other",):
                    k = "unknown" if k not in STORAGEISH else "unknown"
                for nm in names:
                    cur = new.get(nm)
                    if k == "none":
                        continue
                    if cur is None:
                        new[nm] = k
                    elif cur != k:
                        new[nm] = "unknown" if not (cur in STORAGEISH or k in STORAGEISH) else "mixed"
            changed = False
            for nm in names_all:
                k = new.get(nm, "other")
                if k != "other":
                    k = k if k in STORAGEISH or k in ("mixed", "item", "access") else "unknown"
                if self.inferred.get(nm) != k:
                    self.inferred[nm] = k
                    changed = True
            if not changed:
                break
        # a storage object bound to an undeclared name, or to a name declared as something else
        compat = {"coll": {"coll", "either"}, "either": {"coll", "either"}, "iter": {"iter"}, "storage": {"storage"},
                  "lockstack": {"lockstack"}, "unlock": {"unlock"}}
        for nm in names_all:
            k = self.inferred[nm]
            if nm in self.env:
                continue
            if k in STORAGEISH or k == "mixed":
                d = self.declared.get(nm)
                if d is None:
                    raise Unsupported("%s: local %r is bound to a storage object (%s) but is not classified in LOCALS"
                                      % (self.where, nm, k))
                if k != "mixed" and d not in compat.get(k, {k}):
                    raise Unsupported("%s: local %r is declared %s but bound to %s" % (self.where, nm, d, k))
        for nm in list(self.inferred):
            if self.inferred[nm] in ("mixed",):
                self.inferred[nm] = "unknown"

    # -------------------------------------------------------------- statements
    def block(self, stmts):
        return Seq(*[self.stmt(s) for s in stmts])

    def stmt(self, s):
        if isinstance(s, ast.Expr):
            if isinstance(s.value, ast.Constant):
                return ("SSkip",)
            return self.expr(s.value)
        if isinstance(s, ast.Assign):
            return Seq(self.expr(s.value), *[self.target(t) for t in s.targets])
        if isinstance(s, ast.AnnAssign):
            return Seq(self.expr(s.value) if s.value is not None else None, self.target(s.target))
        if isinstance(s, ast.AugAssign):
            return Seq(self.target(s.target), self.expr(s.value))
        if isinstance(s, ast.Return):
            ev = self.expr(s.value) if s.value is not None else ("SSkip",)
            if self.top:
                return Seq(ev, ("SReturn", self.status_of(s.value)))
            return Seq(ev, ("SReturn", None))
        if isinstance(s, ast.If):
            tv = self.truth(s.test)
            ev = self.expr(s.test)
            if tv is True:
                return Seq(ev, self.block(s.body))
            if tv is False:
                return Seq(ev, self.block(s.orelse))
            return Seq(ev, Alt(self.block(s.body), self.block(s.orelse)))
        if isinstance(s, ast.For):
            if s.orelse:
                self.fail(s, "for/else")
            return Seq(self.expr(s.iter), Loop(Seq(self.target(s.target), self.block(s.body))))
        if isinstance(s, ast.While):
            if s.orelse:
                self.fail(s, "while/else")
            t = self.expr(s.test)
            return Seq(Loop(Seq(t, self.block(s.body))), t)
        if isinstance(s, ast.With):
            return self.with_(s, 0)
        if isinstance(s, ast.Try):
            if s.orelse or s.finalbody:
                self.fail(s, "try with else/finally")
            hs = None
            for h in s.handlers:
                hb = Seq(self.expr(h.type) if h.type is not None else None, self.block(h.body))
                hs = hb if hs is None else Alt(hs, hb)
            return Try(self.block(s.body), hs if hs is not None else ("SSkip",))
        if isinstance(s, ast.Raise):
            return Seq(self.expr(s.exc) if s.exc is not None else None,
                       self.expr(s.cause) if s.cause is not None else None, ("SRaise",))
        if isinstance(s, ast.Assert):
            return Seq(self.expr(s.test), self.expr(s.msg) if s.msg is not None else None)
        if isinstance(s, ast.Break):
            return ("SBreak",)
        if isinstance(s, ast.Continue):
            return ("SContinue",)
        if isinstance(s, (ast.Pass, ast.Global, ast.Nonlocal, ast.Import, ast.ImportFrom)):
            return ("SSkip",)
        if isinstance(s, ast.FunctionDef):
            self.local_funcs[s.name] = (s, self)
            return ("SSkip",)
        if isinstance(s, ast.Delete):
            return Seq(*[self.target(t) for t in s.targets])
        self.fail(s, "statement %s not understood" % type(s).__name__)

    def with_(self, s, i):
        if i == len(s.items):
            return self.block(s.body)
        item = s.items[i]
        ce = item.context_expr
        rest = lambda: self.with_(s, i + 1)      # noqa: E731
        if isinstance(ce, ast.Call):
            m = self.lock_mode(ce)
            if m:
                if item.optional_vars is not None:
                    self.fail(s, "acquire_lock(...) as name")
                return Seq(self.args_events(ce), ("SWith", m, rest()))
            if dotted(ce.func) == "contextlib.ExitStack":
                if not isinstance(item.optional_vars, ast.Name) or self.lookup(item.optional_vars.id) != "lockstack":
                    self.fail(s, "ExitStack must be bound to a name classified `lockstack`")
                return ("SStack", rest())
        ev = self.expr(ce)
        if self.kind_of(ce) in STORAGEISH:
            self.fail(s, "storage object used as context manager")
        return Seq(ev, self.target(item.optional_vars) if item.optional_vars is not None else None, rest())

    def lock_mode(self, call):
        """'R'/'W' when `call` is self._storage.acquire_lock("r"|"w", ...), else None."""
        f = call.func
        if isinstance(f, ast.Attribute) and f.attr == "acquire_lock":
            if self.kind_of(f.value) != "storage":
                self.fail(call, "acquire_lock on a receiver that is not the storage")
            if not call.args or not isinstance(call.args[0], ast.Constant) or call.args[0].value not in ("r", "w"):
                self.fail(call, "lock mode is not the constant \"r\" or \"w\"")
            return {"r": "R", "w": "W"}[call.args[0].value]
        return None

    def args_events(self, call):
        return Seq(*([self.expr(a) for a in call.args] + [self.expr(k.value) for k in call.keywords]))

    def target(self, t):
        """Events of evaluating an assignment target (the receiver expressions of attribute / item stores)."""
        if isinstance(t, ast.Name):
            return ("SSkip",)
        if isinstance(t, (ast.Tuple, ast.List)):
            return Seq(*[self.target(x) for x in t.elts])
        if isinstance(t, ast.Starred):
            return self.target(t.value)
        if isinstance(t, ast.Attribute):
            if self.kind_of(t.value) in STORAGEISH | {"unknown"} and (t.attr in API or self.kind_of(t.value) != "unknown"):
                self.fail(t, "store to attribute %r of a storage / unclassified object" % t.attr)
            return self.expr(t.value)
        if isinstance(t, ast.Subscript):
            return Seq(self.expr(t.value), self.expr(t.slice))
        self.fail(t, "assignment target %s" % type(t).__name__)

    # -------------------------------------------------------------- status of a handler's return value
    def status_of(self, v):
        if v is None:
            return "any"
        if isinstance(v, ast.Tuple) and v.elts:
            return self.code_of(v.elts[0])
        d = dotted(v)
        if d and d.startswith("httputils.") and d[10:] in self.prog.http_codes:
            return self.prog.http_codes[d[10:]]
        if isinstance(v, ast.Call):
            fd = dotted(v.func)
            if fd == "self._webdav_error_response" and v.args:
                return self.code_of(v.args[0])
            if fd == "response" and v.args:           # the gate's helper
                a = v.args[0]
                if isinstance(a, ast.Starred):
                    d = dotted(a.value)
                    if d and d.startswith("httputils.") and d[10:] in self.prog.http_codes:
                        return self.prog.http_codes[d[10:]]
                return "any"
        return "any"

    def code_of(self, e):
        import http.client
        d = dotted(e)
        if d and d.startswith("client.") and hasattr(http.client, d[7:]):
            return int(getattr(http.client, d[7:]))
        if isinstance(e, ast.Constant) and isinstance(e.value, int):
            return e.value
        return "any"

    # -------------------------------------------------------------- partial evaluation of tests on known-None names
    def truth(self, e):
        if isinstance(e, ast.Name):
            return False if self.lookup(e.id) == "none" else None
        if isinstance(e, ast.UnaryOp) and isinstance(e.op, ast.Not):
            t = self.truth(e.operand)
            return None if t is None else (not t)
        if isinstance(e, ast.Compare) and len(e.ops) == 1 and isinstance(e.left, ast.Name) \
                and isinstance(e.comparators[0], ast.Constant) and e.comparators[0].value is None \
                and self.lookup(e.left.id) == "none":
            if isinstance(e.ops[0], ast.Is):
                return True
            if isinstance(e.ops[0], ast.IsNot):
                return False
        if isinstance(e, ast.Call) and dotted(e.func) == "isinstance" and e.args and isinstance(e.args[0], ast.Name) \
                and self.lookup(e.args[0].id) == "none":
            return False
        return None

    # -------------------------------------------------------------- expressions
    def expr(self, e):
        if e is None:
            return ("SSkip",)
        if isinstance(e, (ast.Constant, ast.Name)):
            return ("SSkip",)
        if isinstance(e, ast.Attribute):
            return self.attribute(e)
        if isinstance(e, ast.Call):
            return self.call(e)
        if isinstance(e, ast.BoolOp):
            out = None
            for v in reversed(e.values[1:]):
                ev = self.expr(v)
                out = ev if out is None else Seq(ev, Alt(out, ("SSkip",)))
            first = self.expr(e.values[0])
            tv = self.truth(e.values[0])
            if isinstance(e.op, ast.And) and tv is False or isinstance(e.op, ast.Or) and tv is True:
                return first
            return Seq(first, Alt(out, ("SSkip",)))
        if isinstance(e, ast.IfExp):
            return Seq(self.expr(e.test), Alt(self.expr(e.body), self.expr(e.orelse)))
        if isinstance(e, (ast.BinOp,)):
            return Seq(self.expr(e.left), self.expr(e.right))
        if isinstance(e, ast.UnaryOp):
            return self.expr(e.operand)
        if isinstance(e, ast.Compare):
            return Seq(self.expr(e.left), *[self.expr(c) for c in e.comparators])
        if isinstance(e, ast.Subscript):
            return Seq(self.expr(e.value), self.expr(e.slice))
        if isinstance(e, ast.Slice):
            return Seq(self.expr(e.lower), self.expr(e.upper), self.expr(e.step))
        if isinstance(e, (ast.Tuple, ast.List, ast.Set)):
            return Seq(*[self.expr(x) for x in e.elts])
        if isinstance(e, ast.Dict):
            return Seq(*[Seq(self.expr(k), self.expr(v)) for k, v in zip(e.keys, e.values)])
        if isinstance(e, ast.JoinedStr):
            return Seq(*[self.expr(x) for x in e.values])
        if isinstance(e, ast.FormattedValue):
            return self.expr(e.value)
        if isinstance(e, ast.Starred):
            return self.expr(e.value)
        if isinstance(e, ast.NamedExpr):
            return self.expr(e.value)
        if isinstance(e, (ast.Yield, ast.YieldFrom)):
            return self.expr(e.value)
        if isinstance(e, ast.Lambda):
            if self.expr(e.body) != ("SSkip",):
                self.fail(e, "lambda with storage / lock events")
            return ("SSkip",)
        if isinstance(e, (ast.ListComp, ast.SetComp, ast.GeneratorExp, ast.DictComp)):
            gens = e.generators
            inner = Seq(self.expr(e.key), self.expr(e.value)) if isinstance(e, ast.DictComp) else self.expr(e.elt)
            for g in reversed(gens):
                if g.is_async:
                    self.fail(e, "async comprehension")
                inner = Seq(self.expr(g.iter), Loop(Seq(self.target(g.target), *[self.expr(c) for c in g.ifs], inner)))
            return inner
        self.fail(e, "expression %s not understood" % type(e).__name__)

    def storage_event(self, node, recv, attr):
        return ("SStorage", API[attr], "%s:%d %s.%s" % (self.module, node.lineno, ast.unparse(recv)[:40], attr))

    def attribute(self, e):
        ev = self.expr(e.value)
        k = self.kind_of(e.value)
        a = e.attr
        if k == "storage":
            self.fail(e, "attribute %r of the storage used outside a call" % a)
        if k in ("coll", "either"):
            if a in API_PROPS:
                return Seq(ev, self.storage_event(e, e.value, a))
            if a in API_METHODS:
                self.fail(e, "method %r of a storage object escapes without a call" % a)
            if a in COLL_PLAIN or (k == "either" and a in ITEM_ATTRS):
                return ev
            self.fail(e, "attribute %r of a storage object is not classified" % a)
        if k == "iter":
            self.fail(e, "attribute %r of a container of storage objects" % a)
        if k == "unknown" and (a in API or a in ("acquire_lock", "enter_context", "close", "check")):
            self.fail(e, "receiver %r of %r is not classified (add it to LOCALS after review)" % (ast.unparse(e.value), a))
        return ev

    def check_opaque_args(self, call, name):
        for a in list(call.args) + [k.value for k in call.keywords]:
            v = a.value if isinstance(a, ast.Starred) else a
            k = self.kind_of(v)
            if k in STORAGEISH and name not in OPAQUE_OK:
                self.fail(call, "storage object %r handed to %s, which is neither inlined nor in OPAQUE_OK"
                          % (ast.unparse(v), name or ast.unparse(call.func)))

    def call(self, c):
        f = c.func
        d = dotted(f)
        if self.lock_mode(c) is not None:
            self.fail(c, "acquire_lock outside `with` / enter_context")
        # ---- method-like calls
        if isinstance(f, ast.Attribute):
            rk = self.kind_of(f.value)
            recv_ev = self.expr(f.value)
            if rk == "lockstack":
                if f.attr == "enter_context" and len(c.args) == 1 and isinstance(c.args[0], ast.Call):
                    m = self.lock_mode(c.args[0])
                    if m:
                        return Seq(recv_ev, self.args_events(c.args[0]), ("SEnter", m))
                if f.attr == "close" and not c.args:
                    return Seq(recv_ev, ("SUnlock",))
                self.fail(c, "use of the lock stack that is not understood")
            if rk == "storage":
                if f.attr in STORAGE_ONLY and f.attr in API:
                    return Seq(recv_ev, self.args_events(c), self.storage_event(c, f.value, f.attr))
                self.fail(c, "call of %r on the storage is not classified" % f.attr)
            if rk in ("coll", "either"):
                if f.attr in API_METHODS and f.attr not in STORAGE_ONLY:
                    return Seq(recv_ev, self.args_events(c), self.storage_event(c, f.value, f.attr))
                if rk == "either" and f.attr in ITEM_ATTRS:
                    return Seq(recv_ev, self.args_events(c))
                self.fail(c, "call of %r on a storage object is not classified" % f.attr)
            if rk == "iter":
                self.fail(c, "method %r of a container of storage objects" % f.attr)
            if rk == "access" and f.attr == "check":
                m = self.prog.methods.get("check", [])
                m = [x for x in m if x[1] == "Access"]
                if len(m) != 1:
                    self.fail(c, "Access.check not found")
                return Seq(recv_ev, self.inline(c, m[0][0], m[0][2], method=True))
            if rk == "self":
                if f.attr in PARSE_METHODS:
                    self.verify_parse_method(f.attr)
                    return Seq(self.args_events(c), ("SParse",))
                m = self.prog.method(f.attr)
                if m is not None:
                    return self.inline(c, m[0], m[2], method=True, top=m[2].name.startswith("do_"))
                self.fail(c, "self.%s is not a method of the Application parts" % f.attr)
            if rk == "unknown":
                if f.attr in API or f.attr in ("acquire_lock", "enter_context", "close", "check"):
                    self.fail(c, "receiver %r of %r is not classified (add it to LOCALS after review)"
                              % (ast.unparse(f.value), f.attr))
            if d in PARSE_CALLS:
                return Seq(recv_ev, self.args_events(c), ("SParse",))
            self.check_opaque_args(c, d)
            return Seq(recv_ev, self.args_events(c))
        # ---- plain names
        if isinstance(f, ast.Name):
            k = self.lookup(f.id)
            if k == "unlock":
                if c.args or c.keywords:
                    self.fail(c, "unlock function called with arguments")
                return ("SUnlock",)
            if k == "dispatch":
                return Seq(self.args_events(c), ("SCall", ("SHole",)))
            if f.id in self.local_funcs:
                fd, owner = self.local_funcs[f.id]
                return self.inline(c, owner.module, fd, outer=owner)
            fn = self.prog.function(self.module, f.id)
            if fn is not None and k == "global":
                return self.inline(c, fn[0], fn[1])
            if k not in ("global", "other"):
                self.fail(c, "call of %r (%s) is not understood" % (f.id, k))
            self.check_opaque_args(c, f.id)
            return self.args_events(c)
        # ---- anything else (call of a call result, subscript, ...)
        ev = self.expr(f)
        if self.kind_of(f) in STORAGEISH | {"unknown"}:
            self.fail(c, "call of an unclassified callable %r" % ast.unparse(f))
        self.check_opaque_args(c, None)
        return Seq(ev, self.args_events(c))

    def verify_parse_method(self, name):
        m = self.prog.method(name)
        if m is None:
            raise Unsupported("parse method %s not found" % name)
        src = ast.unparse(m[2])
        if "read_raw_request_body" not in src or "DefusedET.fromstring" not in src:
            raise Unsupported("%s no longer reads and parses the body with defusedxml" % name)
        for n in ast.walk(m[2]):
            if isinstance(n, ast.Attribute) and (n.attr in API or n.attr in ("acquire_lock", "_storage")):
                raise Unsupported("%s touches %s" % (name, n.attr))

    def inline(self, c, module, fd, method=False, outer=None, top=False):
        args = fd.args
        if args.vararg or args.kwarg or args.posonlyargs:
            self.fail(c, "inlined callee %s has *args/**kwargs" % fd.name)
        params = [a for a in args.args]
        if method:
            params = params[1:]
        names = [a.arg for a in params]
        anns = {a.arg: ann_kind(a.annotation) for a in params + args.kwonlyargs}
        defaults = dict(zip(names[len(names) - len(args.defaults):], args.defaults))
        for a, dv in zip(args.kwonlyargs, args.kw_defaults):
            names.append(a.arg)
            if dv is not None:
                defaults[a.arg] = dv
        bound = {}
        evs = []
        for i, a in enumerate(c.args):
            if isinstance(a, ast.Starred):
                # f(*t) with t not a storage object: the remaining positional parameters are plain data
                if self.kind_of(a.value) != "other" or i != len(c.args) - 1:
                    self.fail(c, "star-argument to inlined callee %s" % fd.name)
                evs.append(self.expr(a.value))
                for n in names[i:len(params)]:
                    bound.setdefault(n, ast.Constant(value=0))
                break
            if i >= len(names):
                self.fail(c, "too many arguments for %s" % fd.name)
            bound[names[i]] = a
            evs.append(self.expr(a))
        for kw in c.keywords:
            if kw.arg is None or kw.arg not in names:
                self.fail(c, "keyword argument for inlined callee %s" % fd.name)
            bound[kw.arg] = kw.value
            evs.append(self.expr(kw.value))
        env = {}
        for n in names:
            if n in bound:
                k = self.kind_of(bound[n])
            elif n in defaults:
                k = "none" if isinstance(defaults[n], ast.Constant) and defaults[n].value is None else "other"
            else:
                self.fail(c, "missing argument %s for %s" % (n, fd.name))
            ak = anns.get(n)
            if k in ("unlock", "lockstack", "none", "dispatch"):
                pass
            elif ak in ("coll", "either", "iter", "item"):
                if k in STORAGEISH and k not in {"coll": ("coll", "either"), "either": ("coll", "either"),
                                                 "iter": ("iter",), "item": ()}[ak]:
                    self.fail(c, "argument %s of %s: %s passed for %s" % (n, fd.name, k, ak))
                if ak == "item" and k in STORAGEISH:
                    self.fail(c, "storage object passed for Item parameter %s of %s" % (n, fd.name))
                k = ak
            elif k in STORAGEISH:
                self.fail(c, "storage object passed to un-annotated parameter %s of %s" % (n, fd.name))
            elif ak == "other" and k == "unknown":
                k = "other"
            env[n] = k
        if method:
            env[args.args[0].arg] = "self"
        sub = Fn(self.prog, module, fd, env, top, self.stack, outer=outer)
        body = sub.block(fd.body)
        if top:
            return Seq(*evs, ("SCall", body))
        return Seq(*evs, Call(body))


# ----------------------------------------------------------------------------------------------- lock.py / meta.py facts
def lock_facts(repo):
    """From storage/multifilesystem/lock.py: the modes for which acquire_lock starts the hook, and that the
    hook code follows `yield` inside `with self._lock.acquire(mode)` (so it runs only after a normal end of
    the section and before the unlock)."""
    p = os.path.join(repo, "radicale/storage/multifilesystem/lock.py")
    tree = ast.parse(open(p).read())
    fn = None
    for n in ast.walk(tree):
        if isinstance(n, ast.FunctionDef) and n.name == "acquire_lock":
            fn = n
    if fn is None:
        raise Unsupported("lock.py: acquire_lock not found")
    body = [s for s in fn.body if not (isinstance(s, ast.Expr) and isinstance(s.value, ast.Constant))]
    if len(body) != 1 or not isinstance(body[0], ast.With) or len(body[0].items) != 1:
        raise Unsupported("lock.py: acquire_lock is not a single `with self._lock.acquire(mode)`")
    w = body[0]
    if ast.unparse(w.items[0].context_expr) != "self._lock.acquire(mode)":
        raise Unsupported("lock.py: unexpected context manager %s" % ast.unparse(w.items[0].context_expr))
    wb = w.body
    if not (isinstance(wb[0], ast.Expr) and isinstance(wb[0].value, ast.Yield) and wb[0].value.value is None):
        raise Unsupported("lock.py: the with body does not start with a bare `yield`")
    popen_outside = [n for s in wb[2:] for n in ast.walk(s) if isinstance(n, ast.Attribute) and n.attr == "Popen"]
    if len(wb) < 2 or not isinstance(wb[1], ast.If) or popen_outside:
        raise Unsupported("lock.py: hook code is not a single `if` after the yield")
    test = wb[1].test
    modes = None
    if isinstance(test, ast.BoolOp) and isinstance(test.op, ast.And):
        for v in test.values:
            if isinstance(v, ast.Compare) and ast.unparse(v.left) == "mode" and len(v.ops) == 1 \
                    and isinstance(v.ops[0], ast.Eq) and isinstance(v.comparators[0], ast.Constant):
                modes = [v.comparators[0].value]
    if modes is None:
        raise Unsupported("lock.py: the hook condition does not test `mode == \"w\"`: %s" % ast.unparse(test))
    for n in ast.walk(fn):
        if isinstance(n, ast.Attribute) and n.attr in ("Popen", "run", "call", "check_call", "system") \
                and not any(n is x for x in ast.walk(wb[1])):
            raise Unsupported("lock.py: a process is started outside the hook `if`")
    for n in ast.walk(wb[1]):
        if isinstance(n, (ast.Yield, ast.YieldFrom)):
            raise Unsupported("lock.py: yield inside the hook code")
    return ["W" if m == "w" else "R" for m in modes]


def cache_cond(repo, rel, fname, cache_attr):
    """`if self._storage._lock.locked == "w" or self.<cache> is None:` -> Gallina over (locked_is_w, cache_is_none)."""
    tree = ast.parse(open(os.path.join(repo, rel)).read())
    for n in ast.walk(tree):
        if isinstance(n, ast.FunctionDef) and n.name == fname:
            for s in n.body:
                if isinstance(s, ast.If):
                    return cond_to_coq(s.test, cache_attr, rel)
    raise Unsupported("%s: %s has no leading cache test" % (rel, fname))


def cond_to_coq(t, cache_attr, rel):
    if isinstance(t, ast.BoolOp):
        op = " || " if isinstance(t.op, ast.Or) else " && "
        return "(" + op.join(cond_to_coq(v, cache_attr, rel) for v in t.values) + ")"
    if isinstance(t, ast.UnaryOp) and isinstance(t.op, ast.Not):
        return "(negb %s)" % cond_to_coq(t.operand, cache_attr, rel)
    if isinstance(t, ast.Compare) and len(t.ops) == 1:
        l, r = ast.unparse(t.left), t.comparators[0]
        if l == "self._storage._lock.locked" and isinstance(r, ast.Constant) and r.value == "w":
            if isinstance(t.ops[0], ast.Eq):
                return "locked_is_w"
            if isinstance(t.ops[0], ast.NotEq):
                return "(negb locked_is_w)"
        if l == "self." + cache_attr and isinstance(r, ast.Constant) and r.value is None:
            if isinstance(t.ops[0], ast.Is):
                return "cache_is_none"
            if isinstance(t.ops[0], ast.IsNot):
                return "(negb cache_is_none)"
    raise Unsupported("%s: cache condition %r not understood" % (rel, ast.unparse(t)))


# ----------------------------------------------------------------------------------------------- driver
HEADER = """(* REGENERATED on every run by translate/t_skeleton.py from radicale/app/*.py,
   radicale/storage/multifilesystem/{lock,meta,__init__}.py -- do not edit. *)
From Coq Require Import List NArith Bool String.
Import ListNotations.
Require Import RV.Model.LockDiscipline.
Open Scope string_scope.

"""


def build(repo):
    prog = Program(repo)
    out = {}
    handlers = sorted(n for n in prog.methods if n.startswith("do_"))
    for name in handlers:
        m = prog.method(name)
        env = {a.arg: "other" for a in m[2].args.args[1:]}
        env[m[2].args.args[0].arg] = "self"
        fn = Fn(prog, m[0], m[2], env, True, [])
        out[name] = fn.block(m[2].body)
    g = prog.method("_handle_request")
    env = {a.arg: "other" for a in g[2].args.args[1:]}
    env[g[2].args.args[0].arg] = "self"
    out["_handle_request"] = Fn(prog, g[0], g[2], env, True, []).block(g[2].body)
    return out


def generate(repo, outdir):
    errors = {}
    path = os.path.join(outdir, "Skeleton.v")
    try:
        sk = build(repo)
        modes = lock_facts(repo)
        meta = cache_cond(repo, "radicale/storage/multifilesystem/meta.py", "get_meta", "_meta_cache")
        etag = cache_cond(repo, "radicale/storage/multifilesystem/__init__.py", "etag", "_etag_cache")
        parts = [HEADER]
        hs = sorted(k for k in sk if k.startswith("do_"))
        for k in hs:
            parts.append("Definition sk_%s : skel :=\n  %s.\n\n" % (k, render(sk[k])))
        gate = sk["_handle_request"]
        if "SHole" not in repr(gate):
            raise Unsupported("_handle_request: the dispatch to the handler was not found")
        parts.append("(* Application._handle_request; h = the handler the request is dispatched to *)\n"
                     "Definition sk_gate (h : skel) : skel :=\n  %s.\n\n" % render(gate))
        parts.append("Definition handlers : list (string * skel) :=\n  [%s].\n\n" % ";\n   ".join(
            '("%s", sk_%s)' % (k[3:], k) for k in hs))
        parts.append("Definition xml_handlers : list (string * skel) :=\n  [%s].\n\n" % ";\n   ".join(
            '("%s", sk_%s)' % (k[3:], k) for k in hs if k in XML_HANDLERS))
        missing = [k for k in XML_HANDLERS if k not in hs]
        if missing:
            raise Unsupported("XML handlers missing: %s" % missing)
        parts.append("Definition requests : list (string * skel) := map (fun p => (fst p, sk_gate (snd p))) handlers.\n\n")
        parts.append("(* lock.py: modes for which acquire_lock starts the hook after a normal end of the section *)\n"
                     "Definition hook_modes : list mode := [%s].\n\n" % "; ".join(modes))
        parts.append("(* meta.py get_meta / multifilesystem/__init__.py Collection.etag: when the folder is re-read *)\n"
                     "Definition meta_reread (locked_is_w cache_is_none : bool) : bool := %s.\n"
                     "Definition etag_reread (locked_is_w cache_is_none : bool) : bool := %s.\n" % (meta, etag))
        text = "".join(parts)
    except (Unsupported, SyntaxError, OSError) as e:
        errors["Skeleton"] = "translate:skeleton: %s" % e
        text = "(* translation failed: %s *)\nDefinition translation_failed : False := I.\n" % str(e).replace("*)", "* )")
    os.makedirs(outdir, exist_ok=True)
    old = None
    if os.path.exists(path):
        with open(path) as fh:
            old = fh.read()
    if old != text:
        with open(path, "w") as fh:
            fh.write(text)
    return errors


if __name__ == "__main__":
    import sys
    repo = sys.argv[1] if len(sys.argv) > 1 else "/repo"
    out = sys.argv[2] if len(sys.argv) > 2 else "/tmp/skel-out"
    print(generate(repo, out))
