"""Tie T for C19: regenerate coq/Gen/XmlGen.v from the CURRENT source with Python's `ast`.

Facts extracted (each one fail-closed: an unexpected shape raises Unsupported -> broken obligation
`translate:XmlGen`, never a guess):

  gen_parse_sites        every call in radicale/**/*.py (tests excluded) that parses XML, as (file, "alias.function");
                         also every import of another XML parsing package.  Expected: exactly
                         app/base.py: DefusedET.fromstring, with DefusedET bound to defusedxml.ElementTree.
  gen_forbid_dtd / gen_forbid_entities / gen_forbid_external
                         the (constant) keyword arguments of that call, defusedxml's defaults when absent.
  gen_read_shape_ok      _read_xml_request_body is: decode_request(read_raw_request_body) ; `if not content: return
                         None` ; try: fromstring ; except <clauses> ; logging ; return the tree.
  gen_parse_rewrap       the except clauses of that try: (class caught, class raised).
  gen_handler_clauses    for each of the five XML handlers: the except clauses of the `try` whose body is the call of
                         _read_xml_request_body, as (class, httputils constant); the clause bodies may only log and
                         `return httputils.<CONSTANT>`.
  gen_const              status, Content-Type and text of BAD_REQUEST / REQUEST_TIMEOUT / INTERNAL_SERVER_ERROR.
  gen_top_clause         Application.__call__: the except clause around _handle_request and the constant it answers
                         with; the exception object and the environ may be used in logger calls only.
  gen_fallback_charsets  httputils.decode_request: the constant charsets appended after the request's and the
                         configured one, and the exception class suppressed while trying.
"""
import ast
import http.client
import os

XML_HANDLERS = {"do_PROPFIND": "radicale/app/propfind.py", "do_PROPPATCH": "radicale/app/proppatch.py",
                "do_REPORT": "radicale/app/report.py", "do_MKCOL": "radicale/app/mkcol.py",
                "do_MKCALENDAR": "radicale/app/mkcalendar.py"}
PARSE_FUNCS = {"fromstring", "XML", "XMLID", "parse", "iterparse", "XMLParser", "XMLPullParser", "fromstringlist",
               "parseString", "make_parser", "ParserCreate", "HTML", "HTMLParser", "ETCompatXMLParser", "XMLTreeBuilder",
               "parseStringToDOM", "expatbuilder", "unparse"}
XML_MODULES = ("xml.etree", "xml.dom", "xml.sax", "xml.parsers", "xml", "defusedxml", "lxml", "xmltodict", "pyexpat", "bs4",
               "html5lib", "untangle", "xmlschema")
CLASSES = {"RuntimeError": "CRuntimeError", "socket.timeout": "CSocketTimeout", "TimeoutError": "CSocketTimeout",
           "ValueError": "CValueError", "ET.ParseError": "CParseError", "Exception": "CException",
           "LookupError": "CLookupError"}
RAISED = {"RuntimeError": "XRuntimeError"}
CONSTS = ("BAD_REQUEST", "REQUEST_TIMEOUT", "INTERNAL_SERVER_ERROR")


class Unsupported(Exception):
    pass


def is_xml_mod(name):
    return any(name == m or name.startswith(m + ".") for m in XML_MODULES)


def parse_file(repo, rel):
    with open(os.path.join(repo, rel)) as f:
        return ast.parse(f.read(), rel)


def find_func(tree, name):
    for n in ast.walk(tree):
        if isinstance(n, (ast.FunctionDef,)) and n.name == name:
            return n
    raise Unsupported("function %s not found" % name)


def dotted(e):
    if isinstance(e, ast.Name):
        return e.id
    if isinstance(e, ast.Attribute):
        b = dotted(e.value)
        return None if b is None else b + "." + e.attr
    return None


def is_logger_call(stmt):
    return (isinstance(stmt, ast.Expr) and isinstance(stmt.value, ast.Call)
            and (dotted(stmt.value.func) or "").startswith("logger."))


# ------------------------------------------------------------------------------------------------ parse sites
def parse_sites(repo):
    sites = []
    root = os.path.join(repo, "radicale")
    for dp, dns, fns in os.walk(root):
        dns[:] = sorted(d for d in dns if d != "tests" and d != "__pycache__")
        for fn in sorted(fns):
            if not fn.endswith(".py"):
                continue
            rel = os.path.relpath(os.path.join(dp, fn), repo)
            tree = parse_file(repo, rel)
            aliases = {}
            for n in ast.walk(tree):
                if isinstance(n, ast.Import):
                    for a in n.names:
                        if is_xml_mod(a.name):
                            aliases[a.asname or a.name.split(".")[0]] = a.name
                elif isinstance(n, ast.ImportFrom) and n.module and is_xml_mod(n.module):
                    for a in n.names:
                        aliases[a.asname or a.name] = n.module + "." + a.name
            for n in ast.walk(tree):
                if isinstance(n, ast.Call) and dotted(n.func) in ("importlib.import_module", "import_module", "__import__") \
                        and n.args and isinstance(n.args[0], ast.Constant) and isinstance(n.args[0].value, str) \
                        and is_xml_mod(n.args[0].value):
                    sites.append((rel, "import:" + n.args[0].value))
            for alias, mod in sorted(aliases.items()):
                if not (mod in ("xml.etree.ElementTree", "defusedxml.ElementTree", "xml.etree")):
                    sites.append((rel, "import:" + mod))
            for n in ast.walk(tree):
                if isinstance(n, ast.Call):
                    d = dotted(n.func)
                    if d and "." in d:
                        head, fnname = d.split(".", 1)[0], d.rsplit(".", 1)[1]
                        if head in aliases and fnname in PARSE_FUNCS:
                            sites.append((rel, d, aliases[head], n))
                    elif d in aliases and d in PARSE_FUNCS:
                        sites.append((rel, d, aliases[d], n))
                # a parse function escaping as a value (e.g. parse = ET.fromstring)
                elif isinstance(n, ast.Attribute) and n.attr in PARSE_FUNCS and dotted(n.value) in aliases:
                    pass
            # escaping references: count attribute uses that are not the func of a call
            calls = {id(n.func) for n in ast.walk(tree) if isinstance(n, ast.Call)}
            for n in ast.walk(tree):
                if (isinstance(n, ast.Attribute) and n.attr in PARSE_FUNCS and dotted(n.value) in aliases
                        and id(n) not in calls):
                    raise Unsupported("%s: %s used as a value" % (rel, dotted(n)))
    return sites


# ------------------------------------------------------------------------------------------------ _read_xml_request_body
def const_bool(e, what):
    if isinstance(e, ast.Constant) and isinstance(e.value, bool):
        return e.value
    raise Unsupported("%s is not a boolean constant" % what)


def read_shape(repo, site_call):
    tree = parse_file(repo, "radicale/app/base.py")
    # DefusedET must be defusedxml.ElementTree
    bound = None
    for n in tree.body:
        if isinstance(n, ast.Import):
            for a in n.names:
                if a.asname == "DefusedET":
                    bound = a.name
    if bound != "defusedxml.ElementTree":
        raise Unsupported("DefusedET is bound to %r" % bound)
    fn = find_func(tree, "_read_xml_request_body")
    body = [s for s in fn.body if not (isinstance(s, ast.Expr) and isinstance(s.value, ast.Constant))]
    if len(body) < 4:
        raise Unsupported("_read_xml_request_body: unexpected shape")
    s0, s1, s2 = body[0], body[1], body[2]
    want0 = ("content = httputils.decode_request(self.configuration, environ, "
             "httputils.read_raw_request_body(self.configuration, environ))")
    if ast.unparse(s0) != want0:
        raise Unsupported("_read_xml_request_body: first statement is %r" % ast.unparse(s0))
    if ast.unparse(s1) != "if not content:\n    return None":
        raise Unsupported("_read_xml_request_body: second statement is %r" % ast.unparse(s1))
    if not (isinstance(s2, ast.Try) and len(s2.body) == 1 and not s2.orelse and not s2.finalbody):
        raise Unsupported("_read_xml_request_body: third statement is not a plain try/except")
    a = s2.body[0]
    if not (isinstance(a, ast.Assign) and len(a.targets) == 1 and isinstance(a.targets[0], ast.Name)
            and isinstance(a.value, ast.Call)
            and (a.value.lineno, a.value.col_offset) == (site_call.lineno, site_call.col_offset)):
        raise Unsupported("_read_xml_request_body: the try body is %r" % ast.unparse(a))
    treevar = a.targets[0].id
    call = a.value
    if len(call.args) != 1 or ast.unparse(call.args[0]) != "content":
        raise Unsupported("fromstring is not applied to the decoded content alone: %r" % ast.unparse(call))
    kw = {"forbid_dtd": False, "forbid_entities": True, "forbid_external": True}
    for k in call.keywords:
        if k.arg not in kw:
            raise Unsupported("fromstring: unknown keyword %r" % k.arg)
        kw[k.arg] = const_bool(k.value, "fromstring(%s=..)" % k.arg)
    rewrap = []
    for h in s2.handlers:
        cls = dotted(h.type) if h.type is not None else "BaseException"
        if cls not in CLASSES:
            raise Unsupported("_read_xml_request_body: except %s is not understood" % cls)
        stmts = [s for s in h.body if not is_logger_call(s)]
        if not (len(stmts) == 1 and isinstance(stmts[0], ast.Raise) and isinstance(stmts[0].exc, ast.Call)
                and dotted(stmts[0].exc.func) in RAISED):
            raise Unsupported("_read_xml_request_body: except %s does not end in `raise RuntimeError(..)`" % cls)
        rewrap.append((CLASSES[cls], RAISED[dotted(stmts[0].exc.func)]))
    rest = body[3:]
    for s in rest[:-1]:
        ok = isinstance(s, ast.If) and all(is_logger_call(x) or (isinstance(x, ast.If) and all(
            is_logger_call(y) for y in x.body + x.orelse)) for x in s.body + s.orelse)
        if not ok:
            raise Unsupported("_read_xml_request_body: statement after the parse is not logging: %r" % ast.unparse(s)[:80])
    if ast.unparse(rest[-1]) != "return %s" % treevar:
        raise Unsupported("_read_xml_request_body: does not end in `return %s`" % treevar)
    return kw, rewrap


# ------------------------------------------------------------------------------------------------ handlers
def clause_list(handlers, where, allowed_names=()):
    out = []
    for h in handlers:
        cls = dotted(h.type) if h.type is not None else "BaseException"
        if cls not in CLASSES:
            raise Unsupported("%s: except %s is not understood" % (where, cls))
        stmts = [s for s in h.body if not is_logger_call(s)]
        if not (len(stmts) == 1 and isinstance(stmts[0], ast.Return) and (dotted(stmts[0].value) or "").startswith("httputils.")
                and dotted(stmts[0].value).split(".", 1)[1] in CONSTS):
            raise Unsupported("%s: except %s does not just log and return a constant of httputils (%r)" % (
                where, cls, "; ".join(ast.unparse(s) for s in stmts)[:120]))
        out.append((CLASSES[cls], dotted(stmts[0].value).split(".", 1)[1]))
    return out


def handler_clauses(repo):
    res = {}
    for fn, rel in sorted(XML_HANDLERS.items()):
        f = find_func(parse_file(repo, rel), fn)
        found = None
        n_calls = 0
        for n in ast.walk(f):
            if isinstance(n, ast.Call) and dotted(n.func) == "self._read_xml_request_body":
                n_calls += 1
        for n in ast.walk(f):
            if isinstance(n, ast.Try) and len(n.body) == 1 and isinstance(n.body[0], ast.Assign) \
                    and isinstance(n.body[0].value, ast.Call) and dotted(n.body[0].value.func) == "self._read_xml_request_body":
                if n.orelse or n.finalbody:
                    raise Unsupported("%s: try around the body read has else/finally" % fn)
                found = n
        if found is None or n_calls != 1:
            raise Unsupported("%s: the body read is not the single statement of one try block" % fn)
        # an enclosing try could take the exception first (an enclosing with / if does not change the mapping;
        # the order of parse and lock is the business of the skeleton, not of this table)
        parents = {}
        for n in ast.walk(f):
            for ch in ast.iter_child_nodes(n):
                parents[id(ch)] = n
        p = parents.get(id(found))
        while p is not None and p is not f:
            if isinstance(p, (ast.Try, ast.For, ast.While, ast.FunctionDef, ast.Lambda)):
                raise Unsupported("%s: the try around the body read is nested in a %s" % (fn, type(p).__name__))
            p = parents.get(id(p))
        res[fn[3:]] = clause_list(found.handlers, fn)
    return res


def constants(repo):
    tree = parse_file(repo, "radicale/httputils.py")
    out = {}
    for n in tree.body:
        tgt = None
        if isinstance(n, ast.AnnAssign) and isinstance(n.target, ast.Name):
            tgt, val = n.target.id, n.value
        elif isinstance(n, ast.Assign) and len(n.targets) == 1 and isinstance(n.targets[0], ast.Name):
            tgt, val = n.targets[0].id, n.value
        if tgt in CONSTS:
            try:
                st, hdrs, text = val.elts
                code = getattr(http.client, dotted(st).split(".", 1)[1])
                hs = ast.literal_eval(hdrs)
                text = ast.literal_eval(text)
                assert len(hs) == 1 and hs[0][0] == "Content-Type" and isinstance(text, str)
            except Exception as e:
                raise Unsupported("httputils.%s is not (client.X, ((\"Content-Type\", ..),), \"text\"): %r" % (tgt, e))
            out[tgt] = (int(code), hs[0][1], text)
    for c in CONSTS:
        if c not in out:
            raise Unsupported("httputils.%s not found" % c)
    return out


def uses_outside_logging(stmts, names):
    """names used in stmts outside logger.*(..) calls"""
    bad = []
    for s in stmts:
        if is_logger_call(s):
            continue
        for n in ast.walk(s):
            if isinstance(n, ast.Name) and n.id in names:
                bad.append(n.id)
    return bad


def top_clause(repo):
    tree = parse_file(repo, "radicale/app/__init__.py")
    f = find_func(tree, "__call__")
    tries = [n for n in ast.walk(f) if isinstance(n, ast.Try)]
    if len(tries) != 1:
        raise Unsupported("__call__: expected one try")
    t = tries[0]
    if not (len(t.body) == 1 and "self._handle_request(environ)" in ast.unparse(t.body[0]) and len(t.handlers) == 1
            and not t.orelse and not t.finalbody):
        raise Unsupported("__call__: try body is not the call of _handle_request")
    h = t.handlers[0]
    cls = dotted(h.type) if h.type is not None else "BaseException"
    if cls not in CLASSES:
        raise Unsupported("__call__: except %s" % cls)
    consts = sorted({dotted(n).split(".", 1)[1] for s in h.body for n in ast.walk(s)
                     if isinstance(n, ast.Attribute) and (dotted(n) or "").startswith("httputils.")})
    if len(consts) != 1 or consts[0] not in CONSTS:
        raise Unsupported("__call__: the except clause does not answer with one constant of httputils: %r" % consts)
    bad = uses_outside_logging(h.body, {h.name or "_", "environ"})
    if bad:
        raise Unsupported("__call__: the except clause uses %s outside logging" % sorted(set(bad)))
    # the handler call in _handle_request must not sit inside a try
    g = find_func(tree, "_handle_request")
    for n in ast.walk(g):
        if isinstance(n, ast.Try):
            for m in ast.walk(n):
                if isinstance(m, ast.Call) and dotted(m.func) == "function":
                    raise Unsupported("_handle_request: the handler call is inside a try")
    return CLASSES[cls], consts[0]


def charsets(repo):
    f = find_func(parse_file(repo, "radicale/httputils.py"), "decode_request")
    consts = []
    for n in ast.walk(f):
        if isinstance(n, ast.Call) and dotted(n.func) == "charsets.append" and len(n.args) == 1 \
                and isinstance(n.args[0], ast.Constant) and isinstance(n.args[0].value, str):
            consts.append(n.args[0].value)
    supp = []
    for n in ast.walk(f):
        if isinstance(n, ast.Call) and dotted(n.func) == "contextlib.suppress":
            supp += [dotted(a) for a in n.args]
    if not consts or supp != ["UnicodeDecodeError"]:
        raise Unsupported("decode_request: fallback charsets %r, suppressed %r" % (consts, supp))
    return consts, supp


# ------------------------------------------------------------------------------------------------ output
def cstr(s):
    return '"%s"' % s.replace('"', '""')


def cbool(b):
    return "true" if b else "false"


HEADER = """(* GENERATED by translate/t_c19xml.py from radicale/app/{base,propfind,proppatch,report,mkcol,mkcalendar,__init__}.py
   and radicale/httputils.py -- do not edit. *)
From Coq Require Import List NArith Bool String.
Import ListNotations.
Require Import RV.Model.XmlReject.
Open Scope N_scope.
Open Scope string_scope.

"""


def generate(repo, outdir):
    """Every table is produced on its own: when one part of the source has an unexpected shape, that table gets a value that
    makes its Gen_xml_* lemma false (and the reason is recorded in the file and in the error text), the others -- in particular
    the list of parse sites -- are still emitted, so that the broken obligation names what changed."""
    errors = {}
    problems = []
    path = os.path.join(outdir, "XmlGen.v")

    def part(fn, default):
        try:
            return fn()
        except (Unsupported, SyntaxError, OSError, AttributeError, IndexError, ValueError, TypeError) as e:
            problems.append(str(e))
            return default

    sites = part(lambda: parse_sites(repo), None)
    listed, site_call = [("<translation failed>", "<translation failed>")], None
    if sites is not None:
        calls = [x for x in sites if len(x) == 4]
        others = [x for x in sites if len(x) == 2]
        expected = [x for x in calls if x[0] == "radicale/app/base.py" and x[1] == "DefusedET.fromstring"]
        site_call = expected[0][3] if expected else None
        listed = [(rel, d) for rel, d, mod, node in calls] + others
    kw0 = {"forbid_dtd": False, "forbid_entities": False, "forbid_external": False}
    if site_call is None:
        problems.append("no call DefusedET.fromstring in radicale/app/base.py")
        shape = None
    else:
        shape = part(lambda: read_shape(repo, site_call), None)
    kw, rewrap = shape if shape is not None else (kw0, [])
    hc = part(lambda: handler_clauses(repo), {})
    cs = part(lambda: constants(repo), {})
    tc = part(lambda: top_clause(repo), ("CParseError", "BAD_REQUEST"))      # a value Gen_xml_top_eq refutes
    fb, supp = part(lambda: charsets(repo), ([], []))
    parts = [HEADER]
    for pr in problems:
        parts.append("(* NOT AS EXPECTED: %s *)\n" % pr.replace("*)", "* )").replace("(*", "( *"))
    parts.append("\n(* every call that parses XML, anywhere in radicale/ (tests excluded), in source order *)\n")
    parts.append("Definition gen_parse_sites : list (string * string) :=\n  [%s].\n\n" % ";\n   ".join(
        "(%s, %s)" % (cstr(a), cstr(b)) for a, b in listed))
    parts.append("Definition gen_read_shape_ok : bool := %s.\n" % cbool(shape is not None))
    for k in ("forbid_dtd", "forbid_entities", "forbid_external"):
        parts.append("Definition gen_%s : bool := %s.\n" % (k, cbool(kw[k])))
    parts.append("\nDefinition gen_parse_rewrap : list (eclass * exn) := [%s].\n\n" % "; ".join("(%s, %s)" % x for x in rewrap))
    parts.append("Definition gen_handler_clauses : list (string * list (eclass * rconst)) :=\n  [%s].\n\n" % ";\n   ".join(
        "(%s, [%s])" % (cstr(m), "; ".join("(%s, %s)" % x for x in cl)) for m, cl in sorted(hc.items())))
    parts.append("Definition gen_const : list (rconst * (N * string * string)) :=\n  [%s].\n\n" % ";\n   ".join(
        "(%s, (%d, %s, %s))" % (c, cs[c][0], cstr(cs[c][1]), cstr(cs[c][2])) for c in CONSTS if c in cs))
    parts.append("Definition gen_top_clause : eclass * rconst := (%s, %s).\n\n" % tc)
    parts.append("Definition gen_fallback_charsets : list string := [%s].\n" % "; ".join(cstr(x) for x in fb))
    parts.append("Definition gen_suppressed : list string := [%s].\n" % "; ".join(cstr(x) for x in supp))
    text = "".join(parts)
    if problems:
        errors["XmlGen"] = "translate:c19xml: " + " | ".join(problems)
    os.makedirs(outdir, exist_ok=True)
    old = None
    if os.path.exists(path):
        with open(path) as fh:
            old = fh.read()
    if old != text:
        with open(path, "w") as fh:
            fh.write(text)
    return errors


if __name__ == "__main__":
    import sys
    repo = sys.argv[1] if len(sys.argv) > 1 else "/repo"
    out = sys.argv[2] if len(sys.argv) > 2 else "/tmp/c19xml-out"
    print(generate(repo, out))
    print(open(os.path.join(out, "XmlGen.v")).read())
