#!/venv/bin/python
"""Fail-closed translator from a small subset of Python (as used by the pure,
string- or decision-valued functions of Radicale) to Gallina.

Tie T of DESIGN.md section 2.2.  Anything outside the subset raises
`Unsupported`, which the caller reports as a broken obligation
`translate:<function>` -- never a guess.

Python `str` is modelled as `pystr` (= list N of code points), see
coq/Lib/PyStr.v, which also holds the models of the standard-library
functions that calls are mapped to.
"""
import ast
import os
import sys

T_STR, T_BOOL, T_INT, T_LIST, T_ITEM, T_CHAR = "str", "bool", "int", "list", "item", "char"


class Unsupported(Exception):
    pass


def coq_str_literal(s):
    if all(32 <= ord(c) < 127 and c != '"' for c in s):
        return '(str "%s")' % s if s else "(@nil N)"
    return "[" + "; ".join(str(ord(c)) for c in s) + "]%N"


class FnTranslator:
    """Translates one FunctionDef."""

    def __init__(self, spec, known_fns):
        self.spec = spec
        self.known = known_fns          # python name -> (coq name, [arg types], ret type, extra leading args)
        self.env = {}                   # variable -> type
        self.raises = False

    # ---------------------------------------------------------------- expr
    def fail(self, node, why):
        raise Unsupported("%s:%s: %s: %s" % (
            self.spec["name"], getattr(node, "lineno", "?"), why,
            ast.dump(node)[:200] if isinstance(node, ast.AST) else node))

    def const_str(self, node):
        if isinstance(node, ast.Constant) and isinstance(node.value, str):
            return node.value
        return None

    def single_char(self, node):
        s = self.const_str(node)
        if s is not None and len(s) == 1:
            return str(ord(s))
        return None

    def attr_chain(self, node):
        parts = []
        while isinstance(node, ast.Attribute):
            parts.append(node.attr)
            node = node.value
        if isinstance(node, ast.Name):
            parts.append(node.id)
            return ".".join(reversed(parts))
        return None

    def expr(self, n):
        """returns (coq text, type)"""
        if isinstance(n, ast.Constant):
            if isinstance(n.value, bool):
                return ("true" if n.value else "false"), T_BOOL
            if isinstance(n.value, str):
                return coq_str_literal(n.value), T_STR
            if isinstance(n.value, int):
                return "%d" % n.value, T_INT
            self.fail(n, "constant")
        if isinstance(n, ast.Name):
            if n.id in self.env:
                return self.var(n.id), self.env[n.id]
            self.fail(n, "unknown name")
        if isinstance(n, ast.Attribute):
            chain = self.attr_chain(n)
            if chain and chain.startswith("self."):
                attr = chain[5:]
                if attr in self.spec.get("self_attrs", {}):
                    return "self_" + attr.lstrip("_"), self.spec["self_attrs"][attr]
                self.fail(n, "self attribute not in table")
            if chain in ("os.curdir",):
                return coq_str_literal("."), T_STR
            if chain in ("os.pardir",):
                return coq_str_literal(".."), T_STR
            if chain == "sys.platform":
                return coq_str_literal("linux"), T_STR
            if isinstance(n.value, ast.Name) and self.env.get(n.value.id) == T_ITEM and n.attr == "tag":
                return "(item_tag %s)" % self.var(n.value.id), T_STR
            self.fail(n, "attribute")
        if isinstance(n, ast.UnaryOp) and isinstance(n.op, ast.Not):
            return "(negb %s)" % self.truthy(n.operand), T_BOOL
        if isinstance(n, ast.BoolOp):
            # Only in boolean position (callers use truthiness); each operand by truthiness.
            parts = [self.truthy(v) for v in n.values]
            op = " && " if isinstance(n.op, ast.And) else " || "
            return "(" + op.join(parts) + ")", T_BOOL
        if isinstance(n, ast.IfExp):
            a, ta = self.expr(n.body)
            b, tb = self.expr(n.orelse)
            if ta != tb:
                self.fail(n, "ifexp branch types differ")
            return "(if %s then %s else %s)" % (self.truthy(n.test), a, b), ta
        if isinstance(n, ast.Compare):
            return self.compare(n)
        if isinstance(n, ast.BinOp):
            if isinstance(n.op, ast.Add):
                a, ta = self.expr(n.left)
                b, tb = self.expr(n.right)
                if ta == tb == T_STR:
                    return "(%s ++ %s)" % (a, b), T_STR
                self.fail(n, "add")
            if isinstance(n.op, ast.Mod):
                fmt = self.const_str(n.left)
                if fmt is not None and fmt.count("%s") == fmt.count("%") and fmt.count("%s") >= 1:
                    args = n.right.elts if isinstance(n.right, ast.Tuple) else [n.right]
                    pieces = fmt.split("%s")
                    if len(args) != len(pieces) - 1:
                        self.fail(n, "format arity")
                    out = []
                    for i, p in enumerate(pieces):
                        if p:
                            out.append(coq_str_literal(p))
                        if i < len(args):
                            a, ta = self.expr(args[i])
                            if ta != T_STR:
                                self.fail(n, "format arg type")
                            out.append(a)
                    return "(" + " ++ ".join(out) + ")", T_STR
                self.fail(n, "mod")
            self.fail(n, "binop")
        if isinstance(n, ast.Subscript):
            return self.subscript(n)
        if isinstance(n, ast.Call):
            return self.call(n)
        if isinstance(n, ast.Tuple):
            self.fail(n, "tuple")
        self.fail(n, "expression")

    def var(self, name):
        return "v_" + name

    def truthy(self, n):
        c, t = self.expr(n)
        if t == T_BOOL:
            return c
        if t in (T_STR, T_LIST):
            return "(nonempty %s)" % c
        if t == T_ITEM:
            return "(item_truthy %s)" % c
        self.fail(n, "truthiness of type %s" % t)

    def compare(self, n):
        if len(n.ops) != 1:
            self.fail(n, "chained comparison")
        op, right = n.ops[0], n.comparators[0]
        if isinstance(op, (ast.In, ast.NotIn)):
            l, tl = self.expr(n.left)
            neg = isinstance(op, ast.NotIn)
            if isinstance(right, ast.Tuple):
                elems = []
                for e in right.elts:
                    c, t = self.expr(e)
                    if t != T_STR:
                        self.fail(n, "tuple member type")
                    elems.append(c)
                if tl != T_STR:
                    self.fail(n, "in-tuple lhs type")
                r = "(mem_str %s [%s])" % (l, "; ".join(elems))
            else:
                r_c, tr = self.expr(right)
                if tr != T_STR:
                    self.fail(n, "in rhs type")
                if tl == T_CHAR:
                    r = "(contains_char %s %s)" % (l, r_c)
                elif tl == T_STR:
                    ch = self.single_char(n.left)
                    if ch is not None:
                        r = "(contains_char %s %s)" % (ch, r_c)
                    else:
                        r = "(contains_sub %s %s)" % (l, r_c)
                else:
                    self.fail(n, "in lhs type")
            return ("(negb %s)" % r if neg else r), T_BOOL
        if isinstance(op, (ast.Eq, ast.NotEq)):
            l, tl = self.expr(n.left)
            r, tr = self.expr(right)
            if tl != tr:
                self.fail(n, "eq types %s %s" % (tl, tr))
            if tl == T_STR:
                c = "(eqs %s %s)" % (l, r)
            elif tl == T_INT:
                c = "(N.eqb %s %s)" % (l, r)
            elif tl == T_BOOL:
                c = "(Bool.eqb %s %s)" % (l, r)
            else:
                self.fail(n, "eq type")
            return ("(negb %s)" % c if isinstance(op, ast.NotEq) else c), T_BOOL
        self.fail(n, "comparison operator")

    def subscript(self, n):
        # x.split(sep, maxsplit=1)[0] ; os.path.split(p)[0] ; os.path.splitdrive(p)[0] ; s[len(t):]
        idx = n.slice
        if isinstance(idx, ast.Constant) and idx.value == 0 and isinstance(n.value, ast.Call):
            call = n.value
            chain = self.attr_chain(call.func) if isinstance(call.func, ast.Attribute) else None
            if chain == "os.path.split" and len(call.args) == 1:
                a, t = self.expr(call.args[0])
                return "(posix_dirname %s)" % a, T_STR
            if chain == "os.path.splitdrive" and len(call.args) == 1:
                self.expr(call.args[0])
                return "(@nil N)", T_STR            # posix: drive is always ''
            if isinstance(call.func, ast.Attribute) and call.func.attr == "split":
                sep = self.single_char(call.args[0]) if call.args else None
                kws = {k.arg: k.value for k in call.keywords}
                if sep and len(call.args) == 1 and set(kws) == {"maxsplit"} and \
                        isinstance(kws["maxsplit"], ast.Constant) and kws["maxsplit"].value == 1:
                    a, t = self.expr(call.func.value)
                    if t != T_STR:
                        self.fail(n, "split receiver")
                    return "(fst (split1 %s %s))" % (sep, a), T_STR
        if isinstance(idx, ast.Slice) and idx.upper is None and idx.step is None and \
                isinstance(idx.lower, ast.Call) and isinstance(idx.lower.func, ast.Name) and \
                idx.lower.func.id == "len" and len(idx.lower.args) == 1:
            a, t = self.expr(n.value)
            b, tb = self.expr(idx.lower.args[0])
            if t == tb == T_STR:
                return "(skipn (List.length %s) %s)" % (b, a), T_STR
        self.fail(n, "subscript")

    def call(self, n):
        f = n.func
        if isinstance(f, ast.Name):
            if f.id == "bool" and len(n.args) == 1:
                return self.truthy(n.args[0]), T_BOOL
            if f.id == "len" and len(n.args) == 1:
                a, t = self.expr(n.args[0])
                if t in (T_STR, T_LIST):
                    return "(N.of_nat (List.length %s))" % a, T_INT
            if f.id == "isinstance" and len(n.args) == 2 and isinstance(n.args[0], ast.Name) \
                    and self.env.get(n.args[0].id) == T_ITEM \
                    and self.attr_chain(n.args[1]) == "storage.BaseCollection":
                return "(item_is_collection %s)" % self.var(n.args[0].id), T_BOOL
            if f.id in self.known:
                return self.known_call(f.id, n)
            self.fail(n, "call of unknown function")
        if isinstance(f, ast.Attribute):
            chain = self.attr_chain(f)
            if chain in ("posixpath.normpath",) and len(n.args) == 1:
                return "(normpath %s)" % self.expr_t(n.args[0], T_STR), T_STR
            if chain in ("posixpath.join", "os.path.join") and len(n.args) == 2:
                return "(posix_join %s %s)" % (self.expr_t(n.args[0], T_STR), self.expr_t(n.args[1], T_STR)), T_STR
            if chain == "posixpath.dirname" and len(n.args) == 1:
                return "(posix_dirname %s)" % self.expr_t(n.args[0], T_STR), T_STR
            if chain and chain.split(".")[0] in ("pathutils", "rights") and chain.split(".", 1)[1] in self.known:
                return self.known_call(chain.split(".", 1)[1], n)
            # "".join(set(a).intersection(set(b)))
            if f.attr == "join" and self.const_str(f.value) == "" and len(n.args) == 1:
                inner = n.args[0]
                if (isinstance(inner, ast.Call) and isinstance(inner.func, ast.Attribute)
                        and inner.func.attr == "intersection"
                        and self.is_set_of(inner.func.value) and len(inner.args) == 1
                        and self.is_set_of(inner.args[0])):
                    a = self.expr_t(inner.func.value.args[0], T_STR)
                    b = self.expr_t(inner.args[0].args[0], T_STR)
                    return "(intersect_chars %s %s)" % (a, b), T_STR
            # methods on str values
            recv, tr = self.expr(f.value)
            if tr == T_STR:
                if f.attr in ("startswith", "endswith") and len(n.args) == 1:
                    return "(%s %s %s)" % (f.attr, recv, self.expr_t(n.args[0], T_STR)), T_BOOL
                if f.attr in ("strip", "rstrip", "lstrip") and len(n.args) == 1 and self.single_char(n.args[0]):
                    return "(%s_char %s %s)" % (f.attr, self.single_char(n.args[0]), recv), T_STR
                if f.attr == "split" and len(n.args) == 1 and not n.keywords and self.single_char(n.args[0]):
                    return "(split_on %s %s)" % (self.single_char(n.args[0]), recv), T_LIST
                if f.attr == "count" and len(n.args) == 1 and self.single_char(n.args[0]):
                    return "(count_char %s %s)" % (self.single_char(n.args[0]), recv), T_INT
                if f.attr == "upper" and not n.args:
                    return "(upper_ascii %s)" % recv, T_STR
                if f.attr == "lower" and not n.args:
                    return "(lower_ascii %s)" % recv, T_STR
            self.fail(n, "method call")
        self.fail(n, "call")

    def is_set_of(self, n):
        return (isinstance(n, ast.Call) and isinstance(n.func, ast.Name)
                and n.func.id == "set" and len(n.args) == 1)

    def expr_t(self, n, want):
        c, t = self.expr(n)
        if t != want:
            self.fail(n, "expected %s, got %s" % (want, t))
        return c

    def known_call(self, name, n):
        coq, argtypes, ret, lead = self.known[name]
        if n.keywords or len(n.args) > len(argtypes):
            self.fail(n, "known call arity/keywords")
        args = [self.expr_t(a, t) if t != T_BOOL else self.truthy(a) for a, t in zip(n.args, argtypes)]
        defaults = self.known_defaults.get(name, [])
        missing = len(argtypes) - len(args)
        if missing:
            if missing > len(defaults):
                self.fail(n, "missing args")
            args += defaults[len(defaults) - missing:]
        return "(%s %s)" % (coq, " ".join(lead + args)), ret

    # ---------------------------------------------------------------- statements
    def assigned_vars(self, stmts):
        out = []
        for s in stmts:
            for sub in ast.walk(s):
                if isinstance(sub, ast.Assign):
                    for t in sub.targets:
                        if not isinstance(t, ast.Name):
                            self.fail(sub, "assignment target")
                        if t.id not in out:
                            out.append(t.id)
                elif isinstance(sub, ast.AugAssign):
                    if not isinstance(sub.target, ast.Name):
                        self.fail(sub, "augassign target")
                    if sub.target.id not in out:
                        out.append(sub.target.id)
        return out

    def always_returns(self, stmts):
        for s in stmts:
            if isinstance(s, (ast.Return, ast.Raise)):
                return True
            if isinstance(s, ast.If) and s.orelse and self.always_returns(s.body) and self.always_returns(s.orelse):
                return True
        return False

    def has_return(self, stmts):
        return any(isinstance(x, (ast.Return, ast.Raise)) for s in stmts for x in ast.walk(s))

    def ret(self, c):
        return "(Some %s)" % c if self.raises else c

    def block(self, stmts, k, ind):
        """Translate a statement list; `k` is the Gallina text to continue with
        when control falls off the end (None = function end, an error)."""
        pad = "  " * ind
        if not stmts:
            if k is None:
                raise Unsupported("%s: control reaches end of function without return" % self.spec["name"])
            return k
        s, rest = stmts[0], stmts[1:]
        if isinstance(s, ast.Expr) and isinstance(s.value, ast.Constant) and isinstance(s.value.value, str):
            return self.block(rest, k, ind)               # docstring
        if isinstance(s, ast.Assert):
            return self.block(rest, k, ind)               # asserts are preconditions (recorded in DESIGN)
        if isinstance(s, ast.Return):
            if s.value is None:
                self.fail(s, "bare return")
            c, t = self.expr(s.value)
            if t != self.spec["ret"]:
                if self.spec["ret"] == T_BOOL:
                    c = self.truthy(s.value)
                else:
                    self.fail(s, "return type %s, expected %s" % (t, self.spec["ret"]))
            return self.ret(c)
        if isinstance(s, ast.Raise):
            if not self.raises:
                self.fail(s, "raise in function not declared as raising")
            return "None"
        if isinstance(s, ast.Continue):
            if self.loop_k is None:
                self.fail(s, "continue outside loop")
            return self.loop_k
        if isinstance(s, ast.AnnAssign):
            self.fail(s, "annotated assignment")
        if isinstance(s, ast.Assign):
            if len(s.targets) != 1 or not isinstance(s.targets[0], ast.Name):
                self.fail(s, "assignment form")
            c, t = self.expr(s.value)
            name = s.targets[0].id
            old = self.env.get(name)
            if old is not None and old != t:
                self.fail(s, "variable %s changes type" % name)
            self.env[name] = t
            return "let %s := %s in\n%s%s" % (self.var(name), c, pad, self.block(rest, k, ind))
        if isinstance(s, ast.AugAssign):
            if not isinstance(s.op, ast.Add) or not isinstance(s.target, ast.Name):
                self.fail(s, "augassign form")
            name = s.target.id
            if self.env.get(name) != T_STR:
                self.fail(s, "augassign type")
            c = self.expr_t(s.value, T_STR)
            return "let %s := (%s ++ %s) in\n%s%s" % (self.var(name), self.var(name), c, pad,
                                                       self.block(rest, k, ind))
        if isinstance(s, ast.If):
            cond = self.truthy(s.test)
            body_ret = self.always_returns(s.body)
            else_ret = self.always_returns(s.orelse) if s.orelse else False
            if body_ret or else_ret or self.has_return(s.body) or self.has_return(s.orelse) \
                    or any(isinstance(x, ast.Continue) for st in s.body + s.orelse for x in ast.walk(st)):
                # duplicate the continuation into the branches that fall through
                env0 = dict(self.env)
                a = self.block(s.body + rest, k, ind + 1) if not body_ret else self.block(s.body, None, ind + 1)
                env_a = self.env
                self.env = dict(env0)
                b = self.block(list(s.orelse) + rest, k, ind + 1) if not else_ret else self.block(s.orelse, None, ind + 1)
                self.env = env0
                return "if %s\n%sthen %s\n%selse %s" % (cond, pad, a, pad, b)
            # pure assignment branches: rebinding through a tuple
            vs = self.assigned_vars(s.body + list(s.orelse))
            for v in vs:
                if v not in self.env:
                    # must be assigned in both branches
                    if not (v in self.assigned_vars(s.body) and s.orelse and v in self.assigned_vars(s.orelse)):
                        self.fail(s, "variable %s conditionally defined" % v)
            tup = self.tuple(vs)
            env0 = dict(self.env)
            a = self.block(s.body, tup, ind + 1)
            env_a = dict(self.env)
            self.env = dict(env0)
            b = self.block(list(s.orelse), tup, ind + 1)
            for v in vs:
                ta, tb = env_a.get(v), self.env.get(v)
                if ta != tb:
                    self.fail(s, "variable %s has different types in branches" % v)
            return "let %s := (if %s\n%s  then %s\n%s  else %s) in\n%s%s" % (
                self.pattern(vs), cond, pad, a, pad, b, pad, self.block(rest, k, ind))
        if isinstance(s, ast.For):
            if s.orelse or not isinstance(s.target, ast.Name):
                self.fail(s, "for form")
            it, tit = self.expr(s.iter)
            if tit == T_LIST:
                elem_t = T_STR
            elif tit == T_STR:
                elem_t = T_CHAR
            else:
                self.fail(s, "for iterable type")
            x = s.target.id
            # shape 1: body = [if cond: return CONST]  (search loop)
            if len(s.body) == 1 and isinstance(s.body[0], ast.If) and not s.body[0].orelse \
                    and len(s.body[0].body) == 1 and isinstance(s.body[0].body[0], ast.Return):
                env0 = dict(self.env)
                self.env[x] = elem_t
                cond = self.truthy(s.body[0].test)
                r = self.block(s.body[0].body, None, ind + 1)
                self.env = env0
                return "if existsb (fun %s => %s) %s\n%sthen %s\n%selse %s" % (
                    self.var(x), cond, it, pad, r, pad, self.block(rest, k, ind + 1))
            if self.has_return(s.body):
                self.fail(s, "return inside loop body")
            vs = self.assigned_vars(s.body)
            for v in vs:
                if v not in self.env:
                    self.fail(s, "loop variable %s not initialised before the loop" % v)
            tup = self.tuple(vs)
            env0 = dict(self.env)
            self.env[x] = elem_t
            saved = self.loop_k
            self.loop_k = tup
            body = self.block(s.body, tup, ind + 2)
            self.loop_k = saved
            for v in vs:
                if self.env.get(v) != env0.get(v):
                    self.fail(s, "loop variable %s changes type" % v)
            self.env = env0
            return "let %s := fold_left (fun %s %s =>\n%s    %s) %s %s in\n%s%s" % (
                self.pattern(vs), self.pattern(vs), self.var(x), pad, body, it, tup, pad,
                self.block(rest, k, ind))
        self.fail(s, "statement")

    def tuple(self, vs):
        if not vs:
            return "tt"
        return self.var(vs[0]) if len(vs) == 1 else "(" + ", ".join(self.var(v) for v in vs) + ")"

    def pattern(self, vs):
        if not vs:
            return "_"
        return self.var(vs[0]) if len(vs) == 1 else "'(" + ", ".join(self.var(v) for v in vs) + ")"

    # ---------------------------------------------------------------- function
    COQ_T = {T_STR: "pystr", T_BOOL: "bool", T_INT: "N", T_LIST: "list pystr", T_ITEM: "item_kind"}

    def translate(self, fn):
        self.loop_k = None
        self.known_defaults = KNOWN_DEFAULTS
        spec = self.spec
        self.raises = spec.get("raises", False)
        params = []
        for attr, t in spec.get("self_attrs", {}).items():
            params.append(("self_" + attr.lstrip("_"), t))
        args = [a.arg for a in fn.args.args if a.arg != "self"]
        if fn.args.vararg or fn.args.kwarg or fn.args.kwonlyargs:
            raise Unsupported("%s: signature" % spec["name"])
        if len(args) != len(spec["args"]):
            raise Unsupported("%s: expected %d parameters, source has %d (%s)" % (
                spec["name"], len(spec["args"]), len(args), args))
        for a, t in zip(args, spec["args"]):
            self.env[a] = t
            params.append((self.var(a), t))
        body = self.block(fn.body, None, 1)
        rt = self.COQ_T[spec["ret"]]
        if self.raises:
            rt = "option (%s)" % rt
        sig = " ".join("(%s : %s)" % (p, self.COQ_T[t]) for p, t in params)
        return "Definition %s %s : %s :=\n  %s.\n" % (spec["coq"], sig, rt, body)


def find_function(tree, qual):
    """qual = 'f' | 'Class.f' | 'Class.f.inner'"""
    node = tree
    for part in qual.split("."):
        found = None
        for child in ast.walk(node) if isinstance(node, ast.FunctionDef) else ast.iter_child_nodes(node):
            if isinstance(child, (ast.FunctionDef, ast.ClassDef)) and child.name == part and child is not node:
                found = child
                break
        if found is None:
            raise Unsupported("function %s not found" % qual)
        node = found
    if not isinstance(node, ast.FunctionDef):
        raise Unsupported("%s is not a function" % qual)
    return node


# ------------------------------------------------------------------ the reviewed table
# Each output file lists the functions to translate, in dependency order.
SPECS = {
    "PathGen": {
        "source": "radicale/pathutils.py",
        "functions": [
            dict(name="is_safe_path_component", coq="is_safe_path_component", args=[T_STR], ret=T_BOOL),
            dict(name="is_safe_filesystem_path_component", coq="is_safe_filesystem_path_component",
                 args=[T_STR], ret=T_BOOL),
            dict(name="sanitize_path", coq="sanitize_path", args=[T_STR], ret=T_STR),
            dict(name="strip_path", coq="strip_path", args=[T_STR], ret=T_STR),
            dict(name="unstrip_path", coq="unstrip_path", args=[T_STR, T_BOOL], ret=T_STR,
                 defaults=["false"]),
        ],
    },
    "RightsGen": {
        "source": None,
        "requires": ["PathGen"],
        "functions": [
            dict(source="radicale/rights/__init__.py", name="intersect", coq="intersect",
                 args=[T_STR, T_STR], ret=T_STR),
            dict(source="radicale/rights/authenticated.py", name="Rights.authorization",
                 coq="authorization_authenticated", args=[T_STR, T_STR], ret=T_STR,
                 self_attrs={"_verify_user": T_BOOL}),
            dict(source="radicale/rights/owner_only.py", name="Rights.authorization",
                 coq="authorization_owner_only", args=[T_STR, T_STR], ret=T_STR,
                 self_attrs={"_verify_user": T_BOOL}),
            dict(source="radicale/rights/owner_write.py", name="Rights.authorization",
                 coq="authorization_owner_write", args=[T_STR, T_STR], ret=T_STR,
                 self_attrs={"_verify_user": T_BOOL}),
        ],
    },
    "AccessGen": {
        "source": "radicale/app/base.py",
        "requires": ["PathGen", "RightsGen"],
        "prelude": "Require Import RV.Lib.Item.\n",
        "functions": [
            dict(name="Access.check", coq="access_check", args=[T_STR, T_ITEM], ret=T_BOOL, raises=True,
                 self_attrs={"permissions": T_STR, "parent_permissions": T_STR,
                             "path": T_STR, "parent_path": T_STR}),
        ],
    },
    "SyncTokGen": {
        "source": "radicale/storage/multifilesystem/sync.py",
        "functions": [
            dict(name="CollectionPartSync.sync.check_token_name", coq="check_token_name",
                 args=[T_STR], ret=T_BOOL),
        ],
    },
}

HEADER = """(* GENERATED by /verif/translate/py2coq.py from %s -- do not edit.
   Regenerated from /repo's working tree on every check run (tie T). *)
From Coq Require Import List NArith Bool String.
Import ListNotations.
Require Import RV.Lib.PyStr.
%sOpen Scope N_scope.

"""


def generate(repo, outdir):
    """Regenerate all Gen files.  Returns dict file -> error string (empty when fine)."""
    errors = {}
    known = {}
    os.makedirs(outdir, exist_ok=True)
    for modname, spec in SPECS.items():
        out = []
        srcs = []
        err = None
        trees = {}
        for f in spec["functions"]:
            src = f.get("source") or spec["source"]
            try:
                if src not in trees:
                    with open(os.path.join(repo, src)) as fh:
                        trees[src] = ast.parse(fh.read())
                    srcs.append(src)
                fn = find_function(trees[src], f["name"])
                text = FnTranslator(f, known).translate(fn)
                out.append("(* %s :: %s *)\n%s" % (src, f["name"], text))
                short = f["name"].split(".")[-1]
                if "self_attrs" not in f:
                    known[short] = (f["coq"], f["args"], f["ret"], [])
                    KNOWN_DEFAULTS[short] = f.get("defaults", [])
            except (Unsupported, SyntaxError, OSError) as e:
                err = "translate:%s: %s" % (f["coq"], e)
                break
        path = os.path.join(outdir, modname + ".v")
        if err:
            errors[modname] = err
            text = "(* translation failed: %s *)\nDefinition translation_failed : False := I.\n" % err.replace("*)", "* )")
        else:
            reqs = "".join("Require Import RV.Gen.%s.\n" % r for r in spec.get("requires", []))
            text = HEADER % (", ".join(srcs), reqs + spec.get("prelude", "")) + "\n".join(out)
        old = None
        if os.path.exists(path):
            with open(path) as fh:
                old = fh.read()
        if old != text:
            with open(path, "w") as fh:
                fh.write(text)
    return errors


KNOWN_DEFAULTS = {}


if __name__ == "__main__":
    repo = sys.argv[1] if len(sys.argv) > 1 else "/repo"
    outdir = sys.argv[2] if len(sys.argv) > 2 else "/verif/coq/Gen"
    errs = generate(repo, outdir)
    for m, e in errs.items():
        print("TRANSLATE-ERROR %s: %s" % (m, e))
    sys.exit(1 if errs else 0)
