"""C05 translators (tie T), run by vlib.core.regenerate() on every check:

LoginMapC05Gen.v   the login-name mapping prefix of radicale/auth/__init__.py BaseAuth.login
                (lc_username / uc_username / strip_domain), translated with py2coq.FnTranslator into a
                Gallina function over the external str.lower / str.upper (Section variables).  Fails
                closed unless the rest of the cache-less branch is exactly
                `result = self._login(login, password)` ... `return (result, self._type)`.
GateSkelGen.v   the statement skeleton of Application._handle_request from the method lookup to the final
                return (logging stripped): a list of strings compared by Proofs/GenEqLoginMap.v with the
                skeleton Model/Gate.v was written from.  Any change of the order of the checks, of a guard
                or of what is passed to the handler breaks `Gen_gate_skeleton_eq`.
AuthEnvC05Gen.v which keys of the WSGI environ every module of radicale/auth, httputils.decode_request and the credential
                part of _handle_request read (ast: environ.get(K) / environ[K] / K in environ; any other use of `environ` is
                listed with a leading "!"), and the statements of every get_external_login.  Proofs/C05GenEqAuthEnv.v
                compares the table with the expected one: remote_user reads exactly REMOTE_USER, http_x_remote_user exactly
                HTTP_X_REMOTE_USER, no other back-end reads the environ, the gate reads exactly HTTP_AUTHORIZATION.
"""
import ast
import copy
import os

from translate import py2coq
from translate.py2coq import FnTranslator, Unsupported, T_STR, T_BOOL


class LoginTranslator(FnTranslator):
    def call(self, n):
        f = n.func
        if isinstance(f, ast.Attribute) and f.attr in ("lower", "upper") and not n.args and not n.keywords:
            recv, tr = self.expr(f.value)
            if tr == T_STR:
                return "(py_%s %s)" % (f.attr, recv), T_STR
        return super().call(n)

    def subscript(self, n):
        # x.split(c)[0]  ==  text before the first c
        idx = n.slice
        if isinstance(idx, ast.Constant) and idx.value == 0 and isinstance(n.value, ast.Call):
            call = n.value
            if (isinstance(call.func, ast.Attribute) and call.func.attr == "split" and len(call.args) == 1
                    and not call.keywords and self.single_char(call.args[0])):
                recv, tr = self.expr(call.func.value)
                if tr == T_STR:
                    return "(fst (split1 %s %s))" % (self.single_char(call.args[0]), recv), T_STR
        return super().subscript(n)


def _is_self_attr(node, name):
    return (isinstance(node, ast.Attribute) and node.attr == name and isinstance(node.value, ast.Name)
            and node.value.id == "self")


def _mentions_cache_logins(test):
    return any(_is_self_attr(x, "_cache_logins") for x in ast.walk(test))


def gen_login_map(repo):
    src = os.path.join(repo, "radicale/auth/__init__.py")
    with open(src) as fh:
        tree = ast.parse(fh.read())
    fn = py2coq.find_function(tree, "BaseAuth.login")
    args = [a.arg for a in fn.args.args]
    if args != ["self", "login", "password"]:
        raise Unsupported("BaseAuth.login: signature %r" % args)
    body = [s for s in fn.body if not (isinstance(s, ast.Expr) and isinstance(s.value, ast.Constant))]
    k = None
    for i, s in enumerate(body):
        if isinstance(s, ast.If) and _mentions_cache_logins(s.test):
            k = i
            break
    if k is None:
        raise Unsupported("BaseAuth.login: no `if self._cache_logins` statement")
    prefix, tail = body[:k], body[k]
    mapping = []
    for s in prefix:
        if isinstance(s, ast.Assign) and len(s.targets) == 1 and isinstance(s.targets[0], ast.Name) \
                and s.targets[0].id in ("time_ns_begin", "result_from_cache"):
            continue                      # bookkeeping that does not touch login / password
        mapping.append(s)
    for s in mapping:
        for x in ast.walk(s):
            if isinstance(x, (ast.Assign, ast.AugAssign)):
                tg = x.targets if isinstance(x, ast.Assign) else [x.target]
                for t in tg:
                    if not (isinstance(t, ast.Name) and t.id == "login"):
                        raise Unsupported("BaseAuth.login: mapping prefix assigns %s" % ast.unparse(t))
            if isinstance(x, ast.Name) and x.id == "password":
                raise Unsupported("BaseAuth.login: mapping prefix touches the password")
    if len(body) != k + 1:
        raise Unsupported("BaseAuth.login: statements after the cache switch")
    # the cache-less branch: result = self._login(login, password); [sleep if ""]; return (result, self._type)
    want = ast.unparse(tail.test)
    if want not in ("self._cache_logins is True", "self._cache_logins"):
        raise Unsupported("BaseAuth.login: cache switch is %r" % want)
    off = [s for s in tail.orelse if not (isinstance(s, ast.Expr) and isinstance(s.value, ast.Constant))]
    shape = [ast.unparse(s).split("\n")[0] for s in off]
    expected = ["result = self._login(login, password)", "if result == '':", "return (result, self._type)"]
    if shape != expected:
        raise Unsupported("BaseAuth.login: cache-less branch is %r, expected %r" % (shape, expected))
    inner = off[1].body
    if [ast.unparse(s) for s in inner] != ["self._sleep_for_constant_exec_time(time_ns_begin)"]:
        raise Unsupported("BaseAuth.login: failed-login branch is %r" % [ast.unparse(s) for s in inner])
    synth = ast.FunctionDef(
        name="map_login", args=ast.arguments(posonlyargs=[], args=[ast.arg(arg="self"), ast.arg(arg="login")], vararg=None,
                                             kwonlyargs=[], kw_defaults=[], kwarg=None, defaults=[]),
        body=[copy.deepcopy(s) for s in mapping] + [ast.Return(value=ast.Name(id="login", ctx=ast.Load()))],
        decorator_list=[], returns=None, type_comment=None, type_params=[])
    ast.fix_missing_locations(synth)
    spec = dict(name="map_login", coq="map_login", args=[T_STR], ret=T_STR,
                self_attrs={"_lc_username": T_BOOL, "_uc_username": T_BOOL, "_strip_domain": T_BOOL})
    text = LoginTranslator(spec, {}).translate(synth)
    return ("(* GENERATED by /verif/translate/t_c05.py from radicale/auth/__init__.py (BaseAuth.login) -- do not edit.\n"
            "   Regenerated from the repository's working tree on every check run (tie T).\n"
            "   The translator also checked that the cache-less branch is\n"
            "     result = self._login(login, password); ...; return (result, self._type). *)\n"
            "From Coq Require Import List NArith Bool String.\nImport ListNotations.\nRequire Import RV.Lib.PyStr.\n"
            "Open Scope N_scope.\n\nSection Gen.\nVariables py_lower py_upper : pystr -> pystr.\n\n"
            + text + "End Gen.\n")


# ---------------------------------------------------------------------------------- gate skeleton
LOGVARS = {"remote_host", "remote_useragent", "depthinfo", "https_info", "time_begin", "https"}


def _is_logging(s):
    if isinstance(s, ast.Assign) and all(isinstance(t, ast.Name) and t.id in LOGVARS for t in s.targets):
        return True                        # variables that only feed log messages
    if isinstance(s, ast.Expr) and isinstance(s.value, ast.Call):
        f = s.value.func
        if isinstance(f, ast.Attribute) and isinstance(f.value, ast.Name) and f.value.id == "logger":
            return True
    return isinstance(s, ast.Expr) and isinstance(s.value, ast.Constant)


def _skel(stmts, depth, out):
    pad = "  " * depth
    for s in stmts:
        if _is_logging(s) or isinstance(s, ast.Pass):
            continue
        if isinstance(s, ast.If):
            inner = []
            _skel(s.body, depth + 1, inner)
            inner_else = []
            _skel(s.orelse, depth + 1, inner_else)
            if not inner and not inner_else:
                continue                       # a branch that only logs
            out.append(pad + "if " + ast.unparse(s.test) + ":")
            out.extend(inner or [pad + "  pass"])
            if inner_else:
                out.append(pad + "else:")
                out.extend(inner_else)
        elif isinstance(s, ast.With):
            out.append(pad + "with " + ", ".join(ast.unparse(i) for i in s.items) + ":")
            _skel(s.body, depth + 1, out)
        elif isinstance(s, ast.Try):
            out.append(pad + "try:")
            _skel(s.body, depth + 1, out)
            for h in s.handlers:
                out.append(pad + "except " + (ast.unparse(h.type) if h.type else "") + ":")
                inner = []
                _skel(h.body, depth + 1, inner)
                out.extend(inner or [pad + "  pass"])
        elif isinstance(s, ast.For):
            out.append(pad + "for " + ast.unparse(s.target) + " in " + ast.unparse(s.iter) + ":")
            _skel(s.body, depth + 1, out)
        elif isinstance(s, (ast.Assign, ast.AugAssign, ast.Return, ast.Expr, ast.Raise)):
            out.append(pad + " ".join(ast.unparse(s).split()))
        else:
            raise Unsupported("_handle_request: statement kind %s" % type(s).__name__)


def gate_skeleton(repo):
    src = os.path.join(repo, "radicale/app/__init__.py")
    with open(src) as fh:
        tree = ast.parse(fh.read())
    fn = py2coq.find_function(tree, "Application._handle_request")
    start = None
    for i, s in enumerate(fn.body):
        if isinstance(s, ast.Assign) and ast.unparse(s.targets[0]) == "reverse_proxy" and start is None:
            start = i
    if start is None:
        raise Unsupported("_handle_request: `reverse_proxy = False` not found")
    out = []
    head = [x for x in fn.body[:start] if isinstance(x, ast.Assign) and ast.unparse(x.targets[0]) in ("request_method", "unsafe_path")]
    if len(head) != 2:
        raise Unsupported("_handle_request: request_method / unsafe_path assignments not found")
    _skel(head, 0, out)
    _skel(fn.body[start:], 0, out)
    return out


def coq_string(s):
    if any(ord(c) > 126 or ord(c) < 32 for c in s):
        raise Unsupported("non-ASCII text in skeleton line %r" % s)
    return '"' + s.replace('"', '""') + '"'


def gen_gate_skel(repo):
    lines = gate_skeleton(repo)
    return ("(* GENERATED by /verif/translate/t_c05.py from radicale/app/__init__.py (Application._handle_request,\n"
            "   from the reverse-proxy detection to the final return; logging stripped) -- do not edit. *)\n"
            "From Coq Require Import List String.\nImport ListNotations.\nOpen Scope string_scope.\n\n"
            "Definition skeleton : list string := [\n  " + ";\n  ".join(coq_string(l) for l in lines) + "\n].\n")


# ---------------------------------------------------------------------------------- which environ keys are read
def _environ_uses(region_nodes):
    """(keys, passed_to, other) for every use of a variable named `environ` below the given nodes.
    keys: constant keys of environ.get(K...) / environ[K] / K in environ; passed_to: callees that receive environ
    as an argument; other: any other use (non-constant key, iteration, attribute ...), rendered, prefixed '!'."""
    keys, passed, other = [], [], []
    for root in region_nodes:
        parent = {}
        for n in ast.walk(root):
            for c in ast.iter_child_nodes(n):
                parent[c] = n
        for n in ast.walk(root):
            if not (isinstance(n, ast.Name) and n.id == "environ"):
                continue
            par = parent.get(n)
            gp = parent.get(par)
            if isinstance(par, ast.Attribute) and par.attr == "get" and isinstance(gp, ast.Call) and gp.func is par:
                a = gp.args[0] if gp.args else None
                if isinstance(a, ast.Constant) and isinstance(a.value, str):
                    keys.append(a.value)
                else:
                    other.append("!" + " ".join(ast.unparse(gp).split()))
            elif isinstance(par, ast.Subscript) and par.value is n:
                if isinstance(par.slice, ast.Constant) and isinstance(par.slice.value, str):
                    keys.append(par.slice.value)
                else:
                    other.append("!" + " ".join(ast.unparse(par).split()))
            elif isinstance(par, ast.Compare) and n in par.comparators and len(par.ops) == 1 \
                    and isinstance(par.ops[0], (ast.In, ast.NotIn)) and isinstance(par.left, ast.Constant):
                keys.append(par.left.value)
            elif isinstance(par, ast.Call) and (n in par.args or any(k.value is n for k in par.keywords)):
                passed.append(" ".join(ast.unparse(par.func).split()))
            else:
                other.append("!" + " ".join(ast.unparse(par if par is not None else n).split()))
    return sorted(set(keys)), sorted(set(passed)), sorted(set(other))


def auth_environ_table(repo):
    """Rows (label, keys + other uses, pass-throughs, body of get_external_login)."""
    rows = []
    adir = os.path.join(repo, "radicale/auth")
    for name in sorted(os.listdir(adir)):
        if not name.endswith(".py"):
            continue
        with open(os.path.join(adir, name)) as fh:
            tree = ast.parse(fh.read())
        keys, passed, other = _environ_uses([tree])
        body = []
        for n in ast.walk(tree):
            if isinstance(n, ast.FunctionDef) and n.name == "get_external_login":
                for st in n.body:
                    if isinstance(st, ast.Expr) and isinstance(st.value, ast.Constant):
                        continue
                    body += [" ".join(l.split()) for l in ast.unparse(st).split("\n")]
        rows.append(("radicale/auth/" + name, keys + other, passed, body))
    with open(os.path.join(repo, "radicale/httputils.py")) as fh:
        tree = ast.parse(fh.read())
    fn = py2coq.find_function(tree, "decode_request")
    keys, passed, other = _environ_uses([fn])
    rows.append(("radicale/httputils.py:decode_request", keys + other, passed, []))
    with open(os.path.join(repo, "radicale/app/__init__.py")) as fh:
        tree = ast.parse(fh.read())
    fn = py2coq.find_function(tree, "Application._handle_request")
    a = b = None
    for i, st in enumerate(fn.body):
        if isinstance(st, ast.Assign):
            tg = [ast.unparse(t) for t in st.targets]
            if a is None and "login" in tg and "password" in tg:
                a = i
            if a is not None and any("user" in t.split(", ") or t.strip("()").split(", ")[0] == "user" for t in tg) \
                    and "self._auth.login" in ast.unparse(st.value):
                b = i
                break
    if a is None or b is None:
        raise Unsupported("_handle_request: credential part (login = password = '' ... user = self._auth.login) not found")
    keys, passed, other = _environ_uses(fn.body[a:b + 1])
    rows.append(("radicale/app/__init__.py:_handle_request:credentials", keys + other, passed, []))
    # the built-in server: what the WSGI environ of a request starts from (wsgiref merges `os_environ` into every
    # request's environ; the inherited default is a snapshot of the PROCESS environment) and what get_environ adds
    with open(os.path.join(repo, "radicale/server.py")) as fh:
        tree = ast.parse(fh.read())
    os_env, body = ["<not overridden: wsgiref's snapshot of os.environ>"], []
    for n in ast.walk(tree):
        if isinstance(n, ast.ClassDef) and n.name == "ServerHandler":
            for st in n.body:
                tg = None
                if isinstance(st, ast.AnnAssign) and isinstance(st.target, ast.Name):
                    tg, val = st.target.id, st.value
                elif isinstance(st, ast.Assign) and len(st.targets) == 1 and isinstance(st.targets[0], ast.Name):
                    tg, val = st.targets[0].id, st.value
                if tg == "os_environ":
                    os_env = [" ".join(ast.unparse(val).split()) if val is not None else "<no value>"]
        if isinstance(n, ast.ClassDef) and n.name == "RequestHandler":
            for f in n.body:
                if isinstance(f, ast.FunctionDef) and f.name == "get_environ":
                    sk = []
                    _skel(f.body, 0, sk)
                    body = sk
    rows.append(("radicale/server.py:ServerHandler.os_environ", os_env, [], body))
    return rows


def gen_auth_env(repo):
    rows = auth_environ_table(repo)

    def lst(l):
        return "[" + "; ".join(coq_string(x) for x in l) + "]"
    return ("(* GENERATED by /verif/translate/t_c05.py -- do not edit.  Which keys of the WSGI environ the auth back-ends, the\n"
            "   charset decoding and the credential part of Application._handle_request read: (where, keys read [other uses\n"
            "   prefixed by !], callees the environ is handed to, statements of get_external_login). *)\n"
            "From Coq Require Import List String.\nImport ListNotations.\nOpen Scope string_scope.\n\n"
            "Definition environ_reads : list (string * list string * list string * list string) := [\n  "
            + ";\n  ".join("(%s, %s, %s, %s)" % (coq_string(w), lst(k), lst(p), lst(b)) for w, k, p, b in rows) + "\n].\n")


def generate(repo, outdir):
    errors = {}
    os.makedirs(outdir, exist_ok=True)
    for mod, fn in (("LoginMapC05Gen", gen_login_map), ("GateSkelGen", gen_gate_skel), ("AuthEnvC05Gen", gen_auth_env)):
        try:
            text = fn(repo)
        except (Unsupported, SyntaxError, OSError) as e:
            errors[mod] = "translate:%s: %s" % (mod, e)
            text = "(* translation failed: %s *)\nDefinition translation_failed : False := I.\n" % str(e).replace("*)", "* )")
        path = os.path.join(outdir, mod + ".v")
        old = None
        if os.path.exists(path):
            with open(path) as fh:
                old = fh.read()
        if old != text:
            with open(path, "w") as fh:
                fh.write(text)
    return errors


if __name__ == "__main__":
    import sys
    print(generate(sys.argv[1] if len(sys.argv) > 1 else "/repo", sys.argv[2] if len(sys.argv) > 2 else "/tmp/gen"))
