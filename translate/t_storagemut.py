"""Tie T for the storage side of C10: which file system MUTATIONS can each storage API operation reach?

Source: radicale/storage/__init__.py and radicale/storage/multifilesystem/*.py (AST).  Output: Gen/StorageMut.v

  storage_data_mutations  : list (sop * string)   -- sites that create / change / rename / delete something that is not
                                                      provably below the cache area, reachable from the operation
  storage_other_mutations : list (sop * string)   -- sites that write below the cache area, and idempotent creations of
                                                      missing folders (os.makedirs(.., exist_ok=True))

Proofs/C10StorageMut.v proves by vm_compute that every operation in the first table has sop_access = AWrite and that
no operation of the second has sop_access = ARead; so a reader (an operation that is sufficient under the shared lock)
that starts to tidy up, repair or migrate collection data breaks a proof obligation.

Method (conservative, syntactic):
  * functions are identified by NAME (methods of all classes of the package and module functions; equal names are
    merged); a call `<anything>.name(..)` / `name(..)` to a known name is an edge, a load of an attribute whose name is
    a property defined in the package is an edge (receivers that are imported modules are not);
  * a site is a call of a mutating primitive (table MUTATORS: os.remove/unlink/rmdir/rename/replace/mkdir/makedirs/
    utime/truncate/chmod/chown/link/symlink, shutil.*, open / os.open for writing, tempfile.*, pathlib-style
    .unlink()/.rmdir()/.touch()/.write_text()/.write_bytes(); every OTHER function of `os` / `shutil` that is not in
    the reviewed read-only table OS_READONLY is a site too -- fail closed);
  * provenance of the path argument, per function, flow-insensitive: `cache` when it is built from the result of a
    function of CACHE_ROOTS (first argument of os.path.join / dirname / normpath .., left operand of + and of an
    f-string, local names assigned from such, `with TemporaryDirectory(dir=<cache>) as name`), `param i` when it is
    built from a parameter, else `data`; summaries are propagated along the call edges, a parameter that the
    caller leaves at its default is `data`; parameters of the API entry points are `data`.
Trusted tables: MUTATORS, OS_READONLY, CACHE_ROOTS (the two functions that compute folders below .Radicale.cache /
collection-cache), ENTRY (API name -> sop).
"""
import ast
import glob
import os

CACHE_ROOTS = {"_get_collection_cache_folder", "_get_collection_cache_subfolder"}
ENTRY = {"discover": "Discover", "get_all": "GetAll", "get_multi": "GetMulti", "get_filtered": "GetFiltered",
         "get_meta": "GetMeta", "set_meta": "SetMeta", "tag": "Tag", "etag": "Etag", "sync": "Sync", "has_uid": "HasUid",
         "upload": "Upload", "delete": "Delete", "move": "Move", "create_collection": "CreateCollection",
         "serialize": "Serialize", "last_modified": "LastModified", "verify": "Verify"}
# path argument positions of the mutating primitives
MUTATORS = {"os.remove": (0,), "os.unlink": (0,), "os.rmdir": (0,), "os.removedirs": (0,), "os.rename": (0, 1),
            "os.replace": (0, 1), "os.renames": (0, 1), "os.mkdir": (0,), "os.makedirs": (0,), "os.utime": (0,),
            "os.truncate": (0,), "os.chmod": (0,), "os.chown": (0,), "os.link": (0, 1), "os.symlink": (0, 1),
            "os.mkfifo": (0,), "os.mknod": (0,), "os.lchown": (0,), "os.setxattr": (0,), "os.removexattr": (0,),
            "shutil.rmtree": (0,), "shutil.move": (0, 1), "shutil.copy": (1,), "shutil.copy2": (1,),
            "shutil.copyfile": (1,), "shutil.copytree": (1,), "shutil.copymode": (1,), "shutil.copystat": (1,),
            "shutil.chown": (0,)}
TEMPFILE = {"TemporaryDirectory", "tempfile.TemporaryDirectory", "tempfile.mkdtemp", "tempfile.mkstemp", "mkdtemp", "mkstemp",
            "NamedTemporaryFile", "tempfile.NamedTemporaryFile", "tempfile.TemporaryFile", "TemporaryFile"}
PATH_METHODS = {"unlink", "rmdir", "touch", "write_text", "write_bytes"}
OS_READONLY = {"os.path", "os.scandir", "os.listdir", "os.stat", "os.lstat", "os.fstat", "os.fsync", "os.close", "os.umask",
               "os.getpid", "os.walk", "os.access", "os.fspath", "os.fsencode", "os.fsdecode", "os.getcwd", "os.read",
               "os.readlink", "os.killpg", "os.getpgid", "os.kill", "os.environ", "os.sep", "os.name", "os.getuid",
               "os.getgid", "os.cpu_count", "os.strerror", "os.urandom", "os.times", "os.get_terminal_size"}
PATH_FUNCS = {"os.path.join", "os.path.dirname", "os.path.normpath", "os.path.abspath", "os.path.realpath",
              "os.path.basename", "os.path.split", "os.path.splitext", "os.fspath", "str", "os.path.expanduser"}


class Unsupported(Exception):
    pass


def dotted(node):
    parts = []
    while isinstance(node, ast.Attribute):
        parts.append(node.attr)
        node = node.value
    if isinstance(node, ast.Name):
        parts.append(node.id)
        return ".".join(reversed(parts))
    return None


def join(a, b):
    order = lambda p: 0 if p == "cache" else 2 if p == "data" else 1      # noqa: E731
    if a is None:
        return b
    if b is None:
        return a
    if order(a) == 1 and order(b) == 1 and a != b:
        return "data"
    return a if order(a) >= order(b) else b


class Func:
    def __init__(self, name, node, rel, method):
        self.name, self.node, self.rel = name, node, rel
        deco = [dotted(d) or "" for d in node.decorator_list]
        self.is_property = any(d == "property" or d.endswith(".setter") or d.endswith("cached_property") for d in deco)
        skip = 1 if method and "staticmethod" not in deco else 0
        a = node.args
        self.params = [x.arg for x in a.posonlyargs + a.args][skip:] + [x.arg for x in a.kwonlyargs]
        if a.vararg:
            self.params.append(a.vararg.arg)
        if a.kwarg:
            self.params.append(a.kwarg.arg)
        self.env = {}
        self.sites = set()      # (label, klass, prov)   klass: "mut" | "mkdirs"
        self.calls = []         # (callee name, [prov of positional args], {kw: prov})

    # ---- provenance of an expression
    def prov(self, e):
        if e is None:
            return "data"
        if isinstance(e, ast.Constant):
            return None
        if isinstance(e, ast.Name):
            if e.id in self.env:
                return self.env[e.id]
            if e.id in self.params:
                return ("param", self.params.index(e.id))
            return "data"
        if isinstance(e, ast.Call):
            d = dotted(e.func)
            last = d.split(".")[-1] if d else (e.func.attr if isinstance(e.func, ast.Attribute) else None)
            if last in CACHE_ROOTS:
                return "cache"
            if d in PATH_FUNCS and e.args:
                return self.prov(e.args[0]) or "data"
            if d in TEMPFILE or (last in ("TemporaryDirectory", "mkdtemp")):
                for k in e.keywords:
                    if k.arg == "dir":
                        return self.prov(k.value) or "data"
                return "data"
            return "data"
        if isinstance(e, ast.BinOp):
            return self.prov(e.left) or self.prov(e.right) or "data"
        if isinstance(e, ast.JoinedStr):
            for v in e.values:
                if isinstance(v, ast.FormattedValue):
                    return self.prov(v.value) or "data"
            return None
        if isinstance(e, ast.IfExp):
            return join(self.prov(e.body), self.prov(e.orelse))
        if isinstance(e, (ast.Tuple, ast.List)):
            p = None
            for x in e.elts:
                p = join(p, self.prov(x))
            return p
        if isinstance(e, ast.Subscript):
            return self.prov(e.value)
        if isinstance(e, ast.Attribute):
            # an attribute of a local object (entry.path, self._filesystem_path): the object's provenance, never `cache`
            p = self.prov(e.value) if isinstance(e.value, ast.Name) and e.value.id in self.params and \
                e.value.id not in ("self", "cls") else "data"
            return "data" if p in (None, "cache") else p
        return "data"

    def bind(self, target, p):
        if isinstance(target, ast.Name):
            self.env[target.id] = join(self.env.get(target.id), p) if target.id in self.env else p
        elif isinstance(target, (ast.Tuple, ast.List)):
            for t in target.elts:
                self.bind(t, p)
        elif isinstance(target, ast.Starred):
            self.bind(target.value, p)

    def infer(self):
        for _ in range(3):
            for n in ast.walk(self.node):
                if isinstance(n, ast.Assign):
                    p = self.prov(n.value) or "data"
                    for t in n.targets:
                        self.bind(t, p)
                elif isinstance(n, ast.AnnAssign) and n.value is not None:
                    self.bind(n.target, self.prov(n.value) or "data")
                elif isinstance(n, ast.AugAssign):
                    self.bind(n.target, join(self.prov(n.target), self.prov(n.value)) or "data")
                elif isinstance(n, ast.NamedExpr):
                    self.bind(n.target, self.prov(n.value) or "data")
                elif isinstance(n, (ast.With, ast.AsyncWith)):
                    for it in n.items:
                        if it.optional_vars is not None:
                            self.bind(it.optional_vars, self.prov(it.context_expr) or "data")
                elif isinstance(n, (ast.For, ast.AsyncFor, ast.comprehension)):
                    self.bind(n.target, "data")
                elif isinstance(n, ast.ExceptHandler) and n.name:
                    self.env[n.name] = "data"
        # names that shadow parameters keep the join with the parameter
        for name in list(self.env):
            if name in self.params:
                self.env[name] = join(self.env[name], ("param", self.params.index(name)))


def write_mode(call, pos, kw):
    """True unless the mode argument of open() is a constant read mode."""
    m = None
    if len(call.args) > pos:
        m = call.args[pos]
    for k in call.keywords:
        if k.arg == kw:
            m = k.value
    if m is None:
        return False
    if isinstance(m, ast.Constant) and isinstance(m.value, str):
        return any(c in m.value for c in "wax+")
    return True


def analyse(repo):
    files = [os.path.join(repo, "radicale/storage/__init__.py")] + sorted(
        glob.glob(os.path.join(repo, "radicale/storage/multifilesystem/*.py")))
    funcs = {}          # name -> [Func]
    modules = set()
    for f in files:
        rel = os.path.relpath(f, os.path.join(repo, "radicale/storage"))
        with open(f) as fh:
            tree = ast.parse(fh.read(), f)
        for n in ast.walk(tree):
            if isinstance(n, ast.Import):
                modules.update((a.asname or a.name).split(".")[0] for a in n.names)
            elif isinstance(n, ast.ImportFrom):
                modules.update(a.asname or a.name for a in n.names)

        def collect(body, method):
            for n in body:
                if isinstance(n, (ast.FunctionDef, ast.AsyncFunctionDef)):
                    funcs.setdefault(n.name, []).append(Func(n.name, n, rel, method))
                elif isinstance(n, ast.ClassDef):
                    collect(n.body, True)
                elif isinstance(n, (ast.If, ast.Try)):
                    collect(getattr(n, "body", []), method)
        collect(tree.body, False)
    missing = [c for c in CACHE_ROOTS if c not in funcs]
    if missing:
        raise Unsupported("cache folder functions not found: %s" % missing)
    missing = [e for e in ENTRY if e not in funcs]
    if missing:
        raise Unsupported("storage API operations not found: %s" % missing)
    props = {name for name, fl in funcs.items() if any(f.is_property for f in fl)}
    modules -= set(funcs)
    for name, fl in funcs.items():
        for fn in fl:
            fn.infer()
            for n in ast.walk(fn.node):
                if isinstance(n, ast.Attribute) and isinstance(n.ctx, ast.Load) and n.attr in props:
                    root = dotted(n)
                    if not (root and root.split(".")[0] in modules):
                        fn.calls.append((n.attr, [], {}))
                if not isinstance(n, ast.Call):
                    continue
                d = dotted(n.func)
                label = "%s:%d %s" % (fn.rel, n.lineno, d or (n.func.attr if isinstance(n.func, ast.Attribute) else "call"))
                last = d.split(".")[-1] if d else (n.func.attr if isinstance(n.func, ast.Attribute) else None)
                args = list(n.args)

                def argp(i, kwname=None):
                    if i is not None and i < len(args) and not isinstance(args[i], ast.Starred):
                        return fn.prov(args[i]) or "data"
                    for k in n.keywords:
                        if kwname and k.arg == kwname:
                            return fn.prov(k.value) or "data"
                    return "data"
                if d in MUTATORS:
                    klass = "mut"
                    if d == "os.makedirs" and any(k.arg == "exist_ok" and isinstance(k.value, ast.Constant) and k.value.value is True
                                                  for k in n.keywords):
                        klass = "mkdirs"
                    for i in MUTATORS[d]:
                        fn.sites.add((label, klass, argp(i)))
                    continue
                if d in TEMPFILE or last in ("TemporaryDirectory", "mkdtemp", "mkstemp", "NamedTemporaryFile"):
                    fn.sites.add((label, "mut", argp(None, "dir")))
                    continue
                if d == "open" or d == "io.open" or d == "codecs.open":
                    if write_mode(n, 1, "mode"):
                        fn.sites.add((label, "mut", argp(0, "file")))
                    continue
                if d == "os.open":
                    fl_ = n.args[1] if len(n.args) > 1 else None
                    if not (isinstance(fl_, ast.Constant) and fl_.value == 0) and dotted(fl_) != "os.O_RDONLY":
                        fn.sites.add((label, "mut", argp(0)))
                    continue
                if d and (d.startswith("os.") or d.startswith("shutil.")):
                    if not any(d == r or d.startswith(r + ".") for r in OS_READONLY):
                        fn.sites.add((label + " (not in the reviewed tables)", "mut", "data"))
                    continue
                if isinstance(n.func, ast.Attribute) and n.func.attr in PATH_METHODS and n.func.attr not in funcs:
                    fn.sites.add((label, "mut", fn.prov(n.func.value) or "data"))
                    continue
                if last in funcs and last not in CACHE_ROOTS:
                    if d and "." in d and d.split(".")[0] in modules:
                        continue
                    pos = [None if isinstance(a, ast.Starred) else (fn.prov(a) or "data") for a in args]
                    kws = {k.arg: (fn.prov(k.value) or "data") for k in n.keywords if k.arg}
                    fn.calls.append((last, pos, kws))
    # ---- summaries: name -> set of (label, klass, prov), provenance relative to the parameters of that name
    summ = {name: set() for name in funcs}
    changed = True
    rounds = 0
    while changed:
        rounds += 1
        if rounds > 60:
            raise Unsupported("summaries do not converge")
        changed = False
        for name, fl in funcs.items():
            new = set(summ[name])
            for fn in fl:
                new |= fn.sites
                for callee, pos, kws in fn.calls:
                    for g in funcs[callee]:
                        for (label, klass, p) in summ[callee]:
                            if isinstance(p, tuple):
                                i = p[1]
                                pname = g.params[i] if i < len(g.params) else None
                                if i < len(pos) and pos[i] is not None:
                                    q = pos[i]
                                elif pname in kws:
                                    q = kws[pname]
                                else:
                                    q = "data"
                            else:
                                q = p
                            new.add((label, klass, q))
            # parameters are per definition; merged definitions with different parameter lists: positions still refer
            # to the definition that owns the site -- conservative enough because callers are matched by position/name
            if new != summ[name]:
                summ[name] = new
                changed = True
    data, other = [], []
    for name, sop in sorted(ENTRY.items(), key=lambda x: x[1]):
        for (label, klass, p) in sorted(summ[name], key=str):
            if p != "cache":
                p = "data"
            if klass == "mut" and p == "data":
                data.append((sop, label))
            else:
                other.append((sop, "%s [%s]" % (label, "cache area" if p == "cache" else "creates missing folders")))
    return sorted(set(data)), sorted(set(other))


HEADER = """(* GENERATED by translate/t_storagemut.py from radicale/storage/__init__.py and radicale/storage/multifilesystem/*.py.
   Do not edit.  Which file system mutations each storage API operation can reach (syntactic, conservative). *)
From Coq Require Import List String.
Import ListNotations.
Require Import RV.Model.LockDiscipline.
Open Scope string_scope.

"""


def render(name, rows, comment):
    body = ";\n   ".join('(%s, "%s")' % (k, s.replace('"', "'")) for k, s in rows)
    return "(* %s *)\nDefinition %s : list (sop * string) :=\n  [%s].\n\n" % (comment, name, body)


def generate(repo, outdir):
    errors = {}
    path = os.path.join(outdir, "StorageMut.v")
    try:
        data, other = analyse(repo)
        text = HEADER + render("storage_data_mutations", data,
                               "sites that create / change / rename / delete collection data (path not provably below the cache area)") \
            + render("storage_other_mutations", other, "writes below the cache area; idempotent creation of missing folders")
    except (Unsupported, SyntaxError, OSError) as e:
        errors["StorageMut"] = "translate:storagemut: %s" % e
        text = "(* translation failed: %s *)\nDefinition translation_failed : False := I.\n" % str(e).replace("*)", "* )")
    os.makedirs(outdir, exist_ok=True)
    old = None
    if os.path.exists(path):
        with open(path) as fh:
            old = fh.read()
    if old != text:
        with open(path, "w") as fh:
            fh.write(text)
    return errors


if __name__ == "__main__":
    import sys
    repo = sys.argv[1] if len(sys.argv) > 1 else "/repo"
    out = sys.argv[2] if len(sys.argv) > 2 else "/tmp/storagemut-out"
    print(generate(repo, out))
    print(open(os.path.join(out, "StorageMut.v")).read())
